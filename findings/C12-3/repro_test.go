package eventbus

import (
	"context"
	"iter"
	"testing"
)

type findingC123Event struct{ N int }

// a store whose stream lets the test publish right after the replay's read finished
type findingGapStore struct {
	*MemoryStore
	afterRead func()
}

func (g *findingGapStore) ReadStream(ctx context.Context, from Offset) iter.Seq2[*StoredEvent, error] {
	inner := g.MemoryStore.ReadStream(ctx, from)
	return func(yield func(*StoredEvent, error) bool) {
		inner(yield)
		if g.afterRead != nil {
			f := g.afterRead
			g.afterRead = nil
			f()
		}
	}
}

// F-C12-3: an event published after the replay has read the log but before the live
// handler is registered is neither replayed nor delivered live; the next live save
// moves the saved offset past it, so it is lost to the subscription for good.
func TestFindingC12PublishDuringSubscribeWithReplayIsNotLost(t *testing.T) {
	mem := NewMemoryStore()
	gs := &findingGapStore{MemoryStore: mem}
	bus := New(WithStore(gs), WithSubscriptionStore(mem))
	Publish(bus, findingC123Event{1})
	gs.afterRead = func() { Publish(bus, findingC123Event{2}) } // lands in the window
	var got []int
	if err := SubscribeWithReplay(context.Background(), bus, "sub", func(e findingC123Event) { got = append(got, e.N) }); err != nil {
		t.Fatal(err)
	}
	Publish(bus, findingC123Event{3})
	// restart and replay again: anything not yet seen must come now
	bus2 := New(WithStore(mem))
	if err := SubscribeWithReplay(context.Background(), bus2, "sub", func(e findingC123Event) { got = append(got, e.N) }); err != nil {
		t.Fatal(err)
	}
	seen := map[int]int{}
	for _, n := range got {
		seen[n]++
	}
	if seen[2] != 1 {
		t.Fatalf("event 2 (published while SubscribeWithReplay was running) was delivered %d times; deliveries: %v", seen[2], got)
	}
}
