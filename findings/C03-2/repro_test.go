package eventbus

import (
	"sync"
	"testing"
	"time"
)

type findingSeqA struct{ Nested bool }
type findingSeqB struct{ Nested bool }

// F-C03-2: two Sequential handlers that publish each other's event from two goroutines
// deadlock (each holds its own sequential mutex and needs the other's). This is not the
// documented exception (a handler publishing an event delivered back to itself).
func TestFindingC03SequentialCrossPublishDeadlock(t *testing.T) {
	bus := New()
	var barrier sync.WaitGroup
	barrier.Add(2)
	Subscribe(bus, func(a findingSeqA) {
		if a.Nested {
			return
		}
		barrier.Done()
		barrier.Wait()
		Publish(bus, findingSeqB{Nested: true})
	}, Sequential())
	Subscribe(bus, func(b findingSeqB) {
		if b.Nested {
			return
		}
		barrier.Done()
		barrier.Wait()
		Publish(bus, findingSeqA{Nested: true})
	}, Sequential())
	done := make(chan struct{})
	go func() {
		var wg sync.WaitGroup
		wg.Add(2)
		go func() { defer wg.Done(); Publish(bus, findingSeqA{}) }()
		go func() { defer wg.Done(); Publish(bus, findingSeqB{}) }()
		wg.Wait()
		close(done)
	}()
	select {
	case <-done:
	case <-time.After(3 * time.Second):
		t.Fatal("deadlock: both publishers are blocked on the other handler's sequential mutex")
	}
}
