package eventbus

import (
	"context"
	"errors"
	"testing"
)

type findingC122Event struct{ N int }

type findingFlakyStore struct {
	*MemoryStore
	failNext bool
}

func (f *findingFlakyStore) Append(ctx context.Context, e *Event) (Offset, error) {
	if f.failNext {
		f.failNext = false
		return "", errors.New("append failed")
	}
	return f.MemoryStore.Append(ctx, e)
}

// F-C12-2: the live wrapper saves bus.lastOffset, not the handled event's offset. On a
// fresh bus (lastOffset == "") a publish whose append fails is still delivered and the
// wrapper saves "": the saved offset moves backwards to the beginning of the log.
func TestFindingC12SavedOffsetNeverMovesBackwards(t *testing.T) {
	mem := NewMemoryStore()
	ctx := context.Background()
	bus := New(WithStore(mem))
	for i := 0; i < 3; i++ {
		Publish(bus, findingC122Event{i})
	}
	if err := SubscribeWithReplay(ctx, bus, "sub", func(e findingC122Event) {}); err != nil {
		t.Fatal(err)
	}
	before, _ := mem.LoadOffset(ctx, "sub")
	if before == OffsetOldest {
		t.Fatal("setup: nothing saved")
	}
	// restart: a new bus on the same stores
	flaky := &findingFlakyStore{MemoryStore: mem}
	bus2 := New(WithStore(flaky), WithSubscriptionStore(mem))
	if err := SubscribeWithReplay(ctx, bus2, "sub", func(e findingC122Event) {}); err != nil {
		t.Fatal(err)
	}
	flaky.failNext = true
	Publish(bus2, findingC122Event{99}) // append fails, event is still delivered live
	after, _ := mem.LoadOffset(ctx, "sub")
	if after < before {
		t.Fatalf("saved offset moved backwards: %q -> %q", before, after)
	}
}
