package sqlite

import (
	"context"
	"testing"
	"time"

	eventbus "github.com/jilio/ebu"
)

// F-C10-4: two separately created in-memory stores must not see each other's events.
func TestFindingC10MemoryStoresIsolated(t *testing.T) {
	a, err := New(":memory:")
	if err != nil {
		t.Fatal(err)
	}
	defer a.Close()
	b, err := New(":memory:")
	if err != nil {
		t.Fatal(err)
	}
	defer b.Close()
	ctx := context.Background()
	if _, err := a.Append(ctx, &eventbus.Event{Type: "x", Data: []byte(`{}`), Timestamp: time.Now()}); err != nil {
		t.Fatal(err)
	}
	evs, _, err := b.Read(ctx, eventbus.OffsetOldest, 0)
	if err != nil {
		t.Fatal(err)
	}
	if len(evs) != 0 {
		t.Fatalf("store b sees %d event(s) appended to store a", len(evs))
	}
}
