package sqlite

import (
	"errors"
	"testing"

	eventbus "github.com/jilio/ebu"
)

type findingRows struct {
	n, i int
	err  error
}

func (r *findingRows) Next() bool { r.i++; return r.i <= r.n }
func (r *findingRows) Scan(dest ...any) error {
	*(dest[0].(*int64)) = int64(r.i)
	return nil
}
func (r *findingRows) Err() error   { return r.err }
func (r *findingRows) Close() error { return nil }

// F-C11-1: a row-iteration error must end the batched stream with an error,
// not as if the log were complete.
func TestFindingC11StreamBatchReportsRowsErr(t *testing.T) {
	s := &SQLiteStore{cfg: defaultConfig()}
	var count int
	var iterErr error
	var yielded []error
	rows := &findingRows{n: 2, err: errors.New("disk I/O error")}
	_, _, cont := s.streamBatch(rows, &count, &iterErr, func(e *eventbus.StoredEvent, err error) bool {
		yielded = append(yielded, err)
		return true
	})
	if cont {
		t.Fatalf("streamBatch signalled 'continue' after rows.Err() != nil")
	}
	if iterErr == nil || len(yielded) == 0 || yielded[len(yielded)-1] == nil {
		t.Fatalf("iteration error was not reported: iterErr=%v yielded=%v", iterErr, yielded)
	}
}
