package eventbus

import (
	"testing"
	"time"
)

type findingC03Ev struct{ N int }

// F-C03-1: publishing to an async handler while another goroutine is in Wait is a data
// race on the bus's WaitGroup (Add starting from a zero counter concurrent with Wait);
// the runtime may also panic "WaitGroup is reused before previous Wait has returned".
// Run with -race.
func TestFindingC03WaitGroupAddConcurrentWithWait(t *testing.T) {
	bus := New()
	Subscribe(bus, func(e findingC03Ev) { time.Sleep(300 * time.Microsecond) }, Async())
	stop := make(chan struct{})
	go func() {
		defer close(stop)
		for j := 0; j < 2000; j++ {
			Publish(bus, findingC03Ev{j}) // counter goes 0 -> 1 again and again
			time.Sleep(350 * time.Microsecond)
		}
	}()
	for {
		select {
		case <-stop:
			bus.Wait()
			return
		default:
			bus.Wait() // blocks while a handler is in flight
		}
	}
}
