package eventbus

import (
	"testing"
)

type findingC07Event struct{ N int }

// F-C07-1: Async+Sequential starts one goroutine per event that merely contends for a
// mutex, so events published one after another by one goroutine are not processed in
// publish order (the README promises "preserves order").
func TestFindingC07AsyncSequentialPreservesOrder(t *testing.T) {
	for round := 0; round < 200; round++ {
		bus := New()
		var got []int
		Subscribe(bus, func(e findingC07Event) { got = append(got, e.N) }, Async(), Sequential())
		const n = 50
		for i := 0; i < n; i++ {
			Publish(bus, findingC07Event{i})
		}
		bus.Wait()
		for i := range got {
			if got[i] != i {
				t.Fatalf("round %d: processing order %v… differs from publish order at position %d", round, got[:i+1], i)
			}
		}
	}
}
