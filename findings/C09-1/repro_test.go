package eventbus

import (
	"context"
	"reflect"
	"testing"
)

type findingC09Event struct{ N int }

// F-C09-1: a context hook given after WithStore must not disable persistence.
func TestFindingC09HookAfterStoreStillPersists(t *testing.T) {
	store := NewMemoryStore()
	hook := 0
	bus := New(WithStore(store), WithBeforePublishContext(func(ctx context.Context, t reflect.Type, e any) { hook++ }))
	Publish(bus, findingC09Event{1})
	evs, _, _ := store.Read(context.Background(), OffsetOldest, 0)
	if hook != 1 {
		t.Fatalf("hook calls = %d", hook)
	}
	if len(evs) != 1 {
		t.Fatalf("records = %d, want 1 (persistence displaced by the later hook)", len(evs))
	}
}
