package durablestream_test

import (
	"context"
	"fmt"
	"testing"
	"time"

	eventbus "github.com/jilio/ebu"
	ds "github.com/jilio/ebu/stores/durablestream"
)

// F-C10-1 / F-C11-2: Read truncates to the limit but returns the chunk's end as next
// offset, so a paged replay (the durable-streams store is not a streamer) skips the
// events that were cut off and still returns nil.
func TestFindingC10DurableStreamPagedReplayIsComplete(t *testing.T) {
	srv := newTestServer()
	defer srv.Close()
	store, err := ds.New(srv.URL+"/v1/stream", "finding-c10-1")
	if err != nil {
		t.Fatal(err)
	}
	ctx := context.Background()
	const n = 5
	for i := 0; i < n; i++ {
		if _, err := store.Append(ctx, &eventbus.Event{Type: "t", Data: []byte(fmt.Sprintf(`{"i":%d}`, i)), Timestamp: time.Now()}); err != nil {
			t.Fatal(err)
		}
	}
	bus := eventbus.New(eventbus.WithStore(store), eventbus.WithReplayBatchSize(2))
	got := 0
	err = bus.Replay(ctx, eventbus.OffsetOldest, func(e *eventbus.StoredEvent) error { got++; return nil })
	if err != nil {
		t.Fatalf("Replay error: %v", err)
	}
	if got != n {
		t.Fatalf("Replay returned nil but delivered %d of %d events (next offset does not follow the truncated result)", got, n)
	}
}
