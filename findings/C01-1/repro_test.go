package eventbus

import "testing"

// F-C01-1: a filter is silently ignored when the event is published through an
// interface-typed variable (Publish[any] of a concrete event, as a bridge that
// re-publishes decoded events does). The handler is found under the event's dynamic
// type and invoked through the reflective fallback, but the filter's static type
// func(Concrete) bool does not match func(any) bool, so it was skipped: a handler whose
// filter rejects the event is invoked, and a Once handler is used up by it.
type findingFilterEvt struct{ N int }

func TestFindingFilterAppliesToInterfaceTypedPublish(t *testing.T) {
	bus := New()
	var got []int
	if err := Subscribe(bus, func(e findingFilterEvt) { got = append(got, e.N) },
		WithFilter(func(e findingFilterEvt) bool { return e.N > 10 })); err != nil {
		t.Fatal(err)
	}
	onceCalls := 0
	if err := Subscribe(bus, func(e findingFilterEvt) { onceCalls++ }, Once(),
		WithFilter(func(e findingFilterEvt) bool { return e.N > 10 })); err != nil {
		t.Fatal(err)
	}
	var rejected any = findingFilterEvt{N: 1}
	Publish(bus, rejected) // T = any, dynamic type findingFilterEvt
	if len(got) != 0 {
		t.Errorf("handler invoked for an event its filter rejects: %v", got)
	}
	if onceCalls != 0 {
		t.Errorf("Once handler used up by an event its filter rejects")
	}
	var accepted any = findingFilterEvt{N: 11}
	Publish(bus, accepted)
	if len(got) != 1 || got[0] != 11 {
		t.Errorf("accepted event not delivered exactly once: %v", got)
	}
	if onceCalls != 1 {
		t.Errorf("Once handler calls = %d, want 1", onceCalls)
	}
}
