package eventbus

import (
	"context"
	"encoding/json"
	"testing"
	"time"
)

type findingC16Event struct{ N int }

// F-C16-1: applying upcasts terminates even if a raw upcaster returns a type other
// than its declared target (here: its own source).
func TestFindingC16ApplyTerminates(t *testing.T) {
	store := NewMemoryStore()
	bus := New(WithStore(store))
	if err := RegisterUpcastFunc(bus, "A", "B", func(d json.RawMessage) (json.RawMessage, string, error) {
		return d, "A", nil
	}); err != nil {
		t.Fatal(err)
	}
	store.Append(context.Background(), &Event{Type: "A", Data: []byte(`{}`), Timestamp: time.Now()})
	done := make(chan error, 1)
	go func() {
		done <- bus.ReplayWithUpcast(context.Background(), OffsetOldest, func(e *StoredEvent) error { return nil })
	}()
	select {
	case <-done:
	case <-time.After(3 * time.Second):
		t.Fatal("ReplayWithUpcast did not terminate")
	}
}
