package eventbus

import (
	"context"
	"errors"
	"testing"
)

type findingC12Event struct{ N int }

type findingFailingLoad struct{ *MemoryStore }

func (f findingFailingLoad) LoadOffset(ctx context.Context, id string) (Offset, error) {
	return OffsetOldest, errors.New("load failed")
}

// F-C12-1: when the saved position cannot be loaded, SubscribeWithReplay must say so
// instead of silently re-delivering the whole log.
func TestFindingC12LoadOffsetErrorIsReported(t *testing.T) {
	store := NewMemoryStore()
	bus := New(WithStore(store))
	for i := 0; i < 3; i++ {
		Publish(bus, findingC12Event{i})
	}
	got := 0
	if err := SubscribeWithReplay(context.Background(), bus, "sub", func(e findingC12Event) { got++ }); err != nil {
		t.Fatal(err)
	}
	if got != 3 {
		t.Fatalf("first run got %d", got)
	}
	// restart with a subscription store whose load fails
	bus2 := New(WithStore(store), WithSubscriptionStore(findingFailingLoad{store}))
	again := 0
	err := SubscribeWithReplay(context.Background(), bus2, "sub", func(e findingC12Event) { again++ })
	if err == nil {
		t.Fatalf("LoadOffset error was discarded; %d events re-delivered", again)
	}
	if again != 0 {
		t.Fatalf("%d events re-delivered despite error", again)
	}
}
