#!/bin/bash
# Re-demonstrates a finding against a scratch copy of the repository (never /repo itself).
# usage: findings/run.sh <finding-dir> [repo-dir]     exit 0 = reproducer test passes
# Each finding dir holds repro_test.go (+ PKGDIR file naming the package dir relative to repo root).
set -u
F=$(cd "$(dirname "$0")" && pwd)/$1
REPO=${2:-/repo}
S=$(mktemp -d /tmp/ebu-finding.XXXXXX)
trap 'rm -rf "$S"' EXIT
rsync -a --exclude .git "$REPO"/ "$S"/
PKGDIR=$(cat "$F/PKGDIR" 2>/dev/null || echo .)
cp "$F"/*_test.go "$S/$PKGDIR/"
EXTRA=$(cat "$F/GOTESTFLAGS" 2>/dev/null || true)
cd "$S/$PKGDIR" && go test -mod=mod -vet=off -count=1 -timeout 120s $EXTRA -run 'TestFinding' . 2>&1 | tail -40
exit ${PIPESTATUS[0]}
