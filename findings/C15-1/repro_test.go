package eventbus

import (
	"context"
	"testing"
)

type findingNamedV1 struct{ A int }

func (findingNamedV1) EventTypeName() string { return "finding.named.v1" }

type findingNamedV2 struct{ B int }

func (findingNamedV2) EventTypeName() string { return "finding.named.v2" }

type findingPtrNamed struct{ A int }

func (*findingPtrNamed) EventTypeName() string { return "finding.ptr" }

// F-C15-1: SubscribeWithReplay and RegisterUpcast must use the same name EventType reports.
func TestFindingC15TypeNamerMatchesInReplayAndUpcast(t *testing.T) {
	store := NewMemoryStore()
	bus := New(WithStore(store))
	Publish(bus, findingNamedV1{A: 7})
	Publish(bus, &findingPtrNamed{A: 9})

	got := 0
	if err := SubscribeWithReplay(context.Background(), bus, "s1", func(e findingNamedV1) { got += e.A }); err != nil {
		t.Fatal(err)
	}
	if got != 7 {
		t.Fatalf("typed replay of a TypeNamer event delivered nothing (got=%d)", got)
	}
	gotp := 0
	if err := SubscribeWithReplay(context.Background(), bus, "s2", func(e *findingPtrNamed) { gotp += e.A }); err != nil {
		t.Fatal(err)
	}
	if gotp != 9 {
		t.Fatalf("typed replay of a pointer TypeNamer event delivered nothing (got=%d)", gotp)
	}

	if err := RegisterUpcast(bus, func(v1 findingNamedV1) findingNamedV2 { return findingNamedV2{B: v1.A * 2} }); err != nil {
		t.Fatal(err)
	}
	var seenType string
	if err := bus.ReplayWithUpcast(context.Background(), OffsetOldest, func(e *StoredEvent) error {
		if e.Offset == "00000000000000000001" {
			seenType = e.Type
		}
		return nil
	}); err != nil {
		t.Fatal(err)
	}
	if seenType != "finding.named.v2" {
		t.Fatalf("typed upcaster did not match the stored TypeNamer event: type seen %q", seenType)
	}
}
