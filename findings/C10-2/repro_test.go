package durablestream_test

import (
	"context"
	"fmt"
	"testing"
	"time"

	eventbus "github.com/jilio/ebu"
	ds "github.com/jilio/ebu/stores/durablestream"
)

// F-C10-2: the per-event offsets of the durable-streams store are synthesised
// ("<chunk end>/<index>") and cannot be used to resume: a read chain resumed from a
// returned event's offset must reproduce the rest of the log.
func TestFindingC10DurableStreamResumeFromEventOffset(t *testing.T) {
	srv := newTestServer()
	defer srv.Close()
	store, err := ds.New(srv.URL+"/v1/stream", "finding-c10-2")
	if err != nil {
		t.Fatal(err)
	}
	ctx := context.Background()
	for i := 0; i < 4; i++ {
		if _, err := store.Append(ctx, &eventbus.Event{Type: "t", Data: []byte(fmt.Sprintf(`{"i":%d}`, i)), Timestamp: time.Now()}); err != nil {
			t.Fatal(err)
		}
	}
	all, _, err := store.Read(ctx, eventbus.OffsetOldest, 0)
	if err != nil || len(all) != 4 {
		t.Fatalf("read all: %d events, err %v", len(all), err)
	}
	rest, _, err := store.Read(ctx, all[1].Offset, 0)
	if err != nil {
		t.Fatalf("resuming from the offset of a returned event (%q) fails: %v", all[1].Offset, err)
	}
	if len(rest) != 2 {
		t.Fatalf("resuming from the offset of event #1 (%q) returned %d events, want the 2 after it", all[1].Offset, len(rest))
	}
}
