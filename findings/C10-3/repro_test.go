package sqlite

import (
	"context"
	"testing"
	"time"

	eventbus "github.com/jilio/ebu"
)

// F-C10-3: SQLite offsets are variable-width decimals, so under the documented
// lexicographic comparison the 10th offset sorts before the 9th.
func TestFindingC10SQLiteOffsetsLexicographic(t *testing.T) {
	s, err := New(":memory:")
	if err != nil {
		t.Fatal(err)
	}
	defer s.Close()
	var prev eventbus.Offset
	for i := 1; i <= 12; i++ {
		off, err := s.Append(context.Background(), &eventbus.Event{Type: "t", Data: []byte(`{}`), Timestamp: time.Now()})
		if err != nil {
			t.Fatal(err)
		}
		if i > 1 && !(off > prev) {
			t.Fatalf("offset %q of append #%d does not compare greater than offset %q of append #%d", off, i, prev, i-1)
		}
		prev = off
	}
}
