package eventbus

import (
	"context"
	"testing"
)

type findingC04Event struct{ N int }

// F-C04-1: a publish whose context is already cancelled must not use up a Once handler.
func TestFindingC04OnceNotConsumedByCancelledPublish(t *testing.T) {
	for _, async := range []bool{false, true} {
		bus := New()
		calls := 0
		opts := []SubscribeOption{Once()}
		if async {
			opts = append(opts, Async())
		}
		if err := Subscribe(bus, func(e findingC04Event) { calls++ }, opts...); err != nil {
			t.Fatal(err)
		}
		ctx, cancel := context.WithCancel(context.Background())
		cancel()
		PublishContext(bus, ctx, findingC04Event{1})
		bus.Wait()
		if calls != 0 {
			t.Fatalf("async=%v: handler ran with cancelled context", async)
		}
		if HandlerCount[findingC04Event](bus) != 1 {
			t.Fatalf("async=%v: once handler was consumed by a cancelled publish (count=%d)", async, HandlerCount[findingC04Event](bus))
		}
		Publish(bus, findingC04Event{2})
		bus.Wait()
		if calls != 1 {
			t.Fatalf("async=%v: once handler never ran for the eligible event (calls=%d)", async, calls)
		}
		if HandlerCount[findingC04Event](bus) != 0 {
			t.Fatalf("async=%v: once handler still subscribed after firing", async)
		}
	}
}
