package main

// C18 / C19: the state materializer (package state).

import (
	"fmt"
	"go/constant"
	"go/token"
	"go/types"
	"reflect"
	"sort"
	"strings"

	"golang.org/x/tools/go/ssa"
)

type stateRoles struct {
	p                                       *Prog
	apply, applyChange, applyControl, appCh *ssa.Function
	missing                                 []string
}

func discoverState(p *Prog) *stateRoles {
	r := &stateRoles{p: p}
	r.apply = p.Method(PkgState, "Materializer", "Apply")
	r.applyChange = p.Method(PkgState, "Materializer", "applyChange")
	r.applyControl = p.Method(PkgState, "Materializer", "applyControl")
	r.appCh = p.Method(PkgState, "typedCollectionApplier", "applyChange")
	// role fallbacks: the unexported ones are found from Apply's callees
	if r.apply != nil {
		for _, b := range r.apply.Blocks {
			for _, in := range b.Instrs {
				if call, ok := in.(*ssa.Call); ok {
					if sc := call.Common().StaticCallee(); sc != nil && PkgOf(sc) == PkgState && recvTypeName(sc) == "Materializer" && len(call.Common().Args) == 2 {
						switch typeName(call.Common().Args[1].Type()) {
						case "ChangeMessage":
							r.applyChange = sc
						case "ControlMessage":
							r.applyControl = sc
						}
					}
				}
			}
		}
	}
	// the collection applier: the in-package method implementing the interface invoked by applyChange
	if r.applyChange != nil {
		for _, b := range r.applyChange.Blocks {
			for _, in := range b.Instrs {
				if call, ok := in.(*ssa.Call); ok && call.Common().IsInvoke() && len(call.Common().Args) == 1 && typeName(call.Common().Args[0].Type()) == "ChangeMessage" {
					mname := call.Common().Method.Name()
					for _, f := range p.FuncsIn(PkgState) {
						if f.Name() == mname && f.Signature.Recv() != nil && f != r.applyChange && recvTypeName(f) != "Materializer" {
							r.appCh = f
						}
					}
				}
			}
		}
	}
	for n, f := range map[string]*ssa.Function{"Materializer.Apply": r.apply, "change applier of the materializer": r.applyChange, "control applier of the materializer": r.applyControl, "collection change applier": r.appCh} {
		if f == nil {
			r.missing = append(r.missing, n)
		}
	}
	return r
}

func (r *stateRoles) report(c *Ctx, rule string) bool {
	for _, m := range r.missing {
		c.Unresolved(rule, "UNRESOLVED-ANCHOR/"+m, "anchor not found: "+m)
	}
	return len(r.missing) == 0
}

// storeOp: in invokes Set / Delete / Clear of a state Store (or clear() of an applier).
func storeOp(in ssa.Instruction) (string, *ssa.CallCommon, bool) {
	ci, ok := in.(ssa.CallInstruction)
	if !ok || !ci.Common().IsInvoke() {
		return "", nil, false
	}
	c := ci.Common()
	tn := typeName(c.Value.Type())
	switch c.Method.Name() {
	case "Set", "Delete", "Clear":
		if tn == "Store" {
			return c.Method.Name(), c, true
		}
	case "clear":
		return "Clear", c, true
	}
	return "", nil, false
}

// ---------------------------------------------------------------------------
// The Apply automaton: C18.R3, C18.R4, C19.R1.

type applyRule struct {
	BaseRule
	S       *stateRoles
	resolve map[string]*ssa.Function
	muts    map[string]bool
}

func (r *applyRule) Inline(fn *ssa.Function) bool { return PkgOf(fn) == PkgState }
func (r *applyRule) PredOK(k string) bool         { return true }

// sigma: [0] store mutations (0..2) [1] lastOffset stores (0..2) [2] offset value ok (y/n/-)
// [3] lock held when storing (y/n/-) [4] result class (n nil / e error / ?)
func (r *applyRule) OnInstr(e *Engine, st *State, fc *FrameCtx, in ssa.Instruction) bool {
	if _, isDefer := in.(*ssa.Defer); isDefer && !st.ExecDefer {
		return false
	}
	b := []byte(st.Sigma)
	defer func() { st.Sigma = string(b) }()
	if op, _, ok := storeOp(in); ok {
		if b[0] < '2' {
			b[0]++
		}
		r.muts[op+"@"+e.P.Pos(in.Pos())] = true
		st.Note(in.Pos(), "store %s", op)
		return false
	}
	switch x := in.(type) {
	case *ssa.Store:
		if tn, fld, _, ok := fieldOfAddr(x.Addr); ok && tn == "Materializer" && fld == discoverMem(e.P).MatOffset {
			if b[1] < '2' {
				b[1]++
			}
			b[2] = 'n'
			// resolved through helper parameters and deferred-call arguments
			if cv := e.CanonS(fc, x.Val); cv == "(param:"+fnName(r.S.apply)+"."+r.S.apply.Params[1].Name()+").Offset" {
				b[2] = 'y'
			}
			st.Note(in.Pos(), "lastOffset written")
		}
		if tn, fld, _, ok := fieldOfAddr(x.Addr); ok && tn == "Materializer" && fld == discoverMem(e.P).MatColl {
			if b[0] < '2' {
				b[0]++
			}
		}
		if al, ok := x.Addr.(*ssa.Alloc); ok && fc.fn == r.S.apply && typeName(al.Type()) == "error" {
			b[4] = r.classify(e, st, fc, x.Val)
		}
	case *ssa.MapUpdate:
		if tn, fld, _, ok := fieldLoad(x.Map); ok && tn == "Materializer" && fld == discoverMem(e.P).MatColl {
			if b[0] < '2' {
				b[0]++
			}
		}
	case *ssa.Return:
		if fc.fn == r.S.apply && len(x.Results) == 1 {
			v := x.Results[0]
			if ld, ok := v.(*ssa.UnOp); ok && ld.Op == token.MUL {
				if al, ok := ld.X.(*ssa.Alloc); ok && typeName(al.Type()) == "error" {
					break // result cell: the class of the last store stands
				}
			}
			b[4] = r.classify(e, st, fc, v)
		}
	}
	return false
}

func (r *applyRule) classify(e *Engine, st *State, fc *FrameCtx, v ssa.Value) byte {
	switch {
	case isNilConst(v):
		return 'n'
	case e.neverNil(fc, v, 0):
		return 'e'
	}
	if val, known := st.Pred(nilKey(e.CanonS(fc, v))); known {
		if val {
			return 'n'
		}
		return 'e'
	}
	return '?'
}

func isNilConst(v ssa.Value) bool {
	k, ok := v.(*ssa.Const)
	return ok && k.Value == nil
}

func (r *applyRule) OnExit(e *Engine, st *State, kind ExitKind) {
	if kind != ExitReturn {
		e.Report(st, token.NoPos, "Apply/no-panic-path", "an explicit panic can leave Apply")
		return
	}
	b := st.Sigma
	switch b[4] {
	case 'n':
		if b[1] != '1' {
			e.Report(st, token.NoPos, "Apply/success-records-offset", "Apply returns nil having written lastOffset %c times (want exactly once, after the event was applied)", b[1])
		} else if b[2] != 'y' {
			e.Report(st, token.NoPos, "Apply/success-records-offset/value", "the value recorded as lastOffset is not the applied event's Offset")
		}
	case 'e':
		if b[1] != '0' {
			e.Report(st, token.NoPos, "Apply/error-leaves-offset", "Apply returns an error but has advanced lastOffset: a session resumed from LastOffset skips the event that failed")
		}
		if b[0] != '0' {
			e.Report(st, token.NoPos, "Apply/error-leaves-collections", "Apply returns an error after it has already modified a collection (decode must precede mutation)")
		}
	default:
		e.Report(st, token.NoPos, "Apply/result-class", "cannot decide whether this return of Apply is an error")
	}
}

func runApply(c *Ctx, p *Prog, S *stateRoles, want map[string]string) {
	e := NewEngine(p)
	M := discoverMem(p)
	e.Immutable["Materializer."+M.MatCfg] = true
	e.Immutable[M.CfgType+"."+M.CfgStrict] = true
	r := &applyRule{S: S, muts: map[string]bool{}}
	e.Resolve = func(cc *ssa.CallCommon) *ssa.Function {
		// the collection applier interface has one implementation in the package
		if typeName(cc.Value.Type()) == "collectionApplier" || (S.appCh != nil && cc.Method.Name() == S.appCh.Name() && len(cc.Args) == 1 && typeName(cc.Args[0].Type()) == "ChangeMessage") {
			if cc.Method.Name() == S.appCh.Name() {
				return S.appCh
			}
			for _, f := range p.FuncsIn(PkgState) {
				if f.Name() == cc.Method.Name() && recvTypeName(f) == recvTypeName(S.appCh) {
					return f
				}
			}
		}
		return nil
	}
	e.Run(r, S.apply, "00--?")
	c.Stats["product_states"] += e.States
	c.Stats["store_mutation_sites"] = len(r.muts)
	ruleOf := func(k string) string {
		switch {
		case strings.Contains(k, "success-records-offset"), strings.Contains(k, "error-leaves-offset"):
			return "C18.R4"
		case strings.Contains(k, "error-leaves-collections"):
			return "C19.R1"
		case strings.Contains(k, "no-panic"):
			return "C19.R3"
		}
		return "C19.R1"
	}
	hit := map[string]bool{}
	for _, f := range e.Findings {
		rule := ruleOf(f.Construct)
		if as, ok := want[rule]; ok {
			hit[as] = true
			c.Violate(as, f.Construct, p.Pos(f.Pos), f.Msg, f.Trace)
		}
		// the offset also moves on error for C19 (LastOffset unchanged on rejection)
		if rule == "C18.R4" && strings.Contains(f.Construct, "error-leaves-offset") {
			if as, ok := want["C19.R1"]; ok {
				c.Violate(as, f.Construct, p.Pos(f.Pos), f.Msg, f.Trace)
			}
		}
		// a return whose class cannot be decided leaves the lastOffset discipline undecided too
		if strings.Contains(f.Construct, "result-class") {
			if as, ok := want["C18.R4"]; ok && as != want["C19.R1"] {
				hit[as] = true
				c.Unresolved(as, f.Construct, f.Msg+" (so it is undecided whether lastOffset moves only on success)")
			}
		}
	}
	if as, ok := want["C18.R4"]; ok && !hit[as] {
		c.Discharge(as, "Apply/lastOffset-discipline", p.Pos(S.apply.Pos()), "every nil return is preceded by exactly one store of event.Offset to lastOffset; no error return is")
	}
	if as, ok := want["C19.R1"]; ok && !hit[as] {
		c.Discharge(as, "Apply/decode-before-mutate", p.Pos(S.apply.Pos()), fmt.Sprintf("on every error-returning path no Set/Delete/Clear (%d sites), no lastOffset store and no collections write occurred", len(r.muts)))
	}
	if e.Exhausted {
		c.Unresolved("C19.R1", "engine/state-budget", "Apply automaton exceeded its budget")
	}
}

// ---------------------------------------------------------------------------
// C18.R1 exhaustive tables, R2 reset, R5 key function, fresh decode target.

func constsOfType(p *Prog, pkg, typ string) map[string]string {
	out := map[string]string{}
	sp := p.All[pkg]
	if sp == nil {
		return out
	}
	for _, n := range sp.Types.Scope().Names() {
		if k, ok := sp.Types.Scope().Lookup(n).(*types.Const); ok && typeName(k.Type()) == typ {
			out[constant.StringVal(k.Val())] = n
		}
	}
	return out
}

// casesOn: the constants of type typ that v-typed values are compared with in f, each
// with the block entered when equal.
func casesOn(f *ssa.Function, typ string) map[string]*ssa.BasicBlock {
	out := map[string]*ssa.BasicBlock{}
	for _, b := range f.Blocks {
		iff, ok := b.Instrs[len(b.Instrs)-1].(*ssa.If)
		if !ok {
			continue
		}
		bo, ok := iff.Cond.(*ssa.BinOp)
		if !ok || bo.Op != token.EQL {
			continue
		}
		k, ok := bo.Y.(*ssa.Const)
		if !ok || k.Value == nil || typeName(k.Type()) != typ {
			continue
		}
		out[constant.StringVal(k.Value)] = b.Succs[0]
	}
	return out
}

// reachesOp: starting at blk, which store operations are reachable before the function returns.
// Static calls to functions of the state package are followed (a case body moved into a helper).
func opsReachable(blk *ssa.BasicBlock) map[string]bool {
	out := map[string]bool{}
	seen := map[*ssa.BasicBlock]bool{}
	seenFn := map[*ssa.Function]bool{blk.Parent(): true}
	stack := []*ssa.BasicBlock{blk}
	for len(stack) > 0 {
		b := stack[len(stack)-1]
		stack = stack[:len(stack)-1]
		if seen[b] {
			continue
		}
		seen[b] = true
		for _, in := range b.Instrs {
			if op, _, ok := storeOp(in); ok {
				out[op] = true
			}
			if ci, ok := in.(ssa.CallInstruction); ok {
				if isDynamicCall(ci.Common()) {
					out["callback"] = true
				}
				if sc := ci.Common().StaticCallee(); sc != nil && PkgOf(sc) == PkgState && !seenFn[sc] && len(sc.Blocks) > 0 {
					seenFn[sc] = true
					stack = append(stack, sc.Blocks[0])
				}
			}
		}
		stack = append(stack, b.Succs...)
	}
	return out
}

// opsForConstant: the store operations (and callbacks) that fn can reach when its
// discriminant — the non-constant operand of comparisons with constants of the named
// type typ — has the value val. Comparisons with other constants of that type are decided
// (== and !=, whichever side the constant is on, switch or if-chain alike); every other
// branch is explored both ways. Static calls into the state package are followed, with
// the discriminant known only inside fn itself.
func opsForConstant(p *Prog, fn *ssa.Function, typ, val string) (map[string]bool, int) {
	out := map[string]bool{}
	decided := 0
	// a constant table map[typ]func(…) looked up with the discriminant: the row of val
	// decides `known` and is what a call of the looked-up value runs
	rowFn := map[*ssa.Lookup]*ssa.Function{}
	isTable := map[*ssa.Lookup]bool{}
	for _, b := range fn.Blocks {
		for _, in := range b.Instrs {
			lk, ok := in.(*ssa.Lookup)
			if !ok || typeName(lk.Index.Type()) != typ {
				continue
			}
			g := globalOfLoad(lk.X)
			if g == nil {
				continue
			}
			rows, ok := globalTableRows(p, g)
			if !ok {
				continue
			}
			isTable[lk] = true
			decided++
			for _, r := range rows {
				if r.key.Value != nil && r.key.Value.Kind() == constant.String && constant.StringVal(r.key.Value) == val {
					rowFn[lk] = funcOfValue(r.val)
				}
			}
		}
	}
	tableOf := func(v ssa.Value) (*ssa.Lookup, int, bool) {
		v = stripConv(v)
		idx := -1
		if ex, ok := v.(*ssa.Extract); ok {
			idx = ex.Index
			v = ex.Tuple
		}
		lk, ok := v.(*ssa.Lookup)
		return lk, idx, ok && isTable[lk]
	}
	seen := map[*ssa.BasicBlock]bool{}
	var walk func(b *ssa.BasicBlock)
	walk = func(b *ssa.BasicBlock) {
		if seen[b] {
			return
		}
		seen[b] = true
		for _, in := range b.Instrs {
			if op, _, ok := storeOp(in); ok {
				out[op] = true
			}
			if ci, ok := in.(ssa.CallInstruction); ok {
				if lk, idx, ok := tableOf(ci.Common().Value); ok && idx <= 0 && isDynamicCall(ci.Common()) {
					// the action of the table row for val
					if rf := rowFn[lk]; rf != nil && len(rf.Blocks) > 0 {
						for k := range opsReachable(rf.Blocks[0]) {
							out[k] = true
						}
					}
					continue
				}
				if isDynamicCall(ci.Common()) {
					out["callback"] = true
				}
				if sc := ci.Common().StaticCallee(); sc != nil && PkgOf(sc) == PkgState && len(sc.Blocks) > 0 {
					for k := range opsReachable(sc.Blocks[0]) {
						out[k] = true
					}
				}
			}
		}
		if iff, ok := b.Instrs[len(b.Instrs)-1].(*ssa.If); ok && b.Parent() == fn {
			cv, pol := condStrip(iff.Cond)
			if lk, idx, ok := tableOf(cv); ok && idx == 1 {
				// `action, known := table[ctl]; if known`
				res := rowFn[lk] != nil
				if !pol {
					res = !res
				}
				if res {
					walk(b.Succs[0])
				} else {
					walk(b.Succs[1])
				}
				return
			}
			if x, nonNilOnTrue, isNil := nilTest(iff.Cond); isNil {
				// `if action := table[ctl]; action != nil`
				if lk, idx, ok := tableOf(x); ok && idx <= 0 {
					if (rowFn[lk] != nil) == nonNilOnTrue {
						walk(b.Succs[0])
					} else {
						walk(b.Succs[1])
					}
					return
				}
			}
			if bo, ok := cv.(*ssa.BinOp); ok && (bo.Op == token.EQL || bo.Op == token.NEQ) {
				var k *ssa.Const
				if kk, ok := bo.Y.(*ssa.Const); ok {
					k = kk
				} else if kk, ok := bo.X.(*ssa.Const); ok {
					k = kk
				}
				if k != nil && k.Value != nil && typeName(k.Type()) == typ && k.Value.Kind() == constant.String {
					eq := constant.StringVal(k.Value) == val
					res := eq == (bo.Op == token.EQL)
					if !pol {
						res = !res
					}
					decided++
					if res {
						walk(b.Succs[0])
					} else {
						walk(b.Succs[1])
					}
					return
				}
			}
		}
		for _, s := range b.Succs {
			walk(s)
		}
	}
	if len(fn.Blocks) > 0 {
		walk(fn.Blocks[0])
	}
	return out, decided
}

func checkStateTables(c *Ctx, p *Prog, S *stateRoles, rule string) {
	ops := constsOfType(p, PkgState, "Operation")
	wantOp := map[string]string{"insert": "Set", "update": "Set", "delete": "Delete"}
	var names []string
	for v := range ops {
		names = append(names, v)
	}
	sort.Strings(names)
	for _, v := range names {
		construct := "operation-table/" + ops[v]
		got, decided := opsForConstant(p, S.appCh, "Operation", v)
		if decided == 0 {
			c.Unresolved(rule, construct, "the collection applier never compares the operation with a constant")
			continue
		}
		w := wantOp[v]
		if w == "" {
			c.Unresolved(rule, construct, "unknown operation constant "+v+" (no expected effect in the checker's table)")
			continue
		}
		other := "Delete"
		if w == "Delete" {
			other = "Set"
		}
		c.Check(got[w] && !got[other] && !got["Clear"], rule, construct, p.Pos(S.appCh.Pos()), v+" → Store."+w, fmt.Sprintf("operation %s does not map to exactly Store.%s (store operations reachable with that operation: %v)", v, w, keysOf(got)))
	}
	// an operation outside the table changes nothing
	if got, _ := opsForConstant(p, S.appCh, "Operation", "\x00unknown"); true {
		c.Check(!got["Set"] && !got["Delete"] && !got["Clear"], rule, "operation-table/unknown-operation", p.Pos(S.appCh.Pos()), "an unknown operation mutates nothing", fmt.Sprintf("an operation outside insert/update/delete mutates the store (%v)", keysOf(got)))
	}
	c.Floor(rule, "operation constants", len(ops), 3)
	ctl := constsOfType(p, PkgState, "Control")
	names = nil
	for v := range ctl {
		names = append(names, v)
	}
	sort.Strings(names)
	for _, v := range names {
		construct := "control-table/" + ctl[v]
		got, decided := opsForConstant(p, S.applyControl, "Control", v)
		if decided == 0 {
			c.Unresolved(rule, construct, "the control applier never compares the control value with a constant")
			continue
		}
		if v == "reset" {
			c.Check(got["Clear"] && !got["Set"] && !got["Delete"], rule, construct, p.Pos(S.applyControl.Pos()), "reset → clear", "reset does not clear the collections")
		} else {
			c.Check(!got["Clear"] && !got["Set"] && !got["Delete"], rule, construct, p.Pos(S.applyControl.Pos()), v+" → no store mutation", "a snapshot marker mutates stored state")
		}
	}
	c.Floor(rule, "control constants", len(ctl), 3)
}

func keysOf(m map[string]bool) []string {
	var out []string
	for k := range m {
		out = append(out, k)
	}
	sort.Strings(out)
	return out
}

func checkResetClearsAll(c *Ctx, p *Prog, S *stateRoles, rule string) {
	f := S.applyControl
	var rng *ssa.Range
	// the loop may sit in a helper of the package called from the control switch
	cands := reachFuncs(p, S.applyControl, PkgState)
	// actions held by a constant dispatch table the control applier looks up
	for _, tf := range tableFuncs(p, S.applyControl) {
		cands = append(cands, tf)
		cands = append(cands, reachFuncs(p, tf, PkgState)...)
	}
	for _, g := range cands {
		for _, b := range g.Blocks {
			for _, in := range b.Instrs {
				if r, ok := in.(*ssa.Range); ok {
					if tn, fld, _, ok := fieldLoad(r.X); ok && tn == "Materializer" && fld == discoverMem(p).MatColl {
						rng = r
					}
				}
			}
		}
	}
	if rng != nil {
		f = rng.Parent()
	}
	if rng == nil {
		c.Violate(rule, "reset/ranges-over-all-collections", p.Pos(f.Pos()), "reset does not range over the whole collections map", nil)
		return
	}
	li := loopsOf(f)
	var clr ssa.Instruction
	for _, b := range f.Blocks {
		for _, in := range b.Instrs {
			if op, cc, ok := storeOp(in); ok && op == "Clear" {
				// receiver is the range value
				if ex, ok := stripConv(cc.Value).(*ssa.Extract); ok && ex.Index == 2 {
					if nx, ok := ex.Tuple.(*ssa.Next); ok && nx.Iter == ssa.Value(rng) {
						clr = in
					}
				}
			}
		}
	}
	if clr == nil {
		c.Violate(rule, "reset/clears-each-collection", p.Pos(rng.Pos()), "the reset loop does not clear the collection it visits", nil)
		return
	}
	h := li.headerOf[clr.Block()]
	ok := h != nil
	if ok {
		for _, pr := range h.Preds {
			if li.body[h][pr] && !clr.Block().Dominates(pr) {
				ok = false
			}
		}
	}
	c.Check(ok, rule, "reset/clears-every-collection-unconditionally", p.Pos(clr.Pos()), "every collection visited by the range is cleared (no conditional skip)", "some collections can be skipped by the reset loop")
}

// stringExpr normalises a string-valued SSA expression into a list of atoms
// (parameters by index, constants by value) when it is a pure concatenation.
func stringExpr(f *ssa.Function, v ssa.Value, d int) ([]string, bool) {
	if d > 8 {
		return nil, false
	}
	switch x := stripConv(v).(type) {
	case *ssa.Const:
		if x.Value != nil && x.Value.Kind() == constant.String {
			return []string{"const:" + constant.StringVal(x.Value)}, true
		}
	case *ssa.Parameter:
		for i, p := range f.Params {
			if p == x {
				return []string{fmt.Sprintf("param#%d", i)}, true
			}
		}
	case *ssa.BinOp:
		if x.Op == token.ADD {
			a, ok1 := stringExpr(f, x.X, d+1)
			b, ok2 := stringExpr(f, x.Y, d+1)
			if ok1 && ok2 {
				return append(a, b...), true
			}
		}
	case *ssa.Call:
		if calleeName(x.Common()) == "fmt.Sprintf" {
			if k, ok := x.Common().Args[0].(*ssa.Const); ok && k.Value != nil {
				fmtS := constant.StringVal(k.Value)
				// varargs
				var vals []ssa.Value
				if sl, ok := x.Common().Args[1].(*ssa.Slice); ok {
					if al, ok := sl.X.(*ssa.Alloc); ok {
						tmp := map[int64]ssa.Value{}
						for _, ref := range *al.Referrers() {
							if ia, ok := ref.(*ssa.IndexAddr); ok {
								idx, _ := ia.Index.(*ssa.Const)
								for _, r2 := range *ia.Referrers() {
									if st, ok := r2.(*ssa.Store); ok && st.Addr == ia && idx != nil {
										tmp[idx.Int64()] = st.Val
									}
								}
							}
						}
						for i := int64(0); i < int64(len(tmp)); i++ {
							vals = append(vals, tmp[i])
						}
					}
				}
				var out []string
				parts := strings.Split(fmtS, "%s")
				if len(parts) != len(vals)+1 || strings.Contains(strings.Join(parts, ""), "%") {
					return nil, false
				}
				for i, pt := range parts {
					if pt != "" {
						out = append(out, "const:"+pt)
					}
					if i < len(vals) {
						a, ok := stringExpr(f, vals[i], d+1)
						if !ok {
							return nil, false
						}
						out = append(out, a...)
					}
				}
				return out, true
			}
		}
	}
	return nil, false
}

func checkCompositeKey(c *Ctx, p *Prog, S *stateRoles, rule string) {
	f := p.Func(PkgState, "CompositeKey")
	if f == nil {
		c.Unresolved(rule, "UNRESOLVED-ANCHOR/CompositeKey", "function not found")
		return
	}
	okAll := true
	n := 0
	for _, ret := range returnsOf(f) {
		n++
		atoms, ok := stringExpr(f, ret.Results[0], 0)
		// merge adjacent constants
		var m []string
		for _, a := range atoms {
			if len(m) > 0 && strings.HasPrefix(a, "const:") && strings.HasPrefix(m[len(m)-1], "const:") {
				m[len(m)-1] += strings.TrimPrefix(a, "const:")
			} else {
				m = append(m, a)
			}
		}
		if !(ok && len(m) == 3 && m[0] == "param#0" && strings.HasPrefix(m[1], "const:") && len(m[1]) > len("const:") && m[2] == "param#1") {
			okAll = false
		}
	}
	c.Check(okAll && n == 1 && len(f.Blocks) == 1, rule, "CompositeKey/type-separator-key", p.Pos(f.Pos()), "CompositeKey(t, k) = t + sep + k unconditionally, on a single path", "CompositeKey is not the unconditional concatenation type + separator + key: keys that contain the separator or start with their type alias other keys, so writes and deletes hit the wrong entity")
	// Set / Delete / Get all key by CompositeKey(type, key)
	uses := 0
	for _, g := range []*ssa.Function{S.appCh, p.Method(PkgState, "TypedCollection", "Get")} {
		if g == nil {
			continue
		}
		for _, b := range g.Blocks {
			for _, in := range b.Instrs {
				ci, ok := in.(ssa.CallInstruction)
				if !ok || !ci.Common().IsInvoke() || typeName(ci.Common().Value.Type()) != "Store" {
					continue
				}
				switch ci.Common().Method.Name() {
				case "Set", "Delete", "Get":
					uses++
					call, ok := stripConv(ci.Common().Args[0]).(*ssa.Call)
					okKey := ok && call.Common().StaticCallee() == f
					c.Check(okKey, rule, FuncDisplay(g)+"/"+ci.Common().Method.Name()+"/keyed-by-CompositeKey", p.Pos(in.Pos()), "the store is addressed with CompositeKey(type, key)", "a store access is not keyed by CompositeKey(type, key): readers and writers disagree about where an entity lives")
				}
			}
		}
	}
	c.Floor(rule, "store accesses keyed by CompositeKey", uses, 3)
}

// checkFreshDecodeTargets: every json.Unmarshal in the apply call tree decodes into a
// zero value allocated by that call.
func checkFreshDecodeTargets(c *Ctx, p *Prog, S *stateRoles, rule string) {
	n := 0
	fns := staticReachState(p, S.apply, S)
	for _, g := range []*ssa.Function{S.applyChange, S.appCh} {
		fns = append(fns, staticReachState(p, g, S)...)
	}
	seenFn := map[*ssa.Function]bool{}
	for _, f := range fns {
		if seenFn[f] {
			continue
		}
		seenFn[f] = true
		ord := 0
		for _, b := range f.Blocks {
			for _, in := range b.Instrs {
				call, ok := in.(*ssa.Call)
				if !ok || calleeName(call.Common()) != "encoding/json.Unmarshal" {
					continue
				}
				n++
				ord++
				al, isAlloc := stripConv(call.Common().Args[1]).(*ssa.Alloc)
				fresh := isAlloc && al.Parent() == f
				if fresh {
					// nothing stored into it before the decode
					for _, ref := range *al.Referrers() {
						if st, ok := ref.(*ssa.Store); ok && st.Addr == al && reaches(st, call) {
							fresh = false
						}
					}
				}
				c.Check(fresh, rule, fmt.Sprintf("%s/decode-target#%d", FuncDisplay(f), ord), p.Pos(in.Pos()), "decodes into a zero value allocated by this call", "a message is decoded into a value that is not a fresh zero value (taken from the store, a pool or an earlier iteration): fields absent from the JSON keep stale contents, and a half-decoded bad value can damage an entity already stored")
			}
		}
	}
	c.Floor(rule, "decode sites in the apply call tree", n, 3)
}

// checkNoLastOffsetRead (C18.R6).
func checkNoLastOffsetRead(c *Ctx, p *Prog, S *stateRoles, rule string) {
	n := 0
	for _, f := range staticReachState(p, S.apply, S) {
		for _, b := range f.Blocks {
			for _, in := range b.Instrs {
				if ld, ok := in.(*ssa.UnOp); ok && ld.Op == token.MUL {
					if tn, fld, _, ok := fieldOfAddr(ld.X); ok && tn == "Materializer" && fld == discoverMem(p).MatOffset {
						n++
						c.Violate(rule, "Apply/step-independent-of-lastOffset/"+FuncDisplay(f), p.Pos(in.Pos()), "applying an event reads lastOffset: the step is no longer a function of (collections, event) only, so a replay split into two sessions can differ from one session", nil)
					}
				}
			}
		}
	}
	if n == 0 {
		c.Discharge(rule, "Apply/step-independent-of-lastOffset", p.Pos(S.apply.Pos()), "no instruction in Apply's call tree reads lastOffset")
	}
}

func staticReachState(p *Prog, root *ssa.Function, S *stateRoles) []*ssa.Function {
	seen := staticReach(p, root, PkgState)
	seen[S.appCh] = true
	var out []*ssa.Function
	for f := range seen {
		out = append(out, f)
	}
	sort.Slice(out, func(i, j int) bool { return out[i].String() < out[j].String() })
	return out
}

// ---------------------------------------------------------------------------
// C19.R2 wire names.

func checkWireNames(c *Ctx, p *Prog, S *stateRoles, rule string) {
	sp := p.All[PkgState]
	if sp == nil {
		return
	}
	want := map[string]map[string]string{
		"ChangeMessage":  {"Type": "type", "Key": "key", "Value": "value,omitempty", "OldValue": "old_value,omitempty", "Headers": "headers"},
		"Headers":        {"Operation": "operation", "TxID": "txid,omitempty", "Timestamp": "timestamp,omitempty"},
		"ControlMessage": {"Headers": "headers"},
		"ControlHeaders": {"Control": "control", "Offset": "offset,omitempty"},
	}
	var tnames []string
	for t := range want {
		tnames = append(tnames, t)
	}
	sort.Strings(tnames)
	for _, tn := range tnames {
		obj := sp.Types.Scope().Lookup(tn)
		if obj == nil {
			c.Unresolved(rule, "UNRESOLVED-ANCHOR/state."+tn, "type not found")
			continue
		}
		st, _ := obj.Type().Underlying().(*types.Struct)
		for i := 0; st != nil && i < st.NumFields(); i++ {
			f := st.Field(i)
			w, ok := want[tn][f.Name()]
			if !ok {
				continue
			}
			got := reflect.StructTag(st.Tag(i)).Get("json")
			c.Check(got == w, rule, "wire-name/"+tn+"."+f.Name(), p.Pos(f.Pos()), "json:\""+got+"\"", "the wire name of "+tn+"."+f.Name()+" is json:\""+got+"\", the state protocol requires \""+w+"\"")
		}
	}
	for v, n := range map[string]string{"insert": "OperationInsert", "update": "OperationUpdate", "delete": "OperationDelete"} {
		k, _ := sp.Types.Scope().Lookup(n).(*types.Const)
		c.Check(k != nil && constant.StringVal(k.Val()) == v, rule, "wire-value/"+n, "", n+" = \""+v+"\"", n+" does not have the protocol value \""+v+"\"")
	}
	for v, n := range map[string]string{"snapshot-start": "ControlSnapshotStart", "snapshot-end": "ControlSnapshotEnd", "reset": "ControlReset"} {
		k, _ := sp.Types.Scope().Lookup(n).(*types.Const)
		c.Check(k != nil && constant.StringVal(k.Val()) == v, rule, "wire-value/"+n, "", n+" = \""+v+"\"", n+" does not have the protocol value \""+v+"\"")
	}
	// the discriminator in Apply reads the same member name the messages write
	okDisc := false
	for _, g := range staticReachState(p, S.apply, S) { // Apply or the decoding helper it calls
		for _, b := range g.Blocks {
			for _, in := range b.Instrs {
				if al, ok := in.(*ssa.Alloc); ok {
					if st, ok := al.Type().Underlying().(*types.Pointer).Elem().Underlying().(*types.Struct); ok && st.NumFields() == 1 {
						if reflect.StructTag(st.Tag(0)).Get("json") == "headers" {
							okDisc = true
						}
					}
				}
			}
		}
	}
	c.Check(okDisc, rule, "Apply/discriminator-reads-headers", p.Pos(S.apply.Pos()), "the control/change discriminator reads the `headers` member", "Apply's discriminator does not read the `headers` member the messages are written with")
	// event type names under which the messages are published
	for tn, w := range map[string]string{"ChangeMessage": "state.ChangeMessage", "ControlMessage": "state.ControlMessage"} {
		m := p.Method(PkgState, tn, "EventTypeName")
		ok := false
		if m != nil {
			for _, ret := range returnsOf(m) {
				if k, isK := ret.Results[0].(*ssa.Const); isK && k.Value != nil && constant.StringVal(k.Value) == w {
					ok = true
				}
			}
		}
		c.Check(ok, rule, "event-type-name/"+tn, "", tn+" is published as \""+w+"\"", tn+"'s EventTypeName is not the fixed name \""+w+"\"")
	}
}

// ---------------------------------------------------------------------------
// C19.R3 panic-free on arbitrary bytes.

func checkPanicFree(c *Ctx, p *Prog, S *stateRoles, rule string) {
	counts := map[string]int{}
	for _, f := range staticReachState(p, S.apply, S) {
		name := FuncDisplay(f)
		// locals that json.Unmarshal decodes into
		decoded := map[*ssa.Alloc]bool{}
		for _, b := range f.Blocks {
			for _, in := range b.Instrs {
				if call, ok := in.(*ssa.Call); ok && calleeName(call.Common()) == "encoding/json.Unmarshal" {
					if al, ok := stripConv(call.Common().Args[1]).(*ssa.Alloc); ok {
						decoded[al] = true
						// decoding into a pointer variable: JSON `null` leaves it nil without an
						// error, so it must be nil-tested before it leaves this function
						if pp, ok := al.Type().Underlying().(*types.Pointer); ok {
							if _, isPtr := pp.Elem().Underlying().(*types.Pointer); isPtr {
								tested := false
								for _, ref := range *al.Referrers() {
									if ld, ok := ref.(*ssa.UnOp); ok && ld.Op == token.MUL {
										for _, r2 := range *ld.Referrers() {
											if bo, ok := r2.(*ssa.BinOp); ok {
												if _, _, isNil := nilTest(bo); isNil {
													tested = true
												}
											}
										}
									}
								}
								c.Check(tested, rule, name+"/decode-into-pointer/nil-checked", p.Pos(in.Pos()), "a pointer the event is decoded into is tested against nil", "the event data is decoded into a pointer variable that is never tested against nil: for the JSON literal null json.Unmarshal reports no error and leaves it nil, and the first use of the message panics")
							}
						}
					}
				}
			}
		}
		rootAlloc := func(v ssa.Value) *ssa.Alloc {
			for i := 0; i < 6; i++ {
				switch x := v.(type) {
				case *ssa.FieldAddr:
					v = x.X
				case *ssa.Alloc:
					return x
				default:
					return nil
				}
			}
			return nil
		}
		for _, b := range f.Blocks {
			for _, in := range b.Instrs {
				counts["instructions"]++
				switch x := in.(type) {
				case *ssa.TypeAssert:
					if !x.CommaOk {
						c.Violate(rule, name+"/unchecked-type-assertion", p.Pos(in.Pos()), "a type assertion without comma-ok in Apply's call tree can panic", nil)
					}
					counts["type-assertions"]++
				case *ssa.Panic:
					c.Violate(rule, name+"/explicit-panic", p.Pos(in.Pos()), "explicit panic in Apply's call tree", nil)
				case *ssa.BinOp:
					if (x.Op == token.QUO || x.Op == token.REM) && isIntType(x.X.Type()) {
						if _, isK := x.Y.(*ssa.Const); !isK {
							c.Violate(rule, name+"/integer-division", p.Pos(in.Pos()), "integer division by a non-constant in Apply's call tree", nil)
						}
					}
				case *ssa.Slice:
					if _, isAlloc := x.X.(*ssa.Alloc); !isAlloc { // slicing a varargs array is fine
						counts["index-or-slice"]++
						c.Violate(rule, name+"/index-or-slice", p.Pos(in.Pos()), "Apply's call tree slices a value (bounds depend on the input)", nil)
					}
				case *ssa.Index:
					counts["index-or-slice"]++
					c.Violate(rule, name+"/index-or-slice", p.Pos(in.Pos()), "Apply's call tree indexes a value (bounds depend on the input)", nil)
				case *ssa.IndexAddr:
					if _, isAlloc := x.X.(*ssa.Alloc); !isAlloc { // varargs arrays are fine
						counts["index-or-slice"]++
						c.Violate(rule, name+"/index-or-slice", p.Pos(in.Pos()), "Apply's call tree indexes a slice (bounds depend on the input)", nil)
					}
				case *ssa.FieldAddr:
					// deref of a pointer that was decoded from the input
					if ld, ok := x.X.(*ssa.UnOp); ok && ld.Op == token.MUL {
						if al := rootAlloc(ld.X); al != nil && decoded[al] {
							c.Violate(rule, name+"/deref-of-decoded-pointer", p.Pos(in.Pos()), "a pointer decoded from the event data is dereferenced without a nil check: JSON null or a missing member makes Apply panic", nil)
						}
					}
				case *ssa.UnOp:
					if x.Op == token.MUL {
						if ld, ok := x.X.(*ssa.UnOp); ok && ld.Op == token.MUL {
							if al := rootAlloc(ld.X); al != nil && decoded[al] {
								if _, isPtr := ld.Type().Underlying().(*types.Pointer); isPtr {
									c.Violate(rule, name+"/deref-of-decoded-pointer", p.Pos(in.Pos()), "a pointer decoded from the event data is dereferenced without a nil check: JSON null or a missing member makes Apply panic", nil)
								}
							}
						}
					}
				}
			}
		}
	}
	c.Discharge(rule, "Apply/call-tree-scanned", "", fmt.Sprintf("%d instructions in Apply's static call tree scanned: no unchecked assertion, index/slice, division, explicit panic or dereference of a decoded pointer (%d comma-ok assertions)", counts["instructions"], counts["type-assertions"]))
	c.Stats["apply_tree_instructions"] = counts["instructions"]
}

func isIntType(t types.Type) bool {
	b, ok := t.Underlying().(*types.Basic)
	return ok && b.Info()&types.IsInteger != 0
}

// ---------------------------------------------------------------------------
// C19.R4 constructors.

func checkConstructors(c *Ctx, p *Prog, rule string) {
	f := p.Func(PkgState, "newChangeMessage")
	if f == nil {
		// role: the generic function all of Insert/Update/Delete call
		if ins := p.Func(PkgState, "Insert"); ins != nil {
			for _, b := range ins.Blocks {
				for _, in := range b.Instrs {
					if call, ok := in.(*ssa.Call); ok {
						if sc := call.Common().StaticCallee(); sc != nil && PkgOf(sc) == PkgState {
							f = sc
							if o := sc.Origin(); o != nil {
								f = o
							}
						}
					}
				}
			}
		}
	}
	if f == nil {
		c.Unresolved(rule, "UNRESOLVED-ANCHOR/change-message-constructor", "not found")
		return
	}
	e := NewEngine(p)
	flow := NewFlow(p, e.cells)
	got := map[string][]string{}
	for _, b := range f.Blocks {
		for _, in := range b.Instrs {
			st, ok := in.(*ssa.Store)
			if !ok {
				continue
			}
			if tn, fld, _, ok := fieldOfAddr(st.Addr); ok && tn == "ChangeMessage" {
				got[fld] = append(got[fld], flow.Origins(st.Val)...)
			}
			if tn, fld, _, ok := fieldOfAddr(st.Addr); ok && tn == "Headers" {
				got["Headers."+fld] = append(got["Headers."+fld], flow.Origins(st.Val)...)
			}
		}
	}
	// encode/decode symmetry: the materializer decodes through *T (json.Unmarshal(data, &v)),
	// so the constructor must encode through *T as well — marshalling the dereferenced
	// value bypasses a MarshalJSON/MarshalText declared on the pointer receiver
	nm := 0
	for _, b := range f.Blocks {
		for _, in := range b.Instrs {
			call, ok := in.(*ssa.Call)
			if !ok || calleeName(call.Common()) != "encoding/json.Marshal" || len(call.Common().Args) != 1 {
				continue
			}
			nm++
			arg := stripConv(call.Common().Args[0])
			_, isPtr := arg.Type().Underlying().(*types.Pointer)
			_, isParam := arg.(*ssa.Parameter)
			c.Check(isPtr && isParam, rule, fmt.Sprintf("constructor/marshal#%d/through-the-pointer-argument", nm), p.Pos(in.Pos()), "json.Marshal(the *T argument)", "the entity is marshalled as "+describeValue(arg)+" rather than through the *T argument: an entity type whose MarshalJSON/MarshalText has a pointer receiver is written with the default encoding while the materializer decodes it with its UnmarshalJSON — the value does not survive the round trip")
		}
	}
	// the marshalled bytes may pass through a helper of the package that returns either them
	// or nil (marshalOptional): its own call and the nil it may return are not extra sources
	onlyMarshal := func(os []string) bool {
		if !hasOrigin(os, "call:encoding/json.Marshal#0") {
			return false
		}
		for _, o := range os {
			if o == "call:encoding/json.Marshal#0" || o == "nil" || strings.HasPrefix(o, "call:state.") {
				continue
			}
			return false
		}
		return true
	}
	c.Check(onlyMarshal(got["Value"]), rule, "constructor/value-is-marshalled-argument", p.Pos(f.Pos()), "Value ← json.Marshal(value)", fmt.Sprintf("the message's value is not exactly json.Marshal of the entity (origins %v)", got["Value"]))
	c.Check(onlyMarshal(got["OldValue"]), rule, "constructor/old-value-is-marshalled-argument", p.Pos(f.Pos()), "OldValue ← json.Marshal(oldValue)", fmt.Sprintf("the message's old value is not exactly json.Marshal of the old entity (origins %v)", got["OldValue"]))
	okKey := false
	for _, o := range got["Key"] {
		if strings.HasPrefix(o, "param:") && strings.HasSuffix(o, ".key") {
			okKey = true
		}
	}
	c.Check(okKey && len(got["Key"]) == 1, rule, "constructor/key-is-argument", p.Pos(f.Pos()), "Key ← key argument", "the message's key is not the key argument")
	okType := hasOrigin(got["Type"], "call:state.EntityType#0") || hasOrigin(got["Type"], "call:EntityType#0")
	c.Check(okType, rule, "constructor/type-from-EntityType-or-override", p.Pos(f.Pos()), "Type ← EntityType(zero T) or the WithEntityType override", fmt.Sprintf("the entity type is not derived from EntityType / the explicit override (origins %v)", got["Type"]))
	okOp := false
	for _, o := range got["Headers.Operation"] {
		if strings.HasPrefix(o, "param:") {
			okOp = true
		}
	}
	c.Check(okOp, rule, "constructor/operation-is-argument", p.Pos(f.Pos()), "Headers.Operation ← op argument", "the operation header is not the constructor's operation argument")
	// the empty key is rejected before anything else
	rej := false
	if len(f.Blocks) > 0 {
		if iff, ok := f.Blocks[0].Instrs[len(f.Blocks[0].Instrs)-1].(*ssa.If); ok {
			if bo, ok := iff.Cond.(*ssa.BinOp); ok && bo.Op == token.EQL {
				if k, ok := bo.Y.(*ssa.Const); ok && k.Value != nil && k.Value.ExactString() == `""` {
					if !reachesNilReturn(f.Blocks[0].Succs[0]) {
						rej = true
					}
				}
			}
		}
	}
	c.Check(rej, rule, "constructor/rejects-empty-key", p.Pos(f.Pos()), "an empty key is rejected with an error", "the constructors accept an empty key")
	// each public helper passes its operation constant and its arguments through
	for name, op := range map[string]string{"Insert": "insert", "Update": "update", "UpdateWithOldValue": "update", "Delete": "delete", "DeleteWithOldValue": "delete"} {
		h := p.Func(PkgState, name)
		if h == nil {
			c.Unresolved(rule, "UNRESOLVED-ANCHOR/state."+name, "helper not found")
			continue
		}
		ok := false
		for _, b := range h.Blocks {
			for _, in := range b.Instrs {
				if call, isCall := in.(*ssa.Call); isCall {
					sc := call.Common().StaticCallee()
					if sc != nil && (sc == f || sc.Origin() == f) {
						if k, isK := call.Common().Args[0].(*ssa.Const); isK && k.Value != nil && constant.StringVal(k.Value) == op {
							ok = true
						}
					}
				}
			}
		}
		c.Check(ok, rule, "helper/"+name+"/operation", p.Pos(h.Pos()), name+" builds a \""+op+"\" message", name+" does not build a \""+op+"\" message")
	}
}
