package main

// C11: Replay delivers every event after the offset, or says that it did not.

import (
	"fmt"
	"go/token"
	"go/types"
	"strings"

	"golang.org/x/tools/go/ssa"
)

// errorish: v is, by construction, an error outcome (a fresh error, ctx.Err(), or a value
// tested non-nil on this path is handled by callers).
func errorish(v ssa.Value) bool {
	v = stripConv(v)
	if nonNilOrigin(v) {
		if _, isMI := v.(*ssa.MakeInterface); !isMI {
			return true
		}
	}
	if call, ok := v.(*ssa.Call); ok {
		if call.Common().IsInvoke() && call.Common().Method.Name() == "Err" {
			return true
		}
	}
	return false
}

// ---------------------------------------------------------------------------
// C11.R2 paged path of Replay.

// callbackForwarderEvent: call goes to a function of the package that (on every path) calls
// its func(*StoredEvent) error parameter with its *StoredEvent parameter and never returns
// nil when that call failed; returns the event argument of the call, else nil.
func callbackForwarderEvent(call *ssa.Call) ssa.Value {
	sc := call.Common().StaticCallee()
	if sc == nil || PkgOf(sc) != PkgBus || len(sc.Blocks) == 0 {
		return nil
	}
	var fnP, evP *ssa.Parameter
	fi, ei := -1, -1
	for i, prm := range sc.Params {
		if sig, ok := prm.Type().Underlying().(*types.Signature); ok && sig.Params().Len() == 1 && typeName(sig.Params().At(0).Type()) == "StoredEvent" && sig.Results().Len() == 1 {
			fnP, fi = prm, i
		} else if typeName(prm.Type()) == "StoredEvent" {
			evP, ei = prm, i
		}
	}
	if fnP == nil || evP == nil || fi >= len(call.Common().Args) || ei >= len(call.Common().Args) {
		return nil
	}
	var inner *ssa.Call
	for _, b := range sc.Blocks {
		for _, in := range b.Instrs {
			if c2, ok := in.(*ssa.Call); ok && isDynamicCall(c2.Common()) && stripConv(c2.Common().Value) == ssa.Value(fnP) && len(c2.Common().Args) == 1 && stripConv(c2.Common().Args[0]) == ssa.Value(evP) {
				inner = c2
			}
		}
	}
	if inner == nil {
		return nil
	}
	// the callback call is made on every path, and its error is not turned into nil
	for _, ret := range returnsOf(sc) {
		if !(inner.Block() == ret.Block() || inner.Block().Dominates(ret.Block())) {
			return nil
		}
	}
	okErr := false
	for _, ref := range *inner.Referrers() {
		if _, isRet := ref.(*ssa.Return); isRet {
			okErr = true
		}
		if bo, ok := ref.(*ssa.BinOp); ok {
			for _, r2 := range *bo.Referrers() {
				if iff, ok := r2.(*ssa.If); ok {
					if _, nonNilOnTrue, ok := nilTest(iff.Cond); ok {
						arm := iff.Block().Succs[1]
						if nonNilOnTrue {
							arm = iff.Block().Succs[0]
						}
						if !reachesNilReturn(arm) {
							okErr = true
						}
					}
				}
			}
		}
	}
	if !okErr {
		return nil
	}
	return call.Common().Args[ei]
}

func checkReplayPaged(c *Ctx, p *Prog, R *BusRoles, rule string) {
	root := p.Method(PkgBus, "EventBus", "Replay")
	if root == nil {
		c.Unresolved(rule, "UNRESOLVED-ANCHOR/Replay", "method not found")
		return
	}
	// the paged loop may live in a helper called from Replay
	f := root
	var read *ssa.Call
	for _, g := range reachFuncs(p, root, PkgBus) {
		for _, b := range g.Blocks {
			for _, in := range b.Instrs {
				if call, ok := in.(*ssa.Call); ok && call.Common().IsInvoke() && call.Common().Method.Name() == "Read" && isNamed(call.Common().Value.Type(), PkgBus, "EventStore") {
					read, f = call, g
				}
			}
		}
	}
	fromP, ctxP := paramOfType(f, PkgBus, "Offset"), paramOfType(f, "context", "Context")
	if fromP == nil || ctxP == nil {
		c.Unresolved(rule, "UNRESOLVED-ANCHOR/Replay/paged-params", "the paged replay function has no (ctx, from) parameters")
		return
	}
	if read == nil {
		c.Unresolved(rule, "UNRESOLVED-ANCHOR/Replay/paged-read", "Replay has no EventStore.Read call")
		return
	}
	li := loopsOf(f)
	header := li.headerOf[read.Block()]
	if header == nil {
		c.Violate(rule, "Replay/paged/loop", p.Pos(read.Pos()), "the paged Read is not in a loop: only the first page is replayed", nil)
		return
	}
	// outermost loop containing the read
	for {
		outer := (*ssa.BasicBlock)(nil)
		for h, body := range li.body {
			if h != header && body[header] && (outer == nil || len(body) < len(li.body[outer])) {
				outer = h
			}
		}
		if outer == nil {
			break
		}
		header = outer
	}
	body := li.body[header]
	var evs, next, rerr ssa.Value
	for _, ref := range *read.Referrers() {
		if ex, ok := ref.(*ssa.Extract); ok {
			switch ex.Index {
			case 0:
				evs = ex
			case 1:
				next = ex
			case 2:
				rerr = ex
			}
		}
	}
	pos := p.Pos(read.Pos())
	// (a) cursor: the offset handed to Read is a loop phi fed by the parameter and by Read's next offset
	okCursor := false
	var cursor *ssa.Phi
	if ph, ok := stripConv(read.Common().Args[1]).(*ssa.Phi); ok {
		fromParam, fromNext := false, false
		for _, ed := range ph.Edges {
			if stripConv(ed) == ssa.Value(fromP) {
				fromParam = true
			}
			if next != nil && stripConv(ed) == next {
				fromNext = true
			}
		}
		okCursor = fromParam && fromNext && len(ph.Edges) == 2
		cursor = ph
	}
	c.Check(okCursor, rule, "Replay/paged/cursor-is-store-next-offset", pos, "the next Read starts at the next offset the store returned", "the paging cursor is not (only) the next offset returned by the store's Read: pages can overlap or skip events")
	// (b) every exit of the paged loop that can reach a nil return is the empty-page exit
	nExits := 0
	for b := range body {
		for i, s := range b.Succs {
			if body[s] {
				continue
			}
			nExits++
			construct := fmt.Sprintf("Replay/paged/exit#%s", exitName(b, i, evs, next, rerr, cursor))
			okExit, why := true, ""
			if reachesNilReturn(s) {
				// must be the `len(events) == 0` exit
				iff, isIf := b.Instrs[len(b.Instrs)-1].(*ssa.If)
				isEmptyExit := false
				if isIf {
					if bo, ok := iff.Cond.(*ssa.BinOp); ok {
						if nonEmptyOnTrue, lst, ok := lenTest(bo); ok && evs != nil && stripConv(lst) == evs {
							isEmptyExit = (i == 0) == !nonEmptyOnTrue
						}
					}
				}
				if !isEmptyExit {
					okExit = false
					why = "this exit of the paging loop leads to `return nil` although the store has not reported an empty page: Replay claims completeness for a log it has not finished reading (a store may legitimately return short pages)"
				}
			}
			if okExit {
				c.Discharge(rule, construct, p.Pos(b.Instrs[len(b.Instrs)-1].Pos()), "exit leads to a non-nil error, or is the empty-page exit")
			} else {
				c.Violate(rule, construct, p.Pos(b.Instrs[len(b.Instrs)-1].Pos()), why, nil)
			}
		}
	}
	c.Floor(rule, "paged loop exits", nExits, 4)
	// (c) the read error is tested and its non-nil arm returns an error
	if rerr != nil {
		tested := false
		for _, ref := range *rerr.Referrers() {
			if bo, ok := ref.(*ssa.BinOp); ok {
				for _, r2 := range *bo.Referrers() {
					if iff, ok := r2.(*ssa.If); ok {
						if _, nonNilOnTrue, ok := nilTest(iff.Cond); ok {
							s := iff.Block().Succs[0]
							if !nonNilOnTrue {
								s = iff.Block().Succs[1]
							}
							if !reachesNilReturn(s) && !reachesBlock(s, header) {
								tested = true
							}
						}
					}
				}
			}
		}
		c.Check(tested, rule, "Replay/paged/read-error-returned", pos, "Read's error is tested and its non-nil arm returns an error", "the error returned by the store's Read is not tested (or its non-nil arm continues): a failed read looks like the end of the log")
	}
	// (d) every event of the page reaches the callback: the callback call dominates the
	// inner loop's back edge and the inner loop ranges over the whole page
	var cb *ssa.Call
	var cbEvent ssa.Value
	for b := range body {
		for _, in := range b.Instrs {
			call, ok := in.(*ssa.Call)
			if !ok {
				continue
			}
			if isDynamicCall(call.Common()) && len(call.Common().Args) == 1 && typeName(call.Common().Args[0].Type()) == "StoredEvent" {
				cb, cbEvent = call, call.Common().Args[0]
			}
			// or through a helper of the package that hands the event to the callback and
			// returns its error (deliverReplayed(handler, event))
			if ev := callbackForwarderEvent(call); ev != nil {
				cb, cbEvent = call, ev
			}
		}
	}
	if cb == nil {
		c.Violate(rule, "Replay/paged/callback", pos, "the paged path never calls the replay callback", nil)
	} else {
		inner := li.headerOf[cb.Block()]
		okInner := inner != nil && inner != header
		if okInner {
			for _, pr := range inner.Preds {
				if li.body[inner][pr] && !cb.Block().Dominates(pr) {
					okInner = false
				}
			}
			// element of the page at the range index
			if ld, ok := stripConv(cbEvent).(*ssa.UnOp); !(ok && ld.Op == token.MUL && isElemOf(ld.X, evs)) {
				okInner = false
			}
			// full range
			if iff, ok := inner.Instrs[len(inner.Instrs)-1].(*ssa.If); ok {
				full := false
				if bo, ok := iff.Cond.(*ssa.BinOp); ok && bo.Op == token.LSS {
					if call, ok := bo.Y.(*ssa.Call); ok {
						if bi, ok := call.Common().Value.(*ssa.Builtin); ok && bi.Name() == "len" && stripConv(call.Common().Args[0]) == evs {
							full = true
						}
					}
				}
				if !full {
					okInner = false
				}
			}
		}
		c.Check(okInner, rule, "Replay/paged/every-event-of-the-page-delivered", p.Pos(cb.Pos()), "the callback is called for every element of the page, in order, with no skip ahead of it", "some events of a page can be skipped (the callback call does not dominate the page loop's back edge, or the loop does not range over the whole page)")
		// the callback's error stops the replay with an error
		okCbErr := false
		for _, ref := range *cb.Referrers() {
			if bo, ok := ref.(*ssa.BinOp); ok {
				for _, r2 := range *bo.Referrers() {
					if iff, ok := r2.(*ssa.If); ok {
						if _, nonNilOnTrue, ok := nilTest(iff.Cond); ok {
							s := iff.Block().Succs[0]
							if !nonNilOnTrue {
								s = iff.Block().Succs[1]
							}
							if !reachesNilReturn(s) && !reachesBlock(s, inner) {
								okCbErr = true
							}
						}
					}
				}
			}
		}
		c.Check(okCbErr, rule, "Replay/paged/callback-error-returned", p.Pos(cb.Pos()), "a callback error ends the replay with a non-nil error", "a callback error does not end the paged replay with an error")
	}
	// (e) stuck-offset guard: the back edge is taken only when next != cursor
	if cursor != nil && next != nil {
		okGuard := false
		for b := range body {
			iff, ok := b.Instrs[len(b.Instrs)-1].(*ssa.If)
			if !ok {
				continue
			}
			bo, ok := iff.Cond.(*ssa.BinOp)
			if !ok || (bo.Op != token.EQL && bo.Op != token.NEQ) {
				continue
			}
			if (stripConv(bo.X) == next && stripConv(bo.Y) == ssa.Value(cursor)) || (stripConv(bo.Y) == next && stripConv(bo.X) == ssa.Value(cursor)) {
				eqSucc := b.Succs[0]
				if bo.Op == token.NEQ {
					eqSucc = b.Succs[1]
				}
				if !reachesBlock(eqSucc, header) && !reachesNilReturn(eqSucc) {
					dom := true
					for _, pr := range header.Preds {
						if body[pr] && !b.Dominates(pr) {
							dom = false
						}
					}
					okGuard = dom
				}
			}
		}
		c.Check(okGuard, rule, "Replay/paged/non-advancing-offset-guard", pos, "a page that does not advance the cursor ends the replay with an error", "nothing stops the paging loop when the store returns a next offset equal to the cursor: Replay re-delivers the same page forever")
	}
	// (f) context: polled each batch, and handed to Read
	polled := false
	for b := range body {
		for _, in := range b.Instrs {
			if _, _, cv, ok := ctxDoneSelect(in); ok && stripConv(cv) == ssa.Value(ctxP) && b.Dominates(read.Block()) {
				polled = true
			}
		}
	}
	c.Check(polled && stripConv(read.Common().Args[0]) == ssa.Value(ctxP), rule, "Replay/paged/context", pos, "the context is polled before every page and handed to Read", "the paged replay does not poll its context before each page (or does not pass it to Read): a cancelled replay keeps going or returns nil")
}

func exitName(b *ssa.BasicBlock, i int, evs, next, rerr ssa.Value, cursor *ssa.Phi) string {
	last := b.Instrs[len(b.Instrs)-1]
	iff, ok := last.(*ssa.If)
	if !ok {
		return "jump-from-" + b.Comment
	}
	arm := "true"
	if i == 1 {
		arm = "false"
	}
	cond := iff.Cond
	desc := "other-condition"
	if bo, ok := cond.(*ssa.BinOp); ok {
		if _, lst, ok := lenTest(bo); ok && evs != nil && stripConv(lst) == evs {
			desc = "len(events)==0"
		} else if x, _, ok := nilTest(bo); ok {
			switch {
			case rerr != nil && stripConv(x) == rerr:
				desc = "read-error"
			default:
				desc = "error-test-on-" + x.Name()
				if call, ok := stripConv(x).(*ssa.Call); ok && isDynamicCall(call.Common()) {
					desc = "callback-error"
				}
			}
		} else if next != nil && cursor != nil && ((stripConv(bo.X) == next) || stripConv(bo.Y) == next) {
			desc = "next-offset-vs-cursor"
		} else if sel, k, ok := selectArm(bo); ok {
			if _, idx, _, ok := ctxDoneSelect(sel); ok && idx == k {
				desc = "context-done"
			}
		} else if _, _, ok := lenTestAny(bo); ok {
			desc = "length-comparison"
		}
	}
	return desc + "/" + arm
}

// lenTestAny: bo compares len(x) with something.
func lenTestAny(bo *ssa.BinOp) (ssa.Value, ssa.Value, bool) {
	for _, pair := range [][2]ssa.Value{{bo.X, bo.Y}, {bo.Y, bo.X}} {
		if call, ok := pair[0].(*ssa.Call); ok {
			if bi, ok := call.Common().Value.(*ssa.Builtin); ok && bi.Name() == "len" {
				return call.Common().Args[0], pair[1], true
			}
		}
	}
	return nil, nil, false
}

func isElemOf(addr ssa.Value, slice ssa.Value) bool {
	ia, ok := addr.(*ssa.IndexAddr)
	return ok && slice != nil && stripConv(ia.X) == slice
}

func reachesBlock(from, to *ssa.BasicBlock) bool { return blockReaches(from, to) }

// reachesNilReturn: some Return reachable from blk (inclusive) hands back a nil error as
// its last result.
func reachesNilReturn(blk *ssa.BasicBlock) bool {
	seen := map[*ssa.BasicBlock]bool{}
	stack := []*ssa.BasicBlock{blk}
	for len(stack) > 0 {
		b := stack[len(stack)-1]
		stack = stack[:len(stack)-1]
		if seen[b] {
			continue
		}
		seen[b] = true
		if ret, ok := b.Instrs[len(b.Instrs)-1].(*ssa.Return); ok && len(ret.Results) > 0 {
			v := resolveResult(ret, len(ret.Results)-1)
			if k, ok := v.(*ssa.Const); ok && k.Value == nil {
				return true
			}
			if !errorish(v) {
				// unknown value: be conservative only for loads of the result cell that
				// were not assigned in this block
				if _, isLoad := v.(*ssa.UnOp); isLoad {
					// the value was stored elsewhere (e.g. by the range-over-func yield
					// closure): treat as error-carrying only if no nil store exists
					continue
				}
			}
		}
		stack = append(stack, b.Succs...)
	}
	return false
}

// ---------------------------------------------------------------------------
// C11.R2 streaming path: the synthetic range-over-func yield closure.

type yieldRule struct {
	BaseRule
	errParam   *ssa.Parameter
	cb         *ssa.Call
	resultCell ssa.Value
}

func (r *yieldRule) Inline(*ssa.Function) bool { return false }
func (r *yieldRule) PredOK(string) bool        { return true }

// sigma: [0] error stored into the shared result cell (n / e), [1] callback calls (0..2)
func (r *yieldRule) OnInstr(e *Engine, st *State, fc *FrameCtx, in ssa.Instruction) bool {
	b := []byte(st.Sigma)
	switch x := in.(type) {
	case *ssa.Store:
		if fv, ok := x.Addr.(*ssa.FreeVar); ok && typeName(fv.Type()) == "error" {
			if errorish(x.Val) {
				b[0] = 'e'
			} else if k, ok := x.Val.(*ssa.Const); ok && k.Value == nil {
				b[0] = 'n'
			} else if isNil, known := st.Pred(nilKey(e.CanonS(fc, x.Val))); known && !isNil {
				b[0] = 'e' // an error value this path found non-nil (a helper's wrapped error)
			} else {
				b[0] = '?'
			}
		}
	case *ssa.Call:
		var cbArg ssa.Value
		if isDynamicCall(x.Common()) && len(x.Common().Args) == 1 && typeName(x.Common().Args[0].Type()) == "StoredEvent" {
			cbArg = x.Common().Args[0]
		} else if ev := callbackForwarderEvent(x); ev != nil {
			cbArg = ev // a helper that hands the event to the callback and returns its error
		}
		if cbArg != nil {
			if b[1] < '2' {
				b[1]++
			}
			r.cb = x
			if p, ok := stripConv(cbArg).(*ssa.Parameter); !ok || p != fc.fn.Params[0] {
				e.Report(st, in.Pos(), "Replay/stream/callback-arg", "the replay callback is not given the event the stream yielded")
			}
		}
	case *ssa.Return:
		if len(x.Results) == 1 {
			k, ok := x.Results[0].(*ssa.Const)
			if !ok || k.Value == nil {
				e.Report(st, in.Pos(), "Replay/stream/yield-result", "cannot decide whether the iteration continues here")
				break
			}
			cont := k.Value.ExactString() == "true"
			yErr, yKnown := st.Pred(nilKey(e.CanonS(fc, r.errParam)))
			if cont {
				// continuing is only right when the yielded error was nil, the callback ran once and succeeded
				if !(yKnown && yErr) {
					e.Report(st, in.Pos(), "Replay/stream/yielded-error-stops", "the streaming replay continues (or finishes normally) on a path on which the stream's yielded error is not known to be nil: a failed read is swallowed and Replay returns nil for an incomplete replay")
				}
				if b[1] != '1' {
					e.Report(st, in.Pos(), "Replay/stream/each-event-delivered", "the streaming replay moves on to the next event having called the callback %c times for this one", b[1])
				} else if r.cb != nil {
					cErr, cKnown := st.Pred(nilKey(e.CanonS(fc, r.cb)))
					if !(cKnown && cErr) {
						e.Report(st, in.Pos(), "Replay/stream/callback-error-stops", "the streaming replay continues although the callback's error is not known to be nil")
					}
				}
			} else if b[0] != 'e' {
				e.Report(st, in.Pos(), "Replay/stream/stop-reports-error", "the streaming replay stops early without recording a non-nil error to return")
			}
		}
	}
	st.Sigma = string(b)
	return false
}

func checkReplayStream(c *Ctx, p *Prog, R *BusRoles, rule string) {
	root := p.Method(PkgBus, "EventBus", "Replay")
	if root == nil {
		return
	}
	f := root
	var y *ssa.Function
	for _, g := range reachFuncs(p, root, PkgBus) {
		for _, a := range g.AnonFuncs {
			if strings.Contains(a.Synthetic, "range-over-func yield") && len(a.Params) == 2 && typeName(a.Params[0].Type()) == "StoredEvent" {
				y, f = a, g
			}
		}
	}
	if y == nil || len(y.Params) != 2 {
		c.Unresolved(rule, "UNRESOLVED-ANCHOR/Replay/stream-loop", "Replay has no range-over-func loop over ReadStream (the streaming path is not recognisable)")
		return
	}
	// the ranged function is EventStoreStreamer.ReadStream(ctx, from)
	okSrc := false
	for _, b := range f.Blocks {
		for _, in := range b.Instrs {
			if call, ok := in.(*ssa.Call); ok && call.Common().IsInvoke() && call.Common().Method.Name() == "ReadStream" {
				if stripConv(call.Common().Args[0]) == ssa.Value(paramOfType(f, "context", "Context")) && stripConv(call.Common().Args[1]) == ssa.Value(paramOfType(f, PkgBus, "Offset")) {
					okSrc = true
				}
			}
			// or the stream is handed to a helper already opened with (ctx, from)
			if call, ok := in.(*ssa.Call); ok && f != root {
				_ = call
				if prm := paramOfSeq(f); prm != nil {
					okSrc = streamArgIsReadStream(p, root, f, prm)
				}
			}
		}
	}
	c.Check(okSrc, rule, "Replay/stream/source", p.Pos(f.Pos()), "ranges over ReadStream(ctx, from)", "the streaming path does not range over ReadStream(ctx, from) of the store")
	e := NewEngine(p)
	r := &yieldRule{errParam: y.Params[1]}
	e.Run(r, y, "n0")
	c.Stats["product_states"] += e.States
	if len(e.Findings) == 0 {
		c.Discharge(rule, "Replay/stream/yield-protocol", p.Pos(y.Pos()), "continues only when the yielded error is nil and the callback (called once, on the yielded event) succeeded; every early stop records a non-nil error")
	}
	for _, fd := range e.Findings {
		c.Violate(rule, fd.Construct, p.Pos(fd.Pos), fd.Msg, fd.Trace)
	}
	// after the loop completes normally Replay returns nil; other resumes return the recorded error
}

// ---------------------------------------------------------------------------
// C11.R1 row-iteration error discipline; C11.R3 iterator protocol.

type rowsRule struct {
	BaseRule
	p      *Prog
	n      int
	scopeP string
}

func (r *rowsRule) Inline(fn *ssa.Function) bool { return false }
func (r *rowsRule) PredOK(string) bool           { return false }

func hasNextErr(t types.Type) bool {
	ms := types.NewMethodSet(t)
	var next, err bool
	for i := 0; i < ms.Len(); i++ {
		switch ms.At(i).Obj().Name() {
		case "Next":
			next = true
		case "Err":
			err = true
		}
	}
	return next && err
}

func nextCallOn(v ssa.Value) (ssa.Value, bool) {
	call, ok := stripConv(v).(*ssa.Call)
	if !ok {
		return nil, false
	}
	c := call.Common()
	if c.IsInvoke() && c.Method.Name() == "Next" && hasNextErr(c.Value.Type()) {
		return c.Value, true
	}
	if sc := c.StaticCallee(); sc != nil && sc.Name() == "Next" && len(c.Args) == 1 && hasNextErr(c.Args[0].Type()) {
		return c.Args[0], true
	}
	return nil, false
}

func errCallOn(in ssa.Instruction) (ssa.Value, bool) {
	call, ok := in.(*ssa.Call)
	if !ok {
		return nil, false
	}
	c := call.Common()
	if c.IsInvoke() && c.Method.Name() == "Err" && hasNextErr(c.Value.Type()) {
		return c.Value, true
	}
	if sc := c.StaticCallee(); sc != nil && sc.Name() == "Err" && len(c.Args) == 1 && hasNextErr(c.Args[0].Type()) {
		return c.Args[0], true
	}
	return nil, false
}

// sigma: 'n' not exhausted, 'x' exhausted (Next returned false) and Err not yet
// consulted, 'c' Err consulted after exhaustion
func (r *rowsRule) OnBranch(e *Engine, st *State, fc *FrameCtx, in *ssa.If, taken bool) {
	cond, pol := condStrip(in.Cond)
	if _, ok := nextCallOn(cond); ok {
		r.n++
		if taken != pol { // Next() == false
			st.Sigma = "x"
			st.Note(in.Pos(), "Next() returned false")
		}
	}
}

func (r *rowsRule) OnInstr(e *Engine, st *State, fc *FrameCtx, in ssa.Instruction) bool {
	if _, ok := errCallOn(in); ok && st.Sigma == "x" {
		// the result must be tested
		tested := false
		for _, ref := range *in.(*ssa.Call).Referrers() {
			if bo, ok := ref.(*ssa.BinOp); ok {
				if _, _, ok := nilTest(bo); ok {
					tested = true
				}
			}
		}
		if tested {
			st.Sigma = "c"
		}
	}
	if ret, ok := in.(*ssa.Return); ok && st.Sigma == "x" {
		e.Report(st, ret.Pos(), FuncDisplay(fc.fn)+"/rows-exhaustion-checks-Err", "a row loop ends because Next() returned false and the function returns without consulting Err(): Next returns false both at the end of the data and on an I/O error, so a failed read is indistinguishable from a complete one")
	}
	return false
}

func checkRowsErr(c *Ctx, p *Prog, pkg, rule string) {
	sites := 0
	for _, f := range p.FuncsIn(pkg) {
		has := false
		for _, b := range f.Blocks {
			if iff, ok := b.Instrs[len(b.Instrs)-1].(*ssa.If); ok {
				cond, _ := condStrip(iff.Cond)
				if _, ok := nextCallOn(cond); ok {
					has = true
				}
			}
		}
		if !has {
			continue
		}
		sites++
		e := NewEngine(p)
		r := &rowsRule{p: p}
		e.Run(r, f, "n")
		c.Stats["product_states"] += e.States
		if len(e.Findings) == 0 {
			c.Discharge(rule, FuncDisplay(f)+"/rows-exhaustion-checks-Err", p.Pos(f.Pos()), "every path from Next()==false to a return passes a tested Err()")
		}
		for _, fd := range e.Findings {
			c.Violate(rule, fd.Construct, p.Pos(fd.Pos), fd.Msg, fd.Trace)
		}
	}
	c.Stats["row_loops"] = sites
	c.Floor(rule, "row iteration loops", sites, 3)
}

// iterator protocol of a bundled ReadStream (C11.R3)
type iterRule struct {
	BaseRule
	p     *Prog
	pkg   string
	yield string // canonical name of the yield parameter of the root closure
	nY    int
}

func (r *iterRule) Inline(fn *ssa.Function) bool { return PkgOf(fn) == r.pkg }
func (r *iterRule) PredOK(k string) bool {
	// results of inlined helpers: boolean results and the nil-ness of returned errors
	return strings.HasPrefix(k, "v:") || strings.HasPrefix(k, "(nil==v:")
}

// sigma: [0] stopped (n/y), [1] pending error (n/y)
func (r *iterRule) isYield(e *Engine, fc *FrameCtx, c *ssa.CallCommon) bool {
	if !isDynamicCall(c) || len(c.Args) != 2 {
		return false
	}
	return e.CanonS(fc, c.Value) == r.yield
}

func (r *iterRule) OnInstr(e *Engine, st *State, fc *FrameCtx, in ssa.Instruction) bool {
	if _, isDefer := in.(*ssa.Defer); isDefer && !st.ExecDefer {
		return false
	}
	ci, ok := in.(ssa.CallInstruction)
	if !ok {
		return false
	}
	b := []byte(st.Sigma)
	defer func() { st.Sigma = string(b) }()
	c := ci.Common()
	if r.isYield(e, fc, c) {
		r.nY++
		if b[0] == 'y' {
			e.Report(st, in.Pos(), "ReadStream/no-yield-after-stop", "the iterator yields again after it yielded an error or after the consumer returned false")
		}
		k, isNil := c.Args[1].(*ssa.Const)
		if isNil && k.Value == nil {
			// yield(event, nil)
		} else {
			b[0] = 'y'
			b[1] = 'n'
			st.Note(in.Pos(), "yield(nil, err)")
		}
	}
	return false
}

func (r *iterRule) OnBranch(e *Engine, st *State, fc *FrameCtx, in *ssa.If, taken bool) {
	b := []byte(st.Sigma)
	cond, pol := condStrip(in.Cond)
	val := taken == pol
	// consumer's answer
	if call, ok := cond.(*ssa.Call); ok && r.isYield(e, fc, call.Common()) {
		if !val {
			b[0] = 'y'
		}
		st.Sigma = string(b)
		return
	}
	// an error produced inside is found non-nil
	if x, nonNilOnTrue, ok := nilTest(in.Cond); ok && typeName(x.Type()) == "error" {
		if taken == nonNilOnTrue {
			if _, isParam := stripConv(x).(*ssa.Parameter); !isParam {
				b[1] = 'y'
				st.Note(in.Pos(), "an error is found non-nil")
			}
		}
	}
	// ctx done arm
	if sel, k, ok := selectArm(cond); ok {
		if _, idx, _, ok := ctxDoneSelect(sel); ok && (k == idx) == val {
			b[1] = 'y'
			st.Note(in.Pos(), "context done")
		}
	}
	st.Sigma = string(b)
}

func (r *iterRule) OnExit(e *Engine, st *State, kind ExitKind) {
	if kind == ExitReturn && st.Sigma[1] == 'y' {
		e.Report(st, token.NoPos, "ReadStream/every-error-is-yielded", "the iterator found an error (or a cancelled context) and then ends normally without yielding it: the consumer sees a complete stream")
	}
}

func checkIterProtocol(c *Ctx, p *Prog, pkg, typ, rule string) {
	m := p.Method(pkg, typ, "ReadStream")
	it := iteratorOf(p, m)
	if m == nil || it == nil {
		c.Unresolved(rule, "UNRESOLVED-ANCHOR/"+typ+".ReadStream", "method or its iterator function not found")
		return
	}
	e := NewEngine(p)
	r := &iterRule{p: p, pkg: pkg}
	yp := paramOfYield(it)
	if yp == nil {
		c.Unresolved(rule, "UNRESOLVED-ANCHOR/"+typ+".ReadStream/yield", "the iterator has no yield parameter")
		return
	}
	r.yield = "param:" + fnName(it) + "." + yp.Name()
	e.Run(r, it, "nn")
	c.Stats["product_states"] += e.States
	name := typ + ".ReadStream"
	if e.Exhausted {
		c.Unresolved(rule, name+"/engine-budget", "state budget exceeded")
	}
	if len(e.Findings) == 0 {
		c.Discharge(rule, name+"/iterator-protocol", p.Pos(it.Pos()), fmt.Sprintf("no yield after a yielded error or a false answer; every error found inside reaches yield(nil, err) before the iterator ends (%d yield sites visited)", r.nY))
	}
	for _, fd := range e.Findings {
		c.Violate(rule, name+"/"+fd.Construct, p.Pos(fd.Pos), fd.Msg, fd.Trace)
	}
	if r.nY == 0 {
		c.Unresolved(rule, name+"/yield-sites", "no yield call was recognised in the iterator")
	}
}

// ---------------------------------------------------------------------------
// C11.R4 replay is read-only.

func staticReach(p *Prog, from *ssa.Function, pkg string) map[*ssa.Function]bool {
	seen := map[*ssa.Function]bool{}
	var walk func(f *ssa.Function)
	walk = func(f *ssa.Function) {
		if f == nil || seen[f] {
			return
		}
		seen[f] = true
		for _, b := range f.Blocks {
			for _, in := range b.Instrs {
				switch x := in.(type) {
				case ssa.CallInstruction:
					if sc := x.Common().StaticCallee(); sc != nil {
						if o := sc.Origin(); o != nil {
							sc = o
						}
						if PkgOf(sc) == pkg {
							walk(sc)
						}
					}
				case *ssa.MakeClosure:
					walk(x.Fn.(*ssa.Function))
				}
			}
		}
	}
	walk(from)
	return seen
}

func checkReplayReadOnly(c *Ctx, p *Prog, R *BusRoles, rule string) {
	roots := []*ssa.Function{p.Method(PkgBus, "EventBus", "Replay"), p.Method(PkgBus, "EventBus", "ReplayWithUpcast")}
	for _, root := range roots {
		if root == nil {
			c.Unresolved(rule, "UNRESOLVED-ANCHOR/replay-root", "Replay / ReplayWithUpcast not found")
			continue
		}
		reach := staticReach(p, root, PkgBus)
		bad := ""
		for f := range reach {
			if f == R.PersistFn || f == R.PublishFn || f == R.DispatchFn {
				bad = FuncDisplay(f)
			}
			for _, b := range f.Blocks {
				for _, in := range b.Instrs {
					if ci, ok := in.(ssa.CallInstruction); ok && ci.Common().IsInvoke() && ci.Common().Method.Name() == "Append" {
						bad = "EventStore.Append in " + FuncDisplay(f)
					}
				}
			}
		}
		c.Check(bad == "", rule, FuncDisplay(root)+"/read-only", p.Pos(root.Pos()), fmt.Sprintf("no static call path (over %d functions) reaches Append, the persist function, PublishContext or the dispatch function", len(reach)), "replaying reaches "+bad+": replay appends to the store or invokes subscribed handlers")
	}
	// the replay phase of SubscribeWithReplay: its replay callback closure
	if swr := p.Func(PkgBus, "SubscribeWithReplay"); swr != nil {
		for _, a := range swr.AnonFuncs {
			if len(a.Params) == 1 && typeName(a.Params[0].Type()) == "StoredEvent" {
				reach := staticReach(p, a, PkgBus)
				bad := ""
				for f := range reach {
					if f == R.PersistFn || f == R.PublishFn || f == R.DispatchFn {
						bad = FuncDisplay(f)
					}
				}
				c.Check(bad == "", rule, "SubscribeWithReplay/replay-callback/read-only", p.Pos(a.Pos()), "the replay callback does not publish or persist", "the replay callback reaches "+bad)
			}
		}
	}
	// Append has exactly one call site in package ebu (outside the stores themselves)
	n := 0
	for _, f := range p.FuncsIn(PkgBus) {
		for _, b := range f.Blocks {
			for _, in := range b.Instrs {
				if ci, ok := in.(ssa.CallInstruction); ok && ci.Common().IsInvoke() && ci.Common().Method.Name() == "Append" && isNamed(ci.Common().Value.Type(), PkgBus, "EventStore") {
					n++
				}
			}
		}
	}
	c.Check(n == 1, rule, "EventStore.Append/one-caller", "", "exactly one call site of EventStore.Append in package ebu (the persist function)", fmt.Sprintf("EventStore.Append has %d call sites in package ebu (want exactly one, in the persist function)", n))
}

// checkMaterializerReplay (C11.R2): state.Materializer.Replay hands its own arguments
// straight to bus.Replay with Apply as the callback — it does not move the start offset.
func checkMaterializerReplay(c *Ctx, p *Prog, rule string) {
	f := p.Method(PkgState, "Materializer", "Replay")
	if f == nil {
		c.Unresolved(rule, "UNRESOLVED-ANCHOR/state.Materializer.Replay", "method not found")
		return
	}
	ok := false
	for _, b := range f.Blocks {
		for _, in := range b.Instrs {
			call, isCall := in.(*ssa.Call)
			if !isCall {
				continue
			}
			sc := call.Common().StaticCallee()
			if sc == nil || sc.Name() != "Replay" || recvTypeName(sc) != "EventBus" || len(call.Common().Args) != 4 {
				continue
			}
			a := call.Common().Args
			fromOK := stripConv(a[2]) == ssa.Value(f.Params[3])
			ctxOK := stripConv(a[1]) == ssa.Value(f.Params[1])
			busOK := stripConv(a[0]) == ssa.Value(f.Params[2])
			cbOK := false
			if mc, isMC := stripConv(a[3]).(*ssa.MakeClosure); isMC {
				// bound method value m.Apply
				if strings.HasPrefix(mc.Fn.Name(), "Apply") && len(mc.Bindings) == 1 && stripConv(mc.Bindings[0]) == ssa.Value(f.Params[0]) {
					cbOK = true
				}
			}
			ok = fromOK && ctxOK && busOK && cbOK
			if !fromOK {
				c.Violate(rule, "state.Materializer.Replay/start-offset", p.Pos(in.Pos()), "Materializer.Replay does not replay from the offset it was given (it substitutes another start offset): events between the requested offset and the substituted one are never applied although Replay returns nil", nil)
				return
			}
		}
	}
	c.Check(ok, rule, "state.Materializer.Replay/delegates-unchanged", p.Pos(f.Pos()), "bus.Replay(ctx, from, m.Apply) with the caller's arguments", "Materializer.Replay does not delegate to bus.Replay(ctx, from, m.Apply) with its own arguments")
}

// checkMemoryStreamPolls (C11.R3): the in-memory stream has no driver that could notice a
// cancelled context, so it must poll the context before every yield of an event.
func checkMemoryStreamPolls(c *Ctx, p *Prog, rule string) {
	m := p.Method(PkgBus, "MemoryStore", "ReadStream")
	it := iteratorOf(p, m)
	if m == nil || it == nil {
		c.Unresolved(rule, "UNRESOLVED-ANCHOR/MemoryStore.ReadStream", "iterator function not found")
		return
	}
	// path rule (helpers of the package are inlined, so a poll moved into `cancelled()`
	// still counts): every yield of an event is preceded, since the previous yield, by a
	// non-blocking poll of the context's Done channel
	e := NewEngine(p)
	r := &memPollRule{}
	e.Run(r, it, "n")
	c.Stats["product_states"] += e.States
	for _, fd := range e.Findings {
		c.Violate(rule, "MemoryStore.ReadStream/"+fd.Construct, p.Pos(fd.Pos), fd.Msg, fd.Trace)
	}
	if r.yields == 0 {
		c.Unresolved(rule, "MemoryStore.ReadStream/yield-sites", "no yield of an event found")
	} else if len(e.Findings) == 0 {
		c.Discharge(rule, "MemoryStore.ReadStream/context-polled-before-every-yield", p.Pos(it.Pos()), "on every path a poll of ctx.Done() separates consecutive yields of events")
	}
}

type memPollRule struct {
	BaseRule
	yields int
}

func (r *memPollRule) Inline(fn *ssa.Function) bool { return PkgOf(fn) == PkgBus }
func (r *memPollRule) PredOK(string) bool           { return false }

func (r *memPollRule) OnInstr(e *Engine, st *State, fc *FrameCtx, in ssa.Instruction) bool {
	if _, _, _, isPoll := ctxDoneSelect(in); isPoll {
		st.Sigma = "p"
		return false
	}
	call, ok := in.(*ssa.Call)
	if !ok || !isDynamicCall(call.Common()) || len(call.Common().Args) != 2 {
		return false
	}
	if _, isSig := call.Common().Value.Type().Underlying().(*types.Signature); !isSig {
		return false
	}
	if k, isNil := call.Common().Args[0].(*ssa.Const); isNil && k.Value == nil {
		return false // yield(nil, err)
	}
	if !isStoredEventPtr(call.Common().Args[0].Type()) {
		return false
	}
	r.yields++
	if st.Sigma != "p" {
		e.Report(st, in.Pos(), "context-polled-before-every-yield", "the in-memory stream does not poll its context before every event it yields (the poll is conditional or outside the loop): a replay cancelled mid-stream runs to the end and returns nil")
	}
	st.Sigma = "n"
	return false
}

func isStoredEventPtr(t types.Type) bool {
	pt, ok := t.Underlying().(*types.Pointer)
	return ok && typeName(pt.Elem()) == "StoredEvent"
}

func isPollAt(x ssa.Instruction) bool {
	_, _, _, ok := ctxDoneSelect(x)
	return ok
}

// paramOfType returns the first parameter of f with the given named type.
func paramOfType(f *ssa.Function, pkg, name string) *ssa.Parameter {
	for _, prm := range f.Params {
		if isNamed(prm.Type(), pkg, name) {
			return prm
		}
	}
	return nil
}

// paramOfSeq: a parameter that is an iterator (func(yield) type).
func paramOfSeq(f *ssa.Function) *ssa.Parameter {
	for _, prm := range f.Params {
		if sig, ok := prm.Type().Underlying().(*types.Signature); ok && sig.Params().Len() == 1 {
			if _, ok := sig.Params().At(0).Type().Underlying().(*types.Signature); ok {
				return prm
			}
		}
	}
	return nil
}

// streamArgIsReadStream: at the call of helper f inside root, the iterator argument is
// ReadStream(ctx, from) of the store with root's own ctx and from.
func streamArgIsReadStream(p *Prog, root, f *ssa.Function, prm *ssa.Parameter) bool {
	idx := -1
	for i, x := range f.Params {
		if x == prm {
			idx = i
		}
	}
	for _, b := range root.Blocks {
		for _, in := range b.Instrs {
			call, ok := in.(*ssa.Call)
			if !ok || call.Common().StaticCallee() != f || idx >= len(call.Common().Args) {
				continue
			}
			rs, ok := stripConv(call.Common().Args[idx]).(*ssa.Call)
			if !ok || !rs.Common().IsInvoke() || rs.Common().Method.Name() != "ReadStream" {
				continue
			}
			return stripConv(rs.Common().Args[0]) == ssa.Value(paramOfType(root, "context", "Context")) && stripConv(rs.Common().Args[1]) == ssa.Value(paramOfType(root, PkgBus, "Offset"))
		}
	}
	return false
}

// iteratorOf returns the function that ReadStream hands back as the iterator: a closure
// literal, or a method bound to a small struct (closure converted to a method value).
func iteratorOf(p *Prog, rs *ssa.Function) *ssa.Function {
	if rs == nil {
		return nil
	}
	for _, ret := range returnsOf(rs) {
		if len(ret.Results) != 1 {
			continue
		}
		mc, ok := stripConv(ret.Results[0]).(*ssa.MakeClosure)
		if !ok {
			continue
		}
		fn := mc.Fn.(*ssa.Function)
		if fn.Synthetic == "" {
			return fn
		}
		// bound method wrapper: the method it forwards to
		if obj, ok := fn.Object().(*types.Func); ok && obj != nil {
			if m := p.SSA.FuncValue(obj); m != nil && len(m.Blocks) > 0 {
				return m
			}
		}
		for _, b := range fn.Blocks {
			for _, in := range b.Instrs {
				if call, ok := in.(*ssa.Call); ok {
					if sc := call.Common().StaticCallee(); sc != nil && p.InScope(sc) {
						return sc
					}
				}
			}
		}
	}
	if len(rs.AnonFuncs) > 0 {
		return rs.AnonFuncs[0]
	}
	return nil
}

func paramOfYield(f *ssa.Function) *ssa.Parameter {
	for _, prm := range f.Params {
		if sig, ok := prm.Type().Underlying().(*types.Signature); ok && sig.Params().Len() == 2 && sig.Results().Len() == 1 {
			return prm
		}
	}
	return nil
}

// checkReplayReadsCurrentStore (C11.R2): the store Replay reads — through ReadStream or
// Read, in Replay or a helper — is the bus's current store: the receiver of those calls
// originates from the bus's store field only (also through a type assertion). A cached
// copy of the store, or of its streaming view, keeps pointing at a store that was replaced.
func checkReplayReadsCurrentStore(c *Ctx, p *Prog, R *BusRoles, rule string) {
	root := p.Method(PkgBus, "EventBus", "Replay")
	if root == nil {
		return
	}
	e := NewEngine(p)
	flow := NewFlow(p, e.cells)
	want := "field:EventBus." + R.BusStore
	n := 0
	for _, g := range reachFuncs(p, root, PkgBus) {
		for _, b := range g.Blocks {
			for _, in := range b.Instrs {
				call, ok := in.(*ssa.Call)
				if !ok || !call.Common().IsInvoke() {
					continue
				}
				m := call.Common().Method.Name()
				if m != "ReadStream" && m != "Read" {
					continue
				}
				tn := typeName(call.Common().Value.Type())
				if tn != "EventStore" && tn != "EventStoreStreamer" {
					continue
				}
				n++
				os := flow.Origins(call.Common().Value)
				okAll, bad := onlyOrigins(os, want)
				c.Check(okAll && len(os) > 0, rule, fmt.Sprintf("Replay/%s#%d/reads-the-current-store", m, n), p.Pos(in.Pos()), "the receiver is the bus's store field", "Replay reads "+m+" from a value that is not the bus's current store (origin "+bad+"): after the store was replaced (a later WithStore) it replays the displaced store, or nothing")
			}
		}
	}
	c.Floor(rule, "store reads in Replay", n, 2)
}
