package main

// C12: resumable subscriptions (SubscribeWithReplay).

import (
	"go/types"
	"strings"

	"golang.org/x/tools/go/ssa"
)

// funcOfValue: the function a function value denotes — a closure, a function, or the method
// behind a bound method value (x.m).
func funcOfValue(v ssa.Value) *ssa.Function {
	switch x := stripConv(v).(type) {
	case *ssa.Function:
		return x
	case *ssa.MakeClosure:
		fn, _ := x.Fn.(*ssa.Function)
		if fn != nil && strings.Contains(fn.Synthetic, "bound method wrapper") {
			for _, b := range fn.Blocks {
				for _, in := range b.Instrs {
					if ci, ok := in.(ssa.CallInstruction); ok {
						if sc := ci.Common().StaticCallee(); sc != nil {
							if o := sc.Origin(); o != nil {
								return o
							}
							return sc
						}
					}
				}
			}
		}
		return fn
	}
	return nil
}

func checkResume(c *Ctx, p *Prog, R *BusRoles) {
	f := p.Func(PkgBus, "SubscribeWithReplay")
	if f == nil {
		c.Unresolved("C12.R1", "UNRESOLVED-ANCHOR/SubscribeWithReplay", "function not found")
		return
	}
	e := NewEngine(p)
	flow := NewFlow(p, e.cells)
	var load, replay, subscribe *ssa.Call
	for _, b := range f.Blocks {
		for _, in := range b.Instrs {
			call, ok := in.(*ssa.Call)
			if !ok {
				continue
			}
			cc := call.Common()
			switch {
			case cc.IsInvoke() && cc.Method.Name() == "LoadOffset":
				load = call
			case cc.StaticCallee() != nil && cc.StaticCallee().Name() == "Replay" && recvTypeName(cc.StaticCallee()) == "EventBus":
				replay = call
			case cc.StaticCallee() != nil && strings.HasPrefix(cc.StaticCallee().Name(), "Subscribe") && cc.StaticCallee() != f:
				if o := cc.StaticCallee().Origin(); o != nil && (o.Name() == "Subscribe" || o.Name() == "SubscribeContext") {
					subscribe = call
				} else if cc.StaticCallee().Name() == "Subscribe" {
					subscribe = call
				}
			}
		}
	}
	if load == nil || replay == nil || subscribe == nil {
		c.Unresolved("C12.R1", "UNRESOLVED-ANCHOR/SubscribeWithReplay/steps", "cannot find LoadOffset / Replay / Subscribe in SubscribeWithReplay")
		return
	}
	// R1: a failed load must not restart from the beginning
	{
		var errEx *ssa.Extract
		for _, ref := range *load.Referrers() {
			if ex, ok := ref.(*ssa.Extract); ok && ex.Index == 1 {
				errEx = ex
			}
		}
		ok := false
		if errEx != nil {
			for _, ref := range *errEx.Referrers() {
				bo, isBo := ref.(*ssa.BinOp)
				if !isBo {
					continue
				}
				for _, r2 := range *bo.Referrers() {
					iff, isIf := r2.(*ssa.If)
					if !isIf {
						continue
					}
					if _, nonNilOnTrue, isNil := nilTest(iff.Cond); isNil {
						bad := iff.Block().Succs[0]
						if !nonNilOnTrue {
							bad = iff.Block().Succs[1]
						}
						if !blockReaches(bad, replay.Block()) && !reachesNilReturn(bad) {
							ok = true
						}
					}
				}
			}
		}
		c.Check(ok, "C12.R1", "SubscribeWithReplay/load-offset-error-stops", p.Pos(load.Pos()), "LoadOffset's error is tested and its non-nil arm returns an error before Replay is called", "the error returned by LoadOffset is discarded (or does not stop the call): when the saved position cannot be read the subscription silently restarts from the beginning and re-delivers the whole log")
		// the replay starts from the loaded offset
		okFrom := false
		if ex, isEx := stripConv(replay.Common().Args[2]).(*ssa.Extract); isEx && ex.Tuple == ssa.Value(load) && ex.Index == 0 {
			okFrom = true
		}
		c.Check(okFrom, "C12.R1", "SubscribeWithReplay/replay-from-loaded-offset", p.Pos(replay.Pos()), "Replay starts at the offset LoadOffset returned", "Replay does not start from the offset returned by LoadOffset")
		// the subscription id passed to LoadOffset/SaveOffset is the caller's id
	}
	// closures: the replay callback and the live wrapper
	var replayCb, liveWrap *ssa.Function
	replayCb = funcOfValue(replay.Common().Args[3])
	if len(subscribe.Common().Args) >= 2 {
		liveWrap = funcOfValue(subscribe.Common().Args[1])
	}
	// the user's handler: the function-typed parameter of SubscribeWithReplay
	handlerType := ""
	for _, prm := range f.Params {
		if _, isSig := prm.Type().Underlying().(*types.Signature); isSig && handlerType == "" {
			handlerType = typeName(prm.Type())
		}
	}
	if replayCb == nil || liveWrap == nil {
		c.Unresolved("C12.R2", "UNRESOLVED-ANCHOR/SubscribeWithReplay/closures", "cannot find the replay callback and the live wrapper closures")
		return
	}
	for _, cl := range []struct {
		fn   *ssa.Function
		name string
	}{{replayCb, "replay-callback"}, {liveWrap, "live-wrapper"}} {
		var save, user *ssa.Call
		for _, b := range cl.fn.Blocks {
			for _, in := range b.Instrs {
				call, ok := in.(*ssa.Call)
				if !ok {
					continue
				}
				if call.Common().IsInvoke() && call.Common().Method.Name() == "SaveOffset" {
					save = call
				}
				if isDynamicCall(call.Common()) && handlerType != "" && typeName(call.Common().Value.Type()) == handlerType {
					user = call
				}
			}
		}
		if save == nil || user == nil {
			c.Violate("C12.R3", "SubscribeWithReplay/"+cl.name+"/handles-and-saves", p.Pos(cl.fn.Pos()), "the "+cl.name+" does not both call the user's handler and save the offset", nil)
			continue
		}
		// R3 handle before save
		okOrder := reaches(user, save) && !reaches(save, user)
		okDom := user.Block() == save.Block() || user.Block().Dominates(save.Block())
		c.Check(okOrder && okDom, "C12.R3", "SubscribeWithReplay/"+cl.name+"/handle-before-save", p.Pos(save.Pos()), "the user's handler runs before the offset is saved on every path (a crash in between re-delivers, never loses)", "the offset is saved before (or without) the user's handler having run: a crash after the save loses the event for this subscription")
		// R2 offset provenance
		os := flow.Origins(save.Common().Args[2])
		fromEvent := hasOrigin(os, "field:StoredEvent.Offset") && len(os) == 1
		construct := "SubscribeWithReplay/" + cl.name + "/saved-offset-is-the-handled-event's"
		if fromEvent {
			c.Discharge("C12.R2", construct, p.Pos(save.Pos()), "SaveOffset receives the Offset of the stored event just handled")
		} else {
			c.Violate("C12.R2", construct, p.Pos(save.Pos()), "the offset saved after handling an event does not come from that event (origins "+strings.Join(os, ",")+"): it is bus-global state — another publisher's newer offset, or the empty offset after a failed append, which moves the saved position backwards", nil)
		}
		// the id
		idOK := false
		var idParam *ssa.Parameter
		for _, prm := range f.Params {
			if isBasicKind(prm.Type(), types.String) && idParam == nil {
				idParam = prm
			}
		}
		if idParam != nil {
			want := flow.Origins(idParam)
			got := flow.Origins(save.Common().Args[1])
			idOK = len(want) > 0 && strings.Join(want, ",") == strings.Join(got, ",")
		}
		c.Check(idOK, "C12.R2", "SubscribeWithReplay/"+cl.name+"/saves-under-its-own-id", p.Pos(save.Pos()), "the offset is saved under the caller's subscription id", "the offset is not saved under the caller's subscription id (ids no longer progress independently)")
	}
	// the live registration happens only after the replay has finished: the replay calls
	// the user's handler directly (outside the dispatch function, so outside a Sequential
	// registration's mutex and recover scope); were the handler already registered, a
	// live delivery could overlap it
	okAfter := reaches(replay, subscribe) && !reaches(subscribe, replay)
	c.Check(okAfter, "C12.R3", "SubscribeWithReplay/live-registration-after-replay", p.Pos(subscribe.Pos()), "Subscribe is called only after Replay has returned", "the live handler is registered before (or while) the replay runs, but the replay invokes the user's handler directly: a Sequential handler can run twice at once (live delivery overlapping a replayed event) and events can be seen out of log order")
	// R4 replay-to-live hand-off
	{
		// a mechanism excluding appends between the replay's last read and the live
		// registration: the store lock held across both, or a catch-up read after Subscribe
		held := false
		for _, b := range f.Blocks {
			for _, in := range b.Instrs {
				if ci, ok := in.(ssa.CallInstruction); ok {
					if kind, mu, ok := mutexOp(ci.Common()); ok && kind == "Lock" {
						if tn, fld, _, ok := fieldOfAddr(mu); ok && tn == "EventBus" && fld == R.BusStoreMu {
							if reaches(in, replay) && reaches(in, subscribe) {
								held = true
							}
						}
					}
				}
			}
		}
		catchUp := false
		for _, b := range f.Blocks {
			for _, in := range b.Instrs {
				if call, ok := in.(*ssa.Call); ok && call != replay {
					if sc := call.Common().StaticCallee(); sc != nil && sc.Name() == "Replay" && reaches(subscribe, call) {
						catchUp = true
					}
					if call.Common().IsInvoke() && (call.Common().Method.Name() == "Read" || call.Common().Method.Name() == "ReadStream") && reaches(subscribe, call) {
						catchUp = true
					}
				}
			}
		}
		if held || catchUp {
			c.Discharge("C12.R4", "SubscribeWithReplay/replay-to-live-hand-off", p.Pos(subscribe.Pos()), "appends are excluded between replay and registration, or a catch-up read follows the registration")
		} else {
			c.Violate("C12.R4", "SubscribeWithReplay/replay-to-live-hand-off", p.Pos(subscribe.Pos()), "nothing excludes appends between the last log read of the replay and the registration of the live handler, and no catch-up read follows: an event published in that window is neither replayed nor delivered live, and the next live save moves the saved offset past it", nil)
		}
	}
	// R5 memory store: offsets keyed by id
	if m := p.Method(PkgBus, "MemoryStore", "SaveOffset"); m != nil {
		ok := false
		for _, b := range m.Blocks {
			for _, in := range b.Instrs {
				if mu, isMu := in.(*ssa.MapUpdate); isMu {
					if tn, fld, _, isF := fieldLoad(mu.Map); isF && tn == "MemoryStore" && fld == discoverMem(p).Subs {
						k, okK := stripConv(mu.Key).(*ssa.Parameter)
						v, okV := stripConv(mu.Value).(*ssa.Parameter)
						ok = okK && okV && k == m.Params[2] && v == m.Params[3]
					}
				}
			}
		}
		c.Check(ok, "C12.R5", "MemoryStore.SaveOffset/keyed-by-id", p.Pos(m.Pos()), "subscriptions[id] = offset", "the memory store does not record exactly the given offset under the given subscription id")
	} else {
		c.Unresolved("C12.R5", "UNRESOLVED-ANCHOR/MemoryStore.SaveOffset", "method not found")
	}
	if m := p.Method(PkgBus, "MemoryStore", "LoadOffset"); m != nil {
		ok := false
		for _, b := range m.Blocks {
			for _, in := range b.Instrs {
				if lk, isLk := in.(*ssa.Lookup); isLk {
					if tn, fld, _, isF := fieldLoad(lk.X); isF && tn == "MemoryStore" && fld == discoverMem(p).Subs {
						k, okK := stripConv(lk.Index).(*ssa.Parameter)
						ok = okK && k == m.Params[2]
					}
				}
			}
		}
		c.Check(ok, "C12.R5", "MemoryStore.LoadOffset/keyed-by-id", p.Pos(m.Pos()), "returns subscriptions[id]", "the memory store does not look the offset up under the given subscription id")
	}
}
