package main

import (
	"fmt"
	"os"
	"os/exec"
	"path/filepath"
	"sort"
	"strings"
)

// positiveControls (thorough tier): every kept seeded change for this property
// (/verif/seeded/<id>/<name>/patch.diff) is applied to a scratch copy of the repository
// and the same rules are run on it; they must report a violation that the unchanged tree
// does not have. A rule that silently stopped matching is noticed this way. Patches that
// no longer apply to the current tree are skipped (and listed).
func positiveControls(c *Ctx, verif, repo, id string, d *PropDef) {
	dirs, _ := filepath.Glob(filepath.Join(verif, "seeded", id, "*", "patch.diff"))
	sort.Strings(dirs)
	// hand-made controls for rules no seeded change exercises (tools/hand_controls.sh)
	hand, _ := filepath.Glob(filepath.Join(verif, "controls", id+"-*.diff"))
	sort.Strings(hand)
	dirs = append(dirs, hand...)
	if len(dirs) == 0 {
		c.Notes = append(c.Notes, "no positive controls registered for this property")
		return
	}
	base := map[string]bool{}
	for _, o := range c.Obls {
		if o.Status != Discharged {
			base[o.Rule+"|"+o.Construct] = true
		}
	}
	ran, fired, skipped := 0, 0, 0
	for _, patch := range dirs {
		name := filepath.Base(filepath.Dir(patch))
		if strings.HasSuffix(patch, ".diff") && filepath.Base(patch) != "patch.diff" {
			name = "hand/" + strings.TrimSuffix(filepath.Base(patch), ".diff")
		}
		tmp, err := os.MkdirTemp("", "ebu-control-")
		if err != nil {
			c.Notes = append(c.Notes, "positive control "+name+": cannot create scratch dir")
			continue
		}
		func() {
			defer os.RemoveAll(tmp)
			if out, err := exec.Command("rsync", "-a", "--exclude", ".git", repo+"/", tmp+"/").CombinedOutput(); err != nil {
				c.Notes = append(c.Notes, "positive control "+name+": copy failed: "+string(out))
				return
			}
			cmd := exec.Command("git", "apply", "--whitespace=nowarn", patch)
			cmd.Dir = tmp
			if out, err := cmd.CombinedOutput(); err != nil {
				skipped++
				c.Notes = append(c.Notes, "positive control "+name+" skipped: patch does not apply to the current tree ("+strings.TrimSpace(firstLine(string(out)))+")")
				return
			}
			saved := repoRoot
			repoRoot = tmp
			c2 := NewCtx(id, "quick", tmp)
			func() {
				defer func() {
					if r := recover(); r != nil {
						c2.Unresolved("CHECKER", "panic", fmt.Sprint(r))
					}
				}()
				d.Run(c2)
			}()
			repoRoot = saved
			ran++
			var newv []string
			for _, o := range c2.Obls {
				if o.Status != Discharged && !base[o.Rule+"|"+o.Construct] {
					newv = append(newv, o.Rule+" ["+o.Construct+"]")
				}
			}
			if len(newv) > 0 {
				fired++
				if len(newv) > 3 {
					newv = newv[:3]
				}
				c.Discharge("CONTROL", "positive-control/"+name, "", "seeded change detected: "+strings.Join(newv, "; "))
			} else {
				c.Unresolved("CONTROL", "positive-control/"+name, "the seeded change "+patch+" breaks this property but the rules report nothing new on it: a rule has stopped matching")
			}
		}()
	}
	c.Rule("CONTROL", "positive controls: every kept seeded change for this property must be reported when applied to a scratch copy")
	c.Stats["positive_controls_run"] = ran
	c.Stats["positive_controls_fired"] = fired
	c.Stats["positive_controls_skipped"] = skipped
}

func firstLine(s string) string {
	if i := strings.Index(s, "\n"); i >= 0 {
		return s[:i]
	}
	return s
}
