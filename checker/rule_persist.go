package main

// All paths of the persist function (loop-free) are enumerated (E-PATH with predicates):
//
//	C09.R2  Append exactly once when the store is set and marshalling succeeded; synchronous; never in a loop or goroutine
//	C09.R3  record content: Type ← EventType(event), Data ← json.Marshal(event)#0
//	C09.R4  Append is called and lastOffset written inside one storeMu write-locked region
//	C13.R1  #Append ≤ 1, = 0 on marshal-error paths
//	C13.R2  persistence error handler exactly once on failure paths (if set), with (event, type, error wrapping the failing error)
//	C13.R3  lastOffset stored only on saveErr == nil paths, with Append's offset result
//	C13.R4  containment: no result, no panic/exit, timeout cancel deferred
//	C20.R1p #OnPersistStart = #OnPersistComplete = #Append; C20.R2p context/err threading

import (
	"fmt"
	"go/token"
	"sort"
	"strings"

	"golang.org/x/tools/go/ssa"
)

type persistSigma struct {
	A, H, O, S, C int  // appends, handler calls, offset stores, obs start, obs complete
	L             byte // store lock held (n / w / r)
	Rg            byte // Append happened in the currently open locked region
	G             byte // inside a goroutine n/y
	Cx            byte // a cancel function of a derived context has been called n/y
}

func (s persistSigma) String() string {
	if s.Cx == 0 {
		s.Cx = 'n'
	}
	return fmt.Sprintf("%d%d%d%d%d%c%c%c%c", cap2(s.A), cap2(s.H), cap2(s.O), cap2(s.S), cap2(s.C), s.L, s.Rg, s.G, s.Cx)
}
func parsePersist(x string) persistSigma {
	d := func(i int) int { return int(x[i] - '0') }
	ps := persistSigma{A: d(0), H: d(1), O: d(2), S: d(3), C: d(4), L: x[5], Rg: x[6], G: x[7], Cx: 'n'}
	if len(x) > 8 {
		ps.Cx = x[8]
	}
	return ps
}

type persistRule struct {
	BaseRule
	R        *BusRoles
	p        *Prog
	flow     *Flow
	classes  map[string]int
	appendIn *ssa.Call
	marshal  *ssa.Call
	errKeyA  string // predicate key of (saveErr == nil)
	errKeyM  string // predicate key of (marshalErr == nil)
	sites    map[string]token.Pos
	ix       *ipIndex
	recCall  *ssa.Call // the call of a record constructor helper, when the record is built in one
}

func (r *persistRule) Inline(fn *ssa.Function) bool { return PkgOf(fn) == PkgBus && fn != r.R.NameFn }
func (r *persistRule) PredOK(key string) bool       { return true }

func nilKey(k string) string {
	a, b := "nil", k
	if a > b {
		a, b = b, a
	}
	return "(" + a + "==" + b + ")"
}

func (r *persistRule) OnEnter(e *Engine, st *State, fc *FrameCtx) {
	if fc.isGo {
		s := parsePersist(st.Sigma)
		s.G = 'y'
		s.L, s.Rg = 'n', 'n'
		st.Sigma = s.String()
	}
}

func (r *persistRule) OnInstr(e *Engine, st *State, fc *FrameCtx, in ssa.Instruction) bool {
	if _, isDefer := in.(*ssa.Defer); isDefer && !st.ExecDefer {
		return false
	}
	s := parsePersist(st.Sigma)
	defer func() { st.Sigma = s.String() }()
	switch x := in.(type) {
	case *ssa.Store:
		if tn, fld, _, ok := fieldOfAddr(x.Addr); ok && tn == "EventBus" && fld == r.R.BusLastOffset {
			s.O++
			r.sites["lastOffset-store"] = in.Pos()
			st.Note(in.Pos(), "lastOffset written")
			if s.L != 'w' {
				e.Report(st, in.Pos(), "persist-fn/lastOffset/under-store-lock", "lastOffset is written without the store write lock")
			} else if s.Rg != 'y' {
				e.Report(st, in.Pos(), "persist-fn/lastOffset/same-region-as-append", "lastOffset is written in a different locked region than the Append call that produced the offset: concurrent publishers can leave lastOffset pointing at an older event")
			}
			// value: Append's offset result
			okVal := false
			if ex, ok := stripConv(x.Val).(*ssa.Extract); ok && ex.Index == 0 && r.appendIn != nil && ex.Tuple == r.appendIn {
				okVal = true
			}
			if !okVal {
				e.Report(st, in.Pos(), "persist-fn/lastOffset/value", "lastOffset is not assigned the offset returned by Append")
			}
			if v, known := st.Pred(r.errKeyA); !(known && v) {
				e.Report(st, in.Pos(), "persist-fn/lastOffset/only-on-success", "lastOffset advances on a path where the append is not known to have succeeded (a failed append returns an empty offset: the offset moves backwards)")
			}
		}
		return false
	case *ssa.Go:
		return false
	case *ssa.Panic:
		e.Report(st, in.Pos(), "persist-fn/no-panic", "the persist function can panic explicitly: a persistence failure would take the publish down")
		return false
	}
	ci, ok := in.(ssa.CallInstruction)
	if !ok {
		return false
	}
	c := ci.Common()
	if kind, mu, ok := mutexOp(c); ok {
		if tn, fld, _, ok := fieldOfAddr(mu); ok && tn == "EventBus" && fld == r.R.BusStoreMu {
			switch kind {
			case "Lock":
				s.L, s.Rg = 'w', 'n'
			case "RLock":
				s.L, s.Rg = 'r', 'n'
			case "Unlock", "RUnlock":
				s.L, s.Rg = 'n', 'n'
			}
		}
		return false
	}
	if isCancelFuncCall(e, c) {
		s.Cx = 'y'
		st.Note(in.Pos(), "cancel function of the derived context called")
		return false
	}
	if c.IsInvoke() && c.Method.Name() == "Append" && isNamed(c.Value.Type(), PkgBus, "EventStore") {
		if s.Cx == 'y' {
			e.Report(st, in.Pos(), "persist-fn/append/context-still-live", "the cancel function of the context derived for the append has already run when Append is called (e.g. a helper that defers cancel and returns the context): a store that honours the context rejects every append")
		}
		s.A++
		r.sites["append"] = in.Pos()
		st.Note(in.Pos(), "EventStore.Append")
		if call, ok := in.(*ssa.Call); ok {
			r.appendIn = call
			for _, ref := range *call.Referrers() {
				if ex, ok := ref.(*ssa.Extract); ok && ex.Index == 1 {
					r.errKeyA = nilKey(e.CanonS(fc, ex))
				}
			}
		} else {
			e.Report(st, in.Pos(), "persist-fn/append/synchronous", "Append is started with go/defer: the record is not in the store when the persist function returns")
		}
		if s.G == 'y' {
			e.Report(st, in.Pos(), "persist-fn/append/synchronous", "Append runs in a goroutine started by the persist function: handlers can run before the record is in the store")
		}
		if s.L != 'w' {
			e.Report(st, in.Pos(), "persist-fn/append/under-store-lock", "Append is called without the bus's store lock: concurrent publishers are no longer serialised, so stores that rely on it can hand out duplicate or out-of-order offsets and lastOffset can regress")
		} else {
			s.Rg = 'y'
		}
		if li := loopsOf(in.Parent()); li.headerOf[in.Block()] != nil {
			e.Report(st, in.Pos(), "persist-fn/append/no-retry-loop", "Append is called inside a loop: a failed event may be retried or written more than once")
		}
		if v, known := st.Pred(r.errKeyM); known && !v {
			e.Report(st, in.Pos(), "persist-fn/append/not-after-marshal-failure", "Append is reached although marshalling the event failed: a record without its data is written")
		}
		// the record handed to Append
		if len(c.Args) == 2 {
			r.checkRecord(e, st, fc, in, c.Args[1])
		}
		return false
	}
	if sc := c.StaticCallee(); sc != nil {
		switch sc.String() {
		case "encoding/json.Marshal":
			if call, ok := in.(*ssa.Call); ok {
				r.marshal = call
				for _, ref := range *call.Referrers() {
					if ex, ok := ref.(*ssa.Extract); ok && ex.Index == 1 {
						r.errKeyM = nilKey(e.CanonS(fc, ex))
					}
				}
			}
		case "os.Exit", "log.Fatal", "log.Fatalf", "log.Fatalln", "log.Panic", "log.Panicf", "runtime.Goexit":
			e.Report(st, in.Pos(), "persist-fn/no-panic", "the persist function can terminate the goroutine or process (%s)", sc.String())
		}
		return false
	}
	if m, cc, ok := obsCall(in); ok {
		switch m {
		case "OnPersistStart":
			s.S++
			r.sites["obs-start"] = in.Pos()
			if s.A > 0 {
				e.Report(st, in.Pos(), "persist-fn/obs/start-before-append", "OnPersistStart is called after Append")
			}
		case "OnPersistComplete":
			s.C++
			r.sites["obs-complete"] = in.Pos()
			if s.L != 'n' {
				e.Report(st, in.Pos(), "persist-fn/obs/complete-outside-lock", "OnPersistComplete runs while the store lock is held")
			}
			if len(cc.Args) == 3 {
				// error argument is Append's error
				av, _ := e.ArgValue(fc, cc.Args[2])
				okErr := r.isAppendErr(av, 0)
				if !okErr {
					e.Report(st, in.Pos(), "persist-fn/obs/complete-error-arg", "OnPersistComplete is not given the error returned by Append")
				}
			}
		}
		return false
	}
	if isDynamicCall(c) {
		if tn, fld, _, ok := fieldLoad(c.Value); ok && tn == "EventBus" && fld == r.R.BusPersistErrH {
			s.H++
			r.sites[fmt.Sprintf("error-handler-call@%d", in.Pos())] = in.Pos()
			st.Note(in.Pos(), "persistence error handler called")
			if s.L != 'n' {
				e.Report(st, in.Pos(), "persist-fn/error-handler/outside-lock", "the persistence error handler runs while the store lock is held: a handler that publishes (e.g. a dead-letter event) deadlocks the publish")
			}
			r.checkHandlerArgs(e, st, fc, in, c)
		}
	}
	return false
}

// isAppendErr: v is the error Append returned — directly, or as the result of a helper of
// the package every return of which hands back that error.
func (r *persistRule) isAppendErr(v ssa.Value, d int) bool {
	v = stripConv(v)
	if ex, ok := v.(*ssa.Extract); ok && ex.Index == 1 && r.appendIn != nil && ex.Tuple == r.appendIn {
		return true
	}
	if d > 3 {
		return false
	}
	if ld, ok := v.(*ssa.UnOp); ok && ld.Op == token.MUL {
		if al, ok := ld.X.(*ssa.Alloc); ok {
			n, all := 0, true
			for _, ref := range *al.Referrers() {
				if st, ok := ref.(*ssa.Store); ok && st.Addr == al {
					n++
					if !r.isAppendErr(st.Val, d+1) {
						all = false
					}
				}
			}
			return n > 0 && all
		}
	}
	if r.ix == nil {
		r.ix = newIPIndex(r.p)
	}
	idx := 0
	if ex, ok := v.(*ssa.Extract); ok {
		idx = ex.Index
	}
	rs := r.ix.Returned(v, idx)
	if len(rs) == 0 {
		return false
	}
	for _, rv := range rs {
		if !r.isAppendErr(rv, d+1) {
			return false
		}
	}
	return true
}

func (r *persistRule) checkRecord(e *Engine, st *State, fc *FrameCtx, in ssa.Instruction, rec ssa.Value) {
	rv, _ := e.ArgValue(fc, rec)
	al, ok := stripConv(rv).(*ssa.Alloc)
	r.recCall = nil
	if !ok {
		// the record may be the result of a constructor helper of the package: exactly one
		// of its returns hands back a fresh record (the others return nil with the error)
		v := stripConv(rv)
		idx := 0
		var call *ssa.Call
		planField := -1
		if ex, isEx := v.(*ssa.Extract); isEx {
			idx = ex.Index
			call, _ = ex.Tuple.(*ssa.Call)
		} else if fl, isFl := v.(*ssa.Field); isFl {
			// a field of a small "plan" struct the helper returns by value
			call, _ = stripConv(fl.X).(*ssa.Call)
			planField = fl.Field
		} else if ld, isLd := v.(*ssa.UnOp); isLd && ld.Op == token.MUL {
			// … read from a local copy of that struct
			if fa, isFA := ld.X.(*ssa.FieldAddr); isFA {
				if a0, isAl := fa.X.(*ssa.Alloc); isAl {
					if w := wholeStore(a0); w != nil {
						call, _ = stripConv(w).(*ssa.Call)
						planField = fa.Field
					}
				}
			}
		} else {
			call, _ = v.(*ssa.Call)
		}
		if call != nil && planField >= 0 && call.Common().StaticCallee() != nil {
			if r.ix == nil {
				r.ix = newIPIndex(r.p)
			}
			var found *ssa.Alloc
			n := 0
			psc := call.Common().StaticCallee()
			if o := psc.Origin(); o != nil {
				psc = o
			}
			for _, rt := range returnsOf(psc) {
				if len(rt.Results) != 1 {
					n = 99
					continue
				}
				ret := rt.Results[0] // the literal itself (not resolved to a zero value)
				ld, isLd := stripConv(ret).(*ssa.UnOp)
				if !isLd || ld.Op != token.MUL {
					n = 99
					continue
				}
				lit, isAl := ld.X.(*ssa.Alloc)
				if !isAl {
					n = 99
					continue
				}
				if sv := structLitField(lit, planField); sv != nil {
					if k, isK := stripConv(sv).(*ssa.Const); isK && k.Value == nil {
						continue
					}
					n++
					found, _ = stripConv(sv).(*ssa.Alloc)
				}
			}
			if n == 1 && found != nil {
				al, ok = found, true
				r.recCall = call
			}
		} else if call != nil && call.Common().StaticCallee() != nil {
			if r.ix == nil {
				r.ix = newIPIndex(r.p)
			}
			var found *ssa.Alloc
			n := 0
			for _, ret := range r.ix.Returned(v, idx) {
				ret = stripConv(ret)
				if k, isK := ret.(*ssa.Const); isK && k.Value == nil {
					continue
				}
				n++
				found, _ = ret.(*ssa.Alloc)
			}
			if n == 1 && found != nil {
				al, ok = found, true
				r.recCall = call
			}
		}
	}
	if !ok {
		e.Report(st, in.Pos(), "persist-fn/record/shape", "cannot see how the record handed to Append is built (not a composite literal of this function)")
		return
	}
	got := map[string]bool{}
	for _, ref := range *al.Referrers() {
		fa, ok := ref.(*ssa.FieldAddr)
		if !ok {
			continue
		}
		fld := fieldName(fa.X.Type(), fa.Field)
		for _, r2 := range *fa.Referrers() {
			sto, ok := r2.(*ssa.Store)
			if !ok || sto.Addr != fa {
				continue
			}
			os := r.flow.Origins(sto.Val)
			switch fld {
			case "Type":
				got["Type"] = true
				if ok, bad := onlyOrigins(os, "call:EventType#0"); !ok || len(os) == 0 {
					e.Report(st, sto.Pos(), "persist-fn/record/type-name", "the stored type name does not come from EventType(event) alone (origin %s): replay subscriptions and upcasters that select by name no longer match", bad)
				} else if call := findCall(sto.Val, "EventType"); call == nil || !r.isEventParam(call.Common().Args[0]) {
					e.Report(st, sto.Pos(), "persist-fn/record/type-name", "EventType is not applied to the published event")
				}
			case "Data":
				got["Data"] = true
				if ok, bad := onlyOrigins(os, "call:encoding/json.Marshal#0"); !ok || len(os) == 0 {
					e.Report(st, sto.Pos(), "persist-fn/record/data", "the stored data is not the result of json.Marshal(event) (origin %s)", bad)
				} else if call := findCall(sto.Val, "encoding/json.Marshal"); call == nil || !r.isEventParam(call.Common().Args[0]) {
					e.Report(st, sto.Pos(), "persist-fn/record/data", "json.Marshal is not applied to the published event")
				}
			}
		}
	}
	for _, f := range []string{"Type", "Data"} {
		if !got[f] {
			e.Report(st, in.Pos(), "persist-fn/record/"+strings.ToLower(f)+"-set", "the record handed to Append has no %s", f)
		}
	}
}

func (r *persistRule) isEventParam(v ssa.Value) bool {
	p, ok := stripConv(v).(*ssa.Parameter)
	if ok && r.recCall != nil && p.Parent() == r.recCall.Common().StaticCallee() {
		// a parameter of the record constructor: what the persist function passed for it
		for i, q := range p.Parent().Params {
			if q == p && i < len(r.recCall.Common().Args) {
				p, ok = stripConv(r.recCall.Common().Args[i]).(*ssa.Parameter)
			}
		}
	}
	return ok && p.Parent() == r.R.PersistFn && len(r.R.PersistFn.Params) == 4 && p == r.R.PersistFn.Params[3]
}

// findCall follows value-preserving steps from v to a call of the named function.
// isCancelFuncCall: a dynamic call of the CancelFunc returned by context.WithTimeout /
// WithCancel / WithDeadline (directly or through a local cell).
func isCancelFuncCall(e *Engine, c *ssa.CallCommon) bool {
	if !isDynamicCall(c) {
		return false
	}
	v := stripConv(c.Value)
	if ld, ok := v.(*ssa.UnOp); ok && ld.Op == token.MUL {
		if a := e.allocOf(ld.X); a != nil {
			if ss := e.cells.stores[a]; len(ss) == 1 {
				v = stripConv(ss[0])
			}
		}
	}
	ex, ok := v.(*ssa.Extract)
	if !ok || ex.Index != 1 {
		return false
	}
	call, ok := ex.Tuple.(*ssa.Call)
	return ok && strings.HasPrefix(calleeName(call.Common()), "context.With")
}

func findCall(v ssa.Value, name string) *ssa.Call {
	for i := 0; i < 6; i++ {
		v = stripConv(v)
		switch x := v.(type) {
		case *ssa.Call:
			if n := calleeName(x.Common()); n == name || strings.HasSuffix(n, "."+name) {
				return x
			}
			return nil
		case *ssa.Extract:
			v = x.Tuple
		default:
			return nil
		}
	}
	return nil
}

func (r *persistRule) checkHandlerArgs(e *Engine, st *State, fc *FrameCtx, in ssa.Instruction, c *ssa.CallCommon) {
	if len(c.Args) != 3 {
		return
	}
	pf := r.R.PersistFn
	if len(pf.Params) != 4 {
		return
	}
	if e.CanonS(fc, c.Args[0]) != "param:"+fnName(pf)+"."+pf.Params[3].Name() {
		e.Report(st, in.Pos(), "persist-fn/error-handler/event-arg", "the persistence error handler is not given the published event")
	}
	if e.CanonS(fc, c.Args[1]) != "param:"+fnName(pf)+"."+pf.Params[2].Name() {
		e.Report(st, in.Pos(), "persist-fn/error-handler/type-arg", "the persistence error handler is not given the event's reflect.Type")
	}
	// the reported error carries the failing error
	os := r.flow.Origins(c.Args[2])
	if !(hasOrigin(os, "call:encoding/json.Marshal#1") || hasOrigin(os, "call:invoke:EventStore.Append#1")) {
		e.Report(st, in.Pos(), "persist-fn/error-handler/error-arg", "the error handed to the persistence error handler does not carry the failing marshal/append error (origins %v)", os)
	}
}

func (r *persistRule) OnExit(e *Engine, st *State, kind ExitKind) {
	if kind != ExitReturn {
		if kind == ExitGoroutine {
			return
		}
		e.Report(st, token.NoPos, "persist-fn/no-panic", "a panic can leave the persist function")
		return
	}
	s := parsePersist(st.Sigma)
	storeNil, sKnown := r.predField(st, r.R.BusStore)
	mOK, mKnown := st.Pred(r.errKeyM)
	aOK, aKnown := st.Pred(r.errKeyA)
	hSet, hKnown := r.predField(st, r.R.BusPersistErrH)
	oSet, oKnown := r.predField(st, r.R.BusObs)
	class := fmt.Sprintf("store-nil=%s marshal-ok=%s append-ok=%s handler-set=%s obs-set=%s -> appends=%d handler-calls=%d offset-stores=%d obs=%d/%d",
		tri(storeNil, sKnown), tri(mOK, mKnown && r.errKeyM != ""), tri(aOK, aKnown && r.errKeyA != ""), tri(hSet, hKnown), tri(oSet, oKnown), s.A, s.H, s.O, s.S, s.C)
	r.classes[class]++
	if s.L != 'n' {
		e.Report(st, token.NoPos, "persist-fn/store-lock-released", "the persist function returns with the store lock held")
	}
	if s.A > 1 {
		e.Report(st, token.NoPos, "persist-fn/append/at-most-once", "Append is called more than once on a path: the event is written twice or retried")
	}
	if sKnown && storeNil {
		if s.A+s.H+s.O+s.S+s.C != 0 {
			e.Report(st, token.NoPos, "persist-fn/no-store-no-effect", "the persist function has effects although no store is configured")
		}
		return
	}
	if !sKnown {
		e.Report(st, token.NoPos, "persist-fn/store-test", "the persist function returns on a path that never tested whether a store is configured")
	}
	marshalFailed := mKnown && !mOK && r.errKeyM != ""
	appendFailed := aKnown && !aOK && r.errKeyA != ""
	if marshalFailed && s.A != 0 {
		e.Report(st, token.NoPos, "persist-fn/append/not-after-marshal-failure", "Append is called on a marshal-failure path")
	}
	if !marshalFailed && s.A != 1 {
		e.Report(st, token.NoPos, "persist-fn/append/exactly-once", "a path with a store and an encodable event calls Append %d times (want exactly once, before the persist function returns)", s.A)
	}
	failed := marshalFailed || appendFailed
	switch {
	case failed && hKnown && hSet && s.H != 1:
		e.Report(st, token.NoPos, "persist-fn/error-handler/exactly-once", "a failure path with the handler set reports %d times (want exactly once)", s.H)
	case failed && !hKnown && s.H == 0:
		e.Report(st, token.NoPos, "persist-fn/error-handler/exactly-once", "a failure path never looks at the persistence error handler")
	case !failed && s.H != 0:
		e.Report(st, token.NoPos, "persist-fn/error-handler/only-on-failure", "the persistence error handler is called on a path without a failure")
	case hKnown && !hSet && s.H != 0:
		e.Report(st, token.NoPos, "persist-fn/error-handler/nil", "the persistence error handler is nil but called")
	}
	if s.O > 0 && !(aKnown && aOK) {
		e.Report(st, token.NoPos, "persist-fn/lastOffset/only-on-success", "lastOffset is stored on a path where the append did not succeed")
	}
	if aKnown && aOK && s.A == 1 && s.O != 1 {
		e.Report(st, token.NoPos, "persist-fn/lastOffset/on-success", "a successful append does not record its offset in lastOffset exactly once (%d stores)", s.O)
	}
	if oKnown && oSet {
		if s.S != s.A || s.C != s.A {
			e.Report(st, token.NoPos, "persist-fn/obs/pairing", "observability set: OnPersistStart=%d OnPersistComplete=%d Append=%d on one path (want all equal)", s.S, s.C, s.A)
		}
	} else if oKnown && !oSet && s.S+s.C != 0 {
		e.Report(st, token.NoPos, "persist-fn/obs/nil", "observability is nil but a persist callback is invoked")
	}
}

func tri(v, known bool) string {
	if !known {
		return "?"
	}
	if v {
		return "y"
	}
	return "n"
}

// predField: valuation of `bus.<field> == nil` → returns (isNil? no: returns the truth
// of "set/non-nil" inverted appropriately). For the store the caller wants "is nil".
func (r *persistRule) predField(st *State, field string) (val, known bool) {
	for k, v := range st.Preds() {
		if isNilPredOn(k, field) {
			if field == r.R.BusStore {
				return v, true // v = (store == nil)
			}
			return !v, true // non-nil
		}
	}
	return false, false
}

// runPersist explores the persist function and files obligations.
func runPersist(c *Ctx, p *Prog, R *BusRoles, want map[string]string) {
	e := NewEngine(p)
	for _, f := range []string{R.BusStore, R.BusPersistErrH, R.BusObs, R.BusTimeout} {
		e.Immutable["EventBus."+f] = true
	}
	r := &persistRule{R: R, p: p, classes: map[string]int{}, sites: map[string]token.Pos{}}
	r.flow = NewFlow(p, e.cells)
	e.Run(r, R.PersistFn, persistSigma{L: 'n', Rg: 'n', G: 'n'}.String())
	c.Stats["product_states"] += e.States
	c.Stats["persist_path_classes"] = len(r.classes)
	if e.Exhausted {
		c.Unresolved("PERSIST", "engine/state-budget", "persist automaton exceeded its budget")
	}
	ruleOf := func(k string) string {
		has := func(s string) bool { return strings.Contains(k, s) }
		switch {
		case has("/obs/"):
			return "C20.R1"
		case has("/record/"):
			return "C09.R3"
		case has("under-store-lock"), has("same-region"), has("store-lock-released"), has("lastOffset/on-success"), has("lastOffset/value"):
			return "C09.R4"
		case has("append/synchronous"), has("append/exactly-once"), has("append/context-still-live"):
			return "C09.R2"
		case has("append/"):
			return "C13.R1"
		case has("error-handler"):
			return "C13.R2"
		case has("lastOffset/only-on-success"):
			return "C13.R3"
		case has("no-panic"), has("no-store-no-effect"), has("store-test"):
			return "C13.R4"
		}
		return "C13.R4"
	}
	for _, f := range e.Findings {
		if as, ok := want[ruleOf(f.Construct)]; ok {
			c.Violate(as, f.Construct, p.Pos(f.Pos), f.Msg, f.Trace)
		}
	}
	dis := func(rule, construct, pos, detail string) {
		if as, ok := want[rule]; ok {
			c.Discharge(as, construct, pos, detail)
		}
	}
	var cls []string
	for k, n := range r.classes {
		cls = append(cls, fmt.Sprintf("%s (x%d)", k, n))
	}
	for i, k := range cls {
		_ = i
		dis("C13.R1", "persist-fn/path-class/"+k, "", "path class enumerated; counts satisfy the rule")
	}
	if pos, ok := r.sites["append"]; ok {
		dis("C09.R2", "persist-fn/append-site", p.Pos(pos), "exactly one synchronous Append on every store-set, marshal-ok path; none in a loop or goroutine")
		dis("C09.R3", "persist-fn/record", p.Pos(pos), "Type ← EventType(event), Data ← json.Marshal(event)#0 for the event parameter")
		dis("C09.R4", "persist-fn/append-in-store-lock-region", p.Pos(pos), "Append and the lastOffset store are in one storeMu write-locked region")
		dis("C13.R3", "persist-fn/lastOffset", p.Pos(pos), "stored only on saveErr == nil paths with Append's offset")
		dis("C20.R1", "persist-fn/obs-pairing", p.Pos(pos), "#OnPersistStart = #OnPersistComplete = #Append on every path; Complete gets Append's error outside the lock")
	}
	n := 0
	var ehPos []token.Pos
	for k, pos := range r.sites {
		if strings.HasPrefix(k, "error-handler-call@") {
			ehPos = append(ehPos, pos)
		}
	}
	sort.Slice(ehPos, func(i, j int) bool { return ehPos[i] < ehPos[j] })
	for i, pos := range ehPos {
		n++
		dis("C13.R2", fmt.Sprintf("persist-fn/error-handler-call@#%d", i+1), p.Pos(pos), "called exactly once on this failure path with (event, type, wrapped failing error), outside the store lock")
	}
	c.Stats["persist_error_handler_sites"] = n
	c.Stats["persist_append_sites"] = boolInt(r.sites["append"] != token.NoPos)
	// C13.R4 containment: no results; timeout cancel deferred
	if _, ok := want["C13.R4"]; ok {
		c.Check(R.PersistFn.Signature.Results().Len() == 0, want["C13.R4"], "persist-fn/no-result", p.Pos(R.PersistFn.Pos()), "the persist function returns nothing the publisher could branch on", "the persist function returns a value: the publisher can (and a caller will) branch on persistence failure")
		checkCancelDeferred(c, p, R.PersistFn, want["C13.R4"])
		dis("C13.R4", "persist-fn/no-panic", p.Pos(R.PersistFn.Pos()), "no explicit panic / exit; no panic edge leaves the function")
	}
}

func boolInt(b bool) int {
	if b {
		return 1
	}
	return 0
}

// checkCancelDeferred: every context.With{Timeout,Cancel,Deadline} in fn has its cancel
// function deferred (or called on all paths; only the deferred idiom is recognised).
func checkCancelDeferred(c *Ctx, p *Prog, fn *ssa.Function, rule string) {
	for _, b := range fn.Blocks {
		for _, in := range b.Instrs {
			call, ok := in.(*ssa.Call)
			if !ok {
				continue
			}
			n := calleeName(call.Common())
			if n != "context.WithTimeout" && n != "context.WithCancel" && n != "context.WithDeadline" {
				continue
			}
			deferred := false
			for _, ref := range *call.Referrers() {
				if ex, ok := ref.(*ssa.Extract); ok && ex.Index == 1 {
					for _, r2 := range *ex.Referrers() {
						if d, ok := r2.(*ssa.Defer); ok && d.Call.Value == ex {
							deferred = true
						}
					}
				}
			}
			c.Check(deferred, rule, "persist-fn/timeout-cancel-deferred", p.Pos(in.Pos()), "the timeout context's cancel is deferred", "the cancel function of the timeout context is not deferred: timers leak, or a later cancel can abort an append in flight")
		}
	}
}
