package main

import (
	"go/types"
	"sort"
	"strings"

	"golang.org/x/tools/go/ssa"
)

// Callbacks that may run while a lock is held, each with its reason (C03.R4).
// c03CallbackException: the reasoned exceptions to "no callback while a lock is held",
// stated by role (the field and type names are discovered, not assumed).
func c03CallbackException(p *Prog, R *BusRoles, callee, held string) (string, bool) {
	mem := discoverMem(p)
	up := R.UpRegT.Obj().Name()
	switch {
	case callee == "EventStore.Append" && held == "EventBus."+R.BusStoreMu:
		return "the store is the serialised resource; bundled stores never call back into a bus", true
	case held == "Materializer."+mem.MatMu && isStateInterfaceMethod(p, callee):
		return "storage operation of a registered collection, not a user callback of the bus", true
	case callee == "Upcaster.Upcast" && held == up+"."+R.UpMu+"(R)":
		return "upcasters are not among the callbacks the property allows to re-enter; held in read mode", true
	case callee == up+"."+R.UpErrH && held == up+"."+R.UpMu+"(R)":
		return "upcast error handler, same assumption as upcasters; held in read mode", true
	case callee == R.RegName()+"."+R.RegHandler && held == R.RegName()+"."+R.RegMu:
		return "the sequential lock serialises the handler itself by design (documented exception: a synchronous Sequential handler publishing to itself)", true
	}
	return "", false
}

// isStateInterfaceMethod: callee is "<T>.<m>" for an unexported interface type T declared
// in the state package (the type-erased view of a registered collection).
func isStateInterfaceMethod(p *Prog, callee string) bool {
	i := strings.Index(callee, ".")
	pk := p.All[PkgState]
	if i < 0 || pk == nil {
		return false
	}
	o := pk.Types.Scope().Lookup(callee[:i])
	if o == nil || o.Exported() {
		return false
	}
	_, isIface := o.Type().Underlying().(*types.Interface)
	return isIface
}

func init() {
	register("C03", &PropDef{
		Explain: "Structural necessary conditions of 'concurrent use of the API is free of data races and deadlocks' (classical lock-set analysis; races on user-shared data and third-party internals are not decided): (R1) guarded-by table over packages ebu and state: every access to a guarded field/map happens with the lock of the same object held, in write mode for writes, on every path from every exported root and escaping closure; unlock pairing; no root left with a lock held; (R2) who-may-write: configuration fields of EventBus, the upcast registry's error handler, materializer/sqlite/durable-streams configuration and store fields and registration flags are stored to only by option closures, constructors (object not yet shared) and the Set* setters; package-level variables have no run-time writer; (R3) the once claim word is touched only through sync/atomic; (R4) no user callback (handler, filter, hook, panic/persistence/upcast error handler, observability, iterator yield) is invoked while a bus lock is held, minus a table of reasoned exceptions — the structural reason re-entrant calls from handlers cannot self-deadlock; (R5) lock-order graph over lock classes is acyclic (thorough tier resolves interface calls to the bundled implementations); the sequential lock held across user code yields the cross-registration cycle recorded as a known finding; (R6) WaitGroup protocol: a positive Add reachable from one exported function concurrently with Wait from another, with nothing ordering them, is the documented misuse (known finding).",
		Run:     runC03,
		Thorough: func(c *Ctx) {
			runC03LockOrder(c, true)
		},
	})
}

func runC03(c *Ctx) {
	c.Rule("C03.R1", "guarded-by: guarded fields only under the lock of the same object (write mode for writes); unlock pairing")
	c.Rule("C03.R2", "who-may-write: configuration only by options/constructors/setters; no run-time writer of package variables")
	c.Rule("C03.R3", "the claim word is accessed only through sync/atomic")
	c.Rule("C03.R4", "no callback while a bus lock is held (table of reasoned exceptions)")
	c.Rule("C03.R5", "lock-order graph acyclic; no lock re-acquired by the path holding it")
	c.Rule("C03.R6", "WaitGroup protocol: Add from zero must not run concurrently with Wait")
	p, R := busRoles(c, "C03.R1")
	if R == nil {
		return
	}
	res := runLocksFull(p, busGuards(R), map[string]bool{PkgBus: true, PkgState: true}, false, busImmutable(R))
	c.Stats["product_states"] += res.States
	c.Stats["lock_roots"] = res.Roots + res.Closures
	c.Stats["lock_ops"] = res.LockOps
	c.Stats["callbacks_seen"] = res.CallbacksSeen
	n := lockObligations(c, res, "C03.R1", nil)
	c.Floor("C03.R1", "guarded accesses", n, 50)
	for _, f := range res.Misc {
		rule := "C03.R1"
		if strings.Contains(f.Construct, "/reacquire/") {
			rule = "C03.R5"
		}
		c.Violate(rule, "locking/"+f.Construct, p.Pos(f.Pos), f.Msg, f.Trace)
	}
	if res.Exhausted {
		c.Unresolved("C03.R1", "engine/state-budget", "lock-set exploration exceeded its budget")
	}
	// R4 callbacks under lock
	var keys []string
	for k := range res.Callbacks {
		keys = append(keys, k)
	}
	sort.Strings(keys)
	for _, k := range keys {
		cb := res.Callbacks[k]
		if why, ok := c03CallbackException(p, R, cb.Callee, cb.Held); ok {
			c.Discharge("C03.R4", "callback-under-lock/"+k, cb.Pos, "table exception: "+why)
		} else {
			c.Violate("C03.R4", "callback-under-lock/"+k, cb.Pos, "callback "+cb.Callee+" is invoked while holding "+cb.Held+": if it calls back into the bus (publish, subscribe, unsubscribe, clear) or blocks, the caller deadlocks", cb.Witness)
		}
	}
	c.Discharge("C03.R4", "callbacks-outside-locks", "", "all other callback invocations found on the explored paths happen with no lock held")
	c.Stats["callbacks_under_lock"] = len(res.Callbacks)
	// a sequential lock leaked on some exit (e.g. the panic edge) blocks the next delivery forever
	runFrames(c, p, R, map[string]string{"C05.R3": "C03.R5"})
	// R3
	claimWordDiscipline(c, p, R, "C03.R3")
	// R2 (root module part)
	specs := []writerSpec{
		{PkgBus, "EventBus", map[string]bool{R.BusLastOffset: true}},
		{PkgBus, R.UpRegT.Obj().Name(), map[string]bool{R.UpMap: true}},
		{PkgBus, R.RegName(), nil},
		{PkgState, "materializerConfig", nil},
		{PkgState, "changeConfig", nil},
		{PkgState, "Materializer", map[string]bool{discoverMem(p).MatColl: true, discoverMem(p).MatOffset: true}},
		{PkgState, "TypedCollection", nil},
	}
	nw := checkWriters(c, p, "C03.R2", specs)
	ng := checkGlobals(c, p, "C03.R2", []string{PkgBus, PkgState})
	if ps := c.Prog(ModSQLite); ps != nil {
		nw += checkWriters(c, ps, "C03.R2", []writerSpec{{PkgSQLite, "config", nil}, {PkgSQLite, "SQLiteStore", nil}})
		ng += checkGlobals(c, ps, "C03.R2", []string{PkgSQLite})
	}
	if pd := c.Prog(ModDurable); pd != nil {
		nw += checkWriters(c, pd, "C03.R2", []writerSpec{{PkgDurable, "config", nil}, {PkgDurable, "Store", nil}})
		ng += checkGlobals(c, pd, "C03.R2", []string{PkgDurable})
	}
	c.Floor("C03.R2", "configuration field writers", nw, 25)
	c.Rule("C03.R7", "the SQLite store never starves itself of connections while a stream cursor is open (pool cap, locking mode)")
	if ps := c.Prog(ModSQLite); ps != nil {
		checkPoolNotStarved(c, ps, "C03.R7")
	}
	// the registry's slices are edited in place under the shard lock: a publish must not
	// keep reading their elements after it released the lock (it walks a private copy)
	c.Rule("C03.R8", "registry list elements are not read outside the shard lock: dispatch walks a private snapshot")
	checkSnapshot(c, p, R, "C03.R8")
	c.Stats["package_globals"] = ng
	// R5 (quick: direct nesting only)
	runC03LockOrder(c, false)
	// R6
	checkWaitGroupProtocol(c, p, R, "C03.R6")
	c.Assume = append(c.Assume, "database/sql, net/http and the third-party store clients are goroutine-safe", "configuration setters complete before concurrent use begins (the property's stated exclusion)", "user callbacks other than those listed in the exception table may re-enter the bus")
}

// lock-order graph: edges discovered by the lock-set exploration. With resolve=true
// interface calls on in-repo interfaces are followed into the bundled implementations.
func runC03LockOrder(c *Ctx, resolve bool) {
	p, R := busRoles(c, "C03.R5")
	if R == nil {
		return
	}
	res := runLocksFull(p, busGuards(R), map[string]bool{PkgBus: true, PkgState: true}, resolve, busImmutable(R))
	c.Stats["product_states"] += res.States
	allowed := map[string]string{
		"EventBus.storeMu -> MemoryStore.mu":     "persist appends to the bundled memory store while serialising appends",
		"Materializer.mu -> MemoryStore.mu":      "reset clears the bundled in-memory collections under the materializer lock",
		"upcastRegistry.mu -> upcastRegistry.mu": "",
	}
	var edges []string
	for e := range res.Edges {
		edges = append(edges, e)
	}
	sort.Strings(edges)
	graph := map[string][]string{}
	for _, e := range edges {
		parts := strings.SplitN(e, " -> ", 2)
		graph[parts[0]] = append(graph[parts[0]], parts[1])
		if why, ok := allowed[e]; ok && why != "" {
			c.Discharge("C03.R5", "lock-order/"+e, res.Edges[e], "expected nesting: "+why)
		} else if parts[0] == parts[1] {
			c.Violate("C03.R5", "lock-order/"+e, res.Edges[e], "a lock of class "+parts[0]+" is acquired while another lock of the same class is held: two goroutines doing so in opposite order deadlock", nil)
		} else {
			c.Discharge("C03.R5", "lock-order/"+e, res.Edges[e], "nesting edge (checked for cycles)")
		}
	}
	// cycle detection
	var cyc []string
	state := map[string]int{}
	var dfs func(n string, path []string)
	dfs = func(n string, path []string) {
		state[n] = 1
		for _, m := range graph[n] {
			if state[m] == 1 {
				cyc = append(cyc, strings.Join(append(path, n, m), " -> "))
			} else if state[m] == 0 {
				dfs(m, append(path, n))
			}
		}
		state[n] = 2
	}
	var nodes []string
	for n := range graph {
		nodes = append(nodes, n)
	}
	sort.Strings(nodes)
	for _, n := range nodes {
		if state[n] == 0 {
			dfs(n, nil)
		}
	}
	for _, cy := range cyc {
		c.Violate("C03.R5", "lock-order/cycle/"+cy, "", "lock classes are acquired in a cyclic order: "+cy, nil)
	}
	if len(cyc) == 0 {
		mode := "direct nesting"
		if resolve {
			mode = "nesting incl. interface calls resolved to bundled implementations"
		}
		c.Discharge("C03.R5", "lock-order/acyclic", "", mode+": "+strings.Join(edges, "; ")+" — acyclic")
	}
	// the sequential lock is held across the user's handler: the handler may publish to
	// another sequential registration whose handler publishes back (distinct instances
	// of the same lock class, opposite order)
	seqKey := ""
	for k, cb := range res.Callbacks {
		if cb.Callee == R.RegName()+"."+R.RegHandler && strings.Contains(cb.Held, R.RegName()+"."+R.RegMu) {
			seqKey = k
		}
	}
	if seqKey != "" {
		c.Violate("C03.R5", "lock-order/sequential-lock-held-across-handler/cross-registration", res.Callbacks[seqKey].Pos,
			"the per-registration sequential mutex is held while the user's handler runs; a handler may publish (allowed by the property), which acquires another sequential registration's mutex: two Sequential handlers that publish each other's event from two goroutines acquire the two mutexes in opposite order and deadlock (this is not the documented self-publish exception)", res.Callbacks[seqKey].Witness)
	}
}

// checkWaitGroupProtocol (C03.R6).
func checkWaitGroupProtocol(c *Ctx, p *Prog, R *BusRoles, rule string) {
	type site struct {
		fn  *ssa.Function
		pos string
	}
	var adds, waits []site
	for _, f := range p.FuncsIn(PkgBus) {
		for _, b := range f.Blocks {
			for _, in := range b.Instrs {
				ci, ok := in.(ssa.CallInstruction)
				if !ok {
					continue
				}
				kind, wg, ok := wgOp(ci.Common())
				if !ok {
					continue
				}
				if tn, fld, _, ok := fieldOfAddr(wg); !(ok && tn == "EventBus" && fld == R.BusWG) {
					continue
				}
				switch kind {
				case "Add", "Go":
					af := outermost(f)
					// keyed by the API function that does the counting, not by the helper
					// the statement sits in
					for _, g := range reachFuncs(p, R.PublishFn, PkgBus) {
						if g == af {
							af = R.PublishFn
						}
					}
					adds = append(adds, site{af, p.Pos(in.Pos())})
				case "Wait":
					waits = append(waits, site{outermost(f), p.Pos(in.Pos())})
				}
			}
		}
	}
	if len(adds) == 0 || len(waits) == 0 {
		c.Unresolved(rule, "UNRESOLVED-ANCHOR/bus-wait-group", "no Add or no Wait on the bus wait group found")
		return
	}
	for _, a := range adds {
		for _, w := range waits {
			construct := "bus-wait-group/Add-in-" + FuncDisplay(a.fn) + "/vs/Wait-in-" + FuncDisplay(w.fn)
			c.Violate(rule, construct, a.pos,
				"Add(1) on the bus wait group (reachable from the exported "+FuncDisplay(a.fn)+") can start from a zero counter while another goroutine is inside Wait (exported "+FuncDisplay(w.fn)+"); nothing orders the two. sync.WaitGroup documents this as misuse: the race detector reports it and the runtime can panic with 'WaitGroup is reused before previous Wait has returned'", nil)
		}
	}
}

// busImmutable lists the fields that C03.R2 shows are written only before the object
// is shared (registration flags, bus configuration): loads of them may be correlated.
func busImmutable(R *BusRoles) []string {
	rn := R.RegName()
	return []string{rn + "." + R.RegSeq, rn + "." + R.RegOnce, rn + "." + R.RegAsync, rn + "." + R.RegFilter,
		"EventBus." + R.BusObs, "EventBus." + R.BusPanicH, "EventBus." + R.BusPersistErrH, "EventBus." + R.BusStore,
		"EventBus." + R.BusBefore, "EventBus." + R.BusAfter, "EventBus." + R.BusBeforeCtx, "EventBus." + R.BusAfterCtx}
}
