package main

func busGuards(R *BusRoles) []guardSpec {
	M := discoverMem(R.P)
	g := []guardSpec{
		{"EventBus", R.BusLastOffset, R.BusStoreMu},
		{"MemoryStore", M.Events, M.Mu}, {"MemoryStore", M.Subs, M.Mu}, {"MemoryStore", M.Counter, M.Mu},
	}
	if M.StData != "" {
		g = append(g, guardSpec{"MemoryStore", M.StData, M.StMu}, guardSpec{"Materializer", M.MatColl, M.MatMu}, guardSpec{"Materializer", M.MatOffset, M.MatMu})
	}
	if R.ShardT != nil {
		g = append(g, guardSpec{R.ShardT.Obj().Name(), R.ShardMap, R.ShardMu})
	}
	if R.UpRegT != nil {
		g = append(g, guardSpec{R.UpRegT.Obj().Name(), R.UpMap, R.UpMu})
	}
	return g
}

// callbackExceptions: callbacks that may run while the named lock class is held, each
// with the reason (DESIGN.md C03.R4). Key: callee + "|" + held classes.
var callbackExceptions = map[string]string{}
