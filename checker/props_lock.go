package main


func busGuards(R *BusRoles) []guardSpec {
	g := []guardSpec{
		{"EventBus", R.BusLastOffset, R.BusStoreMu},
		{"MemoryStore", "events", "mu"}, {"MemoryStore", "subscriptions", "mu"}, {"MemoryStore", "nextOffset", "mu"},
		{"MemoryStore", "data", "mu"}, {"Materializer", "collections", "mu"}, {"Materializer", "lastOffset", "mu"},
	}
	if R.ShardT != nil {
		g = append(g, guardSpec{R.ShardT.Obj().Name(), R.ShardMap, R.ShardMu})
	}
	if R.UpRegT != nil {
		g = append(g, guardSpec{R.UpRegT.Obj().Name(), R.UpMap, R.UpMu})
	}
	return g
}

// callbackExceptions: callbacks that may run while the named lock class is held, each
// with the reason (DESIGN.md C03.R4). Key: callee + "|" + held classes.
var callbackExceptions = map[string]string{}
