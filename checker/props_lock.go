package main

import (
	"fmt"
	"sort"
	"strings"
)

func busGuards(R *BusRoles) []guardSpec {
	g := []guardSpec{
		{"EventBus", R.BusLastOffset, R.BusStoreMu},
		{"MemoryStore", "events", "mu"}, {"MemoryStore", "subscriptions", "mu"}, {"MemoryStore", "nextOffset", "mu"},
		{"MemoryStore", "data", "mu"}, {"Materializer", "collections", "mu"}, {"Materializer", "lastOffset", "mu"},
	}
	if R.ShardT != nil {
		g = append(g, guardSpec{R.ShardT.Obj().Name(), R.ShardMap, R.ShardMu})
	}
	if R.UpRegT != nil {
		g = append(g, guardSpec{R.UpRegT.Obj().Name(), R.UpMap, R.UpMu})
	}
	return g
}

// callbackExceptions: callbacks that may run while the named lock class is held, each
// with the reason (DESIGN.md C03.R4). Key: callee + "|" + held classes.
var callbackExceptions = map[string]string{}

func devLockDump(c *Ctx) {
	p, R := busRoles(c, "DEV")
	if R == nil {
		return
	}
	res := runLocks(p, busGuards(R), map[string]bool{PkgBus: true, PkgState: true})
	fmt.Printf("roots=%d closures=%d states=%d lockops=%d callbacks=%d\n", res.Roots, res.Closures, res.States, res.LockOps, res.CallbacksSeen)
	var ks []string
	for k := range res.Accesses {
		ks = append(ks, k)
	}
	sort.Strings(ks)
	for _, k := range ks {
		a := res.Accesses[k]
		fmt.Printf("ACCESS ok=%v %s @%s :: %s\n", a.OK, k, a.Pos, a.Detail)
	}
	ks = nil
	for k := range res.Callbacks {
		ks = append(ks, k)
	}
	sort.Strings(ks)
	for _, k := range ks {
		fmt.Printf("CALLBACK %s @%s\n", k, res.Callbacks[k].Pos)
	}
	for k, v := range res.Edges {
		fmt.Printf("EDGE %s @%s\n", k, v)
	}
	for _, f := range res.Misc {
		fmt.Printf("MISC %s: %s\n    %s\n", f.Construct, f.Msg, strings.Join(f.Trace, "\n    "))
	}
}

func init() {
	register("DEVLOCK", &PropDef{Explain: "dev", Run: devLockDump})
}
