package main

// The per-registration delivery automaton over PublishContext's dispatch loop, its
// spawned goroutine and the dispatch function (E-PATH). One exploration serves
//
//	C01.R4  filter → claim → dispatch at most once per registration per publish
//	C04.R1  a once registration is dispatched only on the success edge of the claim CAS
//	C04.R2  a won claim is never wasted (dispatch / invocation on every path)
//	C04.R3  filter and context poll precede the claim
//	C04.R4  every won claim is queued for retirement and the retirement region runs
//	C08.R1  a live context poll precedes every handler start
//	C05.R1  every invocation's panic edge is absorbed by the dispatch frame
//
// Facets of sigma (per loop iteration): F filter state, P poll state, C claim state,
// D dispatch count, I invoked, R retired, G reflective guard seen.

import (
	"fmt"
	"go/token"
	"go/types"
	"strings"

	"golang.org/x/tools/go/ssa"
)

type delivSigma struct {
	F byte // u unseen, n nil, p pending(non-nil, not yet called), t passed, f failed, w wrong type
	P byte // u unpolled, l live, d done
	C byte // n none, w won, l lost, r released
	O byte // once flag: u untested, y yes, n no
	D int  // dispatches this iteration
	I int  // invocations (in dispatch fn)
	R byte // retired: n/y
	G byte // '0'+bits: reflective guard facts (1 Kind!=Func, 2 NumIn!=1, 4 NumIn!=2)
	A byte // any registration retired during this publish: n/y
	M byte // retirement region (registry write under lock after loop) seen: n/y
	X byte // inside dispatch function frame: n/y
}

func (s delivSigma) String() string {
	return fmt.Sprintf("%c%c%c%c%d%d%c%c%c%c%c", s.F, s.P, s.C, s.O, s.D, s.I, s.R, s.G, s.A, s.M, s.X)
}

func parseDeliv(x string) delivSigma {
	return delivSigma{F: x[0], P: x[1], C: x[2], O: x[3], D: int(x[4] - '0'), I: int(x[5] - '0'), R: x[6], G: x[7], A: x[8], M: x[9], X: x[10]}
}

func freshIter(prev delivSigma) delivSigma {
	return delivSigma{F: 'u', P: 'u', C: 'n', O: 'u', R: 'n', G: '0', A: prev.A, M: prev.M, X: 'n'}
}

type deliveryRule struct {
	BaseRule
	R          *BusRoles
	ev         *busEvents
	c          *Ctx
	header     *ssa.BasicBlock // dispatch loop header in PublishFn
	loops      *loopInfo
	hCanon     string // canonical registration of the current iteration (set lazily)
	eventCanon string // canonical published event
	ctxCanons  []string
	ctxOracle  *pubCtxOracle
	// statistics / site inventory
	invSites, claimSites, pollSites, filterSites, dispatchSites, spawnSites map[token.Pos]bool
	sawRegistryWriteAfterLoop                                               bool
}

func (r *deliveryRule) Inline(fn *ssa.Function) bool {
	// everything of package ebu that is statically called is followed, except the
	// persist and shard functions, which are atomic events here
	return PkgOf(fn) == PkgBus && fn != r.R.PersistFn && fn != r.R.ShardFn && !r.R.FilterHelpers[fn]
}

func (r *deliveryRule) PredOK(key string) bool {
	// track predicates on registration fields and on results of inlined helpers
	for _, f := range []string{r.R.RegOnce, r.R.RegAsync, r.R.RegFilter, r.R.RegSeq} {
		if mentionsField(key, f) {
			return true
		}
	}
	return strings.HasPrefix(key, "v:")
}

// inLoopNow: the publisher is currently inside the dispatch loop (in the loop function
// itself or in something it called from there).
func (r *deliveryRule) inLoopNow(st *State) bool {
	lb := st.BlockOf(r.R.LoopFn)
	return lb != nil && r.loops.body[r.header][lb]
}

func (r *deliveryRule) inLoop(fc *FrameCtx, blk *ssa.BasicBlock) bool {
	if fc.fn != r.R.LoopFn {
		return true // inlined callee / goroutine reached from the loop
	}
	return r.loops.body[r.header][blk]
}

func (r *deliveryRule) OnEnter(e *Engine, st *State, fc *FrameCtx) {
	if fc.isGo {
		// the fork copies sigma after the spawner counted the go statement as its
		// dispatch; the goroutine continues the same delivery
		s := parseDeliv(st.Sigma)
		if s.D > 0 {
			s.D--
		}
		st.Sigma = s.String()
	}
	if fc.fn == r.R.DispatchFn {
		s := parseDeliv(st.Sigma)
		s.X = 'y'
		s.D++
		if s.D > 2 {
			s.D = 2
		}
		pos := token.NoPos
		if fc.site != nil {
			pos = fc.site.Pos()
			r.dispatchSites[pos] = true
		}
		st.Note(pos, "dispatch: enter %s", FuncDisplay(fc.fn))
		// C01.R4: the dispatch passes this iteration's registration and the published event
		if len(fc.args) >= 3 && fc.parent != nil {
			hc := e.CanonS(fc.parent, fc.args[0])
			if r.hCanon != "" && hc != r.hCanon {
				e.Report(st, pos, "PublishContext/dispatch/registration-arg", "dispatch is given a registration (%s) other than the one the iteration examined (%s)", hc, r.hCanon)
			}
		}
		r.checkAtDispatch(e, st, &s, pos, fc.InGoroutine())
		st.Sigma = s.String()
	}
}

func (r *deliveryRule) checkAtDispatch(e *Engine, st *State, s *delivSigma, pos token.Pos, async bool) {
	where := "sync"
	if async {
		where = "async"
	}
	switch s.F {
	case 'n', 't':
	case 'w':
		e.Report(st, pos, "PublishContext/dispatch-"+where+"/filter", "a handler is dispatched although its filter was not evaluated: the filter's parameter type is not the static type of this publish (an event published through an interface-typed value) and nothing evaluates it otherwise, so a handler whose filter rejects the event is invoked")
	case 'u':
		e.Report(st, pos, "PublishContext/dispatch-"+where+"/filter", "a handler is dispatched on a path that never consulted its filter")
	case 'p', 'c':
		e.Report(st, pos, "PublishContext/dispatch-"+where+"/filter", "a handler with a filter is dispatched without the filter's verdict having been tested")
	case 'f':
		e.Report(st, pos, "PublishContext/dispatch-"+where+"/filter", "a handler is dispatched although its filter rejected the event")
	}
	if s.P != 'l' {
		e.Report(st, pos, "PublishContext/dispatch-"+where+"/context-gate", "a handler is started on a path without a live poll of the publish context in this delivery (poll state %c)", s.P)
	}
	switch s.O {
	case 'u':
		e.Report(st, pos, "PublishContext/dispatch-"+where+"/once-test", "dispatch is not control-dependent on the once flag")
	case 'y':
		if s.C != 'w' {
			e.Report(st, pos, "PublishContext/dispatch-"+where+"/claim", "a once handler is dispatched without having won the atomic claim (claim state %c)", s.C)
		}
	}
	if s.D > 1 {
		e.Report(st, pos, "PublishContext/dispatch-"+where+"/once-per-publish", "a registration is dispatched more than once in one publish")
	}
}

func (r *deliveryRule) OnLeave(e *Engine, st *State, fc *FrameCtx, recovered bool) {
	if fc.fn == r.R.DispatchFn {
		s := parseDeliv(st.Sigma)
		s.X = 'n'
		if s.I == 0 && !excused(s.G) && !st.Unwinding() {
			e.Report(st, fc.fn.Pos(), "dispatch-fn/invokes-handler", "the dispatch function returns without having invoked the handler (and without the reflective kind/arity guard having failed)")
		}
		st.Sigma = s.String()
	}
}

func (r *deliveryRule) OnInstr(e *Engine, st *State, fc *FrameCtx, in ssa.Instruction) bool {
	s := parseDeliv(st.Sigma)
	defer func() { st.Sigma = s.String() }()
	if _, isDefer := in.(*ssa.Defer); isDefer && !st.ExecDefer {
		return false
	}
	// handler invocation
	if rc, kind, ok := r.ev.handlerInvoke(fc, in); ok {
		r.invSites[in.Pos()] = true
		s.I = 1
		st.Note(in.Pos(), "handler invoked (%s)", kind)
		if s.X != 'y' {
			e.Report(st, in.Pos(), "handler-invocation/outside-dispatch-fn", "the handler value is invoked outside the dispatch function (no recover scope, no sequential lock)")
		}
		_ = rc
		return true // may panic
	}
	// filter call
	if rc, call, ok := r.ev.filterCall(fc, in); ok {
		r.filterSites[in.Pos()] = true
		r.noteH(rc)
		if s.F == 'p' || s.F == 'u' || s.F == 'w' {
			s.F = 'c' // called, outcome pending
		}
		// argument must be the published event
		for _, arg := range call.Common().Args {
			if fld, _, isF := r.ev.regFieldLoad(fc, arg); isF && fld == r.R.RegFilter {
				continue // the filter itself, handed to the evaluating helper
			}
			if pt, ok := arg.Type().Underlying().(*types.Pointer); ok && r.R.RegT != nil && types.Identical(pt.Elem(), r.R.RegT) {
				continue // the registration whose filter the helper evaluates
			}
			if a := e.CanonS(fc, arg); a != r.eventCanon {
				e.Report(st, in.Pos(), "PublishContext/filter/arg", "the filter is evaluated on %s, not on the published event", a)
			}
		}
		st.Note(in.Pos(), "filter called")
		if s.C == 'w' {
			e.Report(st, in.Pos(), "PublishContext/filter-before-claim", "the filter is evaluated after the once claim was taken")
		}
		return false
	}
	// context poll
	if _, _, ctxv, ok := ctxDoneSelect(in); ok {
		r.pollSites[in.Pos()] = true
		c := e.CanonS(fc, ctxv)
		if !r.isPublishCtxV(e, fc, ctxv) {
			e.Report(st, in.Pos(), "PublishContext/context-gate/which-context", "the polled context (%s) is not the publish context", c)
		}
		s.P = 'q' // polled, outcome pending
		return false
	}
	// claim
	if rc, kind, ok := r.ev.claimOp(fc, in); ok {
		r.claimSites[in.Pos()] = true
		r.noteH(rc)
		switch kind {
		case "cas01", "swap1":
			st.Note(in.Pos(), "atomic claim attempt (%s)", kind)
			if s.F == 'u' || s.F == 'p' || s.F == 'c' || s.F == 'w' {
				e.Report(st, in.Pos(), "PublishContext/claim/after-filter", "the once claim is attempted before the filter accepted the event (filter state %c; w = the filter's parameter type is not the static type of the publish and nothing else evaluated it)", s.F)
			}
			if s.P != 'l' {
				e.Report(st, in.Pos(), "PublishContext/claim/after-context-gate", "the once claim is attempted before a live poll of the publish context: a cancelled publish can use the handler up")
			}
			s.C = 'a' // attempted, outcome pending
		case "store0", "cas10":
			st.Note(in.Pos(), "claim released")
			if s.I > 0 || (s.D > 0 && !fc.InGoroutine()) {
				e.Report(st, in.Pos(), "claim/reset-after-dispatch", "the claim word is reset after the handler was dispatched: a retired once handler can fire again")
			} else if s.R == 'y' {
				e.Report(st, in.Pos(), "claim/released-after-queued-for-retirement", "the claim is handed back although the publisher has already queued the registration for removal: the once handler is retired without ever having run")
			} else if s.C == 'w' {
				s.C = 'r'
			} else {
				e.Report(st, in.Pos(), "claim/reset", "the claim word is reset on a path that did not win it")
			}
		case "load":
			// a plain atomic read decides nothing
		default:
			e.Report(st, in.Pos(), "claim/unrecognised-op", "unrecognised atomic operation on the claim word (%s)", kind)
		}
		return false
	}
	// retirement: the registration is stored into the element of a fresh varargs array
	// that is appended to the removal list
	if stv, ok := in.(*ssa.Store); ok {
		if ia, ok := stv.Addr.(*ssa.IndexAddr); ok {
			if al, ok := ia.X.(*ssa.Alloc); ok && al.Comment == "varargs" && r.R.RegT != nil {
				if typeName(stv.Val.Type()) == r.R.RegName() && r.inLoop(fc, in.Block()) {
					if hc := e.CanonS(fc, stv.Val); r.hCanon == "" || hc == r.hCanon {
						s.R = 'y'
						s.A = 'y'
						st.Note(in.Pos(), "registration queued for retirement")
					}
				}
			}
		}
	}
	// registry write after the loop = retirement region
	if mu, ok := in.(*ssa.MapUpdate); ok && !fc.InGoroutine() && !r.inLoopNow(st) {
		if tn, fld, _, ok := fieldLoad(mu.Map); ok && r.R.ShardT != nil && tn == r.R.ShardT.Obj().Name() && fld == r.R.ShardMap {
			s.M = 'y'
			r.sawRegistryWriteAfterLoop = true
		}
	}
	if g, ok := in.(*ssa.Go); ok && !fc.InGoroutine() && r.inLoopNow(st) {
		r.spawnSites[g.Pos()] = true
		// the spawner's view: this registration has been handed to a goroutine
		if s.D < 2 {
			s.D++
		}
		// undo for the goroutine fork? The fork copies sigma *before* this update because
		// OnInstr runs first; so the goroutine would see D already incremented: handled in OnEnter
		st.Note(in.Pos(), "async dispatch (go)")
	}
	return false
}

// isPublishCtxV: by canonical name along the path, or structurally (a context that went
// through a pipeline helper such as beginPublish).
func (r *deliveryRule) isPublishCtxV(e *Engine, fc *FrameCtx, v ssa.Value) bool {
	if r.isPublishCtx(e.CanonS(fc, v)) {
		return true
	}
	if r.ctxOracle == nil {
		r.ctxOracle = newPubCtxOracle(e.P, r.R, e.cells)
	}
	av, _ := e.ArgValue(fc, v)
	return r.ctxOracle.is(v) || r.ctxOracle.is(av)
}

func (r *deliveryRule) isPublishCtx(c string) bool {
	for _, x := range r.ctxCanons {
		if strings.HasPrefix(x, "v:") {
			if c == x {
				return true
			}
			continue
		}
		if strings.HasPrefix(c, x) {
			return true
		}
	}
	return false
}

func (r *deliveryRule) noteH(rc string) {
	if r.hCanon == "" {
		r.hCanon = rc
	}
}

func (r *deliveryRule) OnBranch(e *Engine, st *State, fc *FrameCtx, in *ssa.If, taken bool) {
	s := parseDeliv(st.Sigma)
	defer func() { st.Sigma = s.String() }()
	cond, pol := condStrip(in.Cond)
	val := taken == pol
	// filter nil test
	if x, nonNilOnTrue, ok := nilTest(in.Cond); ok {
		if fld, rc, ok := r.ev.regFieldLoad(fc, x); ok && fld == r.R.RegFilter {
			r.noteH(rc)
			if taken == nonNilOnTrue {
				if s.F == 'u' {
					s.F = 'p'
				}
			} else {
				s.F = 'n'
			}
			return
		}
	}
	// filter type assertion outcome
	if ex, ok := cond.(*ssa.Extract); ok && ex.Index == 1 {
		if ta, ok := ex.Tuple.(*ssa.TypeAssert); ok {
			if fld, _, ok := r.ev.regFieldLoad(fc, ta.X); ok && fld == r.R.RegFilter && !val {
				s.F = 'w'
				return
			}
		}
	}
	// filter result
	if call, ok := cond.(*ssa.Call); ok {
		if _, _, ok := r.ev.filterCall(fc, call); ok {
			if val {
				s.F = 't'
			} else {
				s.F = 'f'
			}
			return
		}
		// claim outcome
		if _, kind, ok := r.ev.claimOp(fc, call); ok && kind == "cas01" {
			if val {
				s.C = 'w'
				st.Note(in.Pos(), "claim won")
			} else {
				s.C = 'l'
			}
			return
		}
	}
	// swap1 outcome: (swap(...) == 0)
	if bo, ok := cond.(*ssa.BinOp); ok && (bo.Op == token.EQL || bo.Op == token.NEQ) {
		if call, ok := bo.X.(*ssa.Call); ok {
			if _, kind, ok := r.ev.claimOp(fc, call); ok && kind == "swap1" {
				if k, ok := bo.Y.(*ssa.Const); ok && k.Value != nil && k.Int64() == 0 {
					won := val == (bo.Op == token.EQL)
					if won {
						s.C = 'w'
					} else {
						s.C = 'l'
					}
					return
				}
			}
		}
	}
	// emptiness test of the retirement list after the loop: its outcome is fixed by
	// whether this publish queued anything
	if bo, ok := cond.(*ssa.BinOp); ok && !fc.InGoroutine() && !r.inLoopNow(st) {
		nonEmptyOnTrue, lst, ok := lenTest(bo)
		if ok {
			// inside a helper the list is a parameter: look at the caller's argument
			lst, _ = e.ArgValue(fc, lst)
		}
		if ok && typeName(elemType(lst.Type())) == r.R.RegName() && derivesFromAppend(lst, 0, map[ssa.Value]bool{}) {
			nonEmpty := val == nonEmptyOnTrue
			if (s.A == 'y') != nonEmpty {
				st.Kill()
			}
			return
		}
	}
	// select outcome of a context poll
	if sel, k, ok := selectArm(cond); ok {
		if _, idx, _, ok := ctxDoneSelect(sel); ok {
			if (k == idx) == val {
				s.P = 'd'
				st.Note(in.Pos(), "context is done")
			} else if !sel.Blocking && len(sel.States) == 1 {
				s.P = 'l'
			}
			return
		}
	}
	// the same poll written as `ctx.Err() != nil` (non-blocking by construction)
	if x, nonNilOnTrue, ok := nilTest(in.Cond); ok {
		if call, isCall := stripConv(x).(*ssa.Call); isCall && call.Common().IsInvoke() && call.Common().Method.Name() == "Err" && isNamed(call.Common().Value.Type(), "context", "Context") {
			r.pollSites[call.Pos()] = true
			if cv := e.CanonS(fc, call.Common().Value); !r.isPublishCtxV(e, fc, call.Common().Value) {
				e.Report(st, in.Pos(), "PublishContext/context-gate/which-context", "the polled context (%s) is not the publish context", cv)
			}
			if taken == nonNilOnTrue {
				s.P = 'd'
				st.Note(in.Pos(), "context is done")
			} else {
				s.P = 'l'
			}
			return
		}
	}
	// once flag test
	if fld, rc, ok := r.ev.regFieldLoad(fc, cond); ok {
		r.noteH(rc)
		if fld == r.R.RegOnce {
			if val {
				s.O = 'y'
			} else {
				s.O = 'n'
			}
		}
		return
	}
	// reflective guard: a branch on Kind()/NumIn() of the handler type that avoids the call
	if s.X == 'y' {
		// reflective guard facts: Kind() != Func, NumIn() != 1, NumIn() != 2 (established by
		// the branch outcomes, whatever the polarity the source uses)
		if bo, ok := cond.(*ssa.BinOp); ok && (bo.Op == token.EQL || bo.Op == token.NEQ) && refersToHandlerType(r, bo.X) {
			if k, ok := bo.Y.(*ssa.Const); ok && k.Value != nil {
				equal := val == (bo.Op == token.EQL)
				if call, ok := stripConv(bo.X).(*ssa.Call); ok && call.Common().IsInvoke() {
					bits := s.G - '0'
					switch call.Common().Method.Name() {
					case "Kind":
						if k.Int64() == 19 { // reflect.Func
							if equal {
								bits &^= 1
							} else {
								bits |= 1
							}
						}
					case "NumIn":
						if k.Int64() == 1 && !equal {
							bits |= 2
						}
						if k.Int64() == 2 && !equal {
							bits |= 4
						}
					}
					s.G = '0' + bits
				}
			}
		}
	}
}

// excused: the handler type was found not to be a function, or a function with neither
// one nor two parameters — the only handler values the reflective fallback cannot call
// (Subscribe's typing rules them out).
func excused(g byte) bool {
	bits := g - '0'
	return bits&1 != 0 || bits&6 == 6
}

func refersToHandlerType(r *deliveryRule, v ssa.Value) bool {
	seen := map[ssa.Value]bool{}
	var walk func(v ssa.Value, d int) bool
	walk = func(v ssa.Value, d int) bool {
		if v == nil || seen[v] || d > 6 {
			return false
		}
		seen[v] = true
		if tn, fld, _, ok := fieldLoad(v); ok && tn == r.R.RegName() && fld == r.R.RegHandlerType {
			return true
		}
		switch x := v.(type) {
		case *ssa.BinOp:
			return walk(x.X, d+1) || walk(x.Y, d+1)
		case *ssa.UnOp:
			return walk(x.X, d+1)
		case *ssa.Call:
			if x.Common().IsInvoke() {
				return walk(x.Common().Value, d+1)
			}
			for _, a := range x.Common().Args {
				if walk(a, d+1) {
					return true
				}
			}
		case *ssa.Phi:
			for _, ed := range x.Edges {
				if walk(ed, d+1) {
					return true
				}
			}
		}
		return false
	}
	return walk(v, 0)
}

func (r *deliveryRule) OnEdge(e *Engine, st *State, fc *FrameCtx, from, to *ssa.BasicBlock) {
	if fc.fn != r.R.LoopFn || fc.InGoroutine() {
		return
	}
	body := r.loops.body[r.header]
	if to == r.header && body[from] {
		// iteration ends
		s := parseDeliv(st.Sigma)
		r.endOfDelivery(e, st, s, from.Instrs[len(from.Instrs)-1].Pos(), "PublishContext/dispatch-loop/iteration-end")
		st.Sigma = freshIter(s).String()
	} else if to == r.header && !body[from] {
		s := parseDeliv(st.Sigma)
		st.Sigma = freshIter(s).String()
	}
}

// endOfDelivery checks the state at the end of one registration's delivery attempt in
// the publisher (loop iteration end).
func (r *deliveryRule) endOfDelivery(e *Engine, st *State, s delivSigma, pos token.Pos, construct string) {
	if s.C == 'w' && s.D == 0 {
		e.Report(st, pos, construct+"/claim-wasted", "a once handler was claimed but the iteration ends without dispatching it: the handler is used up without running")
	}
	if s.C == 'w' && s.R != 'y' {
		e.Report(st, pos, construct+"/claim-not-retired", "a once handler was claimed and dispatched but is not queued for removal from the registry")
	}
	if s.D == 0 {
		// a skip must be one of the recognised ones
		if !(s.F == 'f' || s.P == 'd' || s.C == 'l') {
			e.Report(st, pos, construct+"/silent-skip", "a registration is skipped without a recognised reason (filter rejected / context done / claim lost); state filter=%c poll=%c claim=%c", s.F, s.P, s.C)
		}
	}
}

func (r *deliveryRule) OnExit(e *Engine, st *State, kind ExitKind) {
	s := parseDeliv(st.Sigma)
	switch kind {
	case ExitGoroutine:
		if s.C == 'w' && s.I == 0 && !excused(s.G) {
			e.Report(st, token.NoPos, "PublishContext/async-goroutine/claim-wasted", "an async once handler was claimed but its goroutine exits without invoking it")
		}
		if s.I == 0 && s.P != 'd' && !excused(s.G) && s.C != 'w' {
			e.Report(st, token.NoPos, "PublishContext/async-goroutine/silent-skip", "the async goroutine exits without invoking the handler although the context was not found done")
		}
	case ExitPanic:
		e.Report(st, token.NoPos, "PublishContext/panic-escapes", "a handler panic propagates out of PublishContext to the publisher")
	case ExitGoroutinePanic:
		e.Report(st, token.NoPos, "PublishContext/async-goroutine/panic-escapes", "a handler panic escapes the async goroutine (would crash the process)")
	case ExitReturn:
		if s.A == 'y' && s.M != 'y' {
			e.Report(st, token.NoPos, "PublishContext/retirement-region", "once handlers were claimed during the publish but PublishContext returns without removing them from the registry")
		}
	}
}

// runDelivery runs the delivery automaton and files obligations under the given rule ids.
// ruleOf maps a construct to the rule id it belongs to.
func runDelivery(c *Ctx, p *Prog, R *BusRoles, ruleOf func(construct string) string, want map[string]string) {
	e := NewEngine(p)
	e.StepOver = true
	rn := R.RegName()
	for _, f := range []string{R.RegOnce, R.RegAsync, R.RegSeq, R.RegFilter, R.RegHandler, R.RegHandlerType} {
		e.Immutable[rn+"."+f] = true
	}
	r := &deliveryRule{R: R, c: c, invSites: map[token.Pos]bool{}, claimSites: map[token.Pos]bool{}, pollSites: map[token.Pos]bool{}, filterSites: map[token.Pos]bool{}, dispatchSites: map[token.Pos]bool{}, spawnSites: map[token.Pos]bool{}}
	r.ev = &busEvents{R: R, E: e}
	if len(R.PublishFn.Params) == 3 {
		fnm := fnName(R.PublishFn)
		r.eventCanon = "param:" + fnm + "." + R.PublishFn.Params[2].Name()
		cn := R.PublishFn.Params[1].Name()
		r.ctxCanons = append([]string{"param:" + fnm + "." + cn, "cell:" + fnm + "." + cn + "@"}, publishCtxPhiCanons(R.PublishFn)...)
	} else {
		c.Unresolved("DELIVERY", "UNRESOLVED-ANCHOR/PublishContext-signature", "PublishContext no longer has the (bus, ctx, event) signature")
		return
	}
	r.loops = loopsOf(R.LoopFn)
	r.header = dispatchLoopHeader(R)
	if r.header == nil {
		c.Unresolved("DELIVERY", "UNRESOLVED-ANCHOR/dispatch-loop", "no loop in PublishContext contains a dispatch (call of the dispatch function or go statement)")
		return
	}
	e.Run(r, R.PublishFn, freshIter(delivSigma{A: 'n', M: 'n'}).String())
	c.Stats["product_states"] += e.States
	c.Stats["handler_invocation_sites"] = len(r.invSites)
	c.Stats["claim_sites"] = len(r.claimSites)
	c.Stats["context_poll_sites"] = len(r.pollSites)
	c.Stats["filter_call_sites"] = len(r.filterSites)
	c.Stats["dispatch_sites"] = len(r.dispatchSites)
	c.Stats["spawn_sites"] = len(r.spawnSites)
	if e.Exhausted {
		c.Unresolved("DELIVERY", "engine/state-budget", "delivery automaton exceeded its state budget")
	}
	// findings → obligations of the rules the caller asked for
	hit := map[string]bool{}
	for _, f := range e.Findings {
		rule := ruleOf(f.Construct)
		as, ok := want[rule]
		if !ok {
			continue
		}
		hit[rule] = true
		c.Violate(as, f.Construct, p.Pos(f.Pos), f.Msg, f.Trace)
	}
	// discharged obligations: one per rule-relevant site class
	dis := func(rule, construct, detail string) {
		if as, ok := want[rule]; ok {
			c.Discharge(as, construct, "", detail)
		}
	}
	for pos := range r.invSites {
		dis("C05.R1", "dispatch-fn/invocation#"+siteOrd(r.invSites, pos), "panic edge of this invocation is absorbed by a deferred recover of the same frame; no PanicEscapes reachable")
		dis("C04.R2", "dispatch-fn/invocation#"+siteOrd(r.invSites, pos), "invocation reachable on every path through the dispatch function for this handler kind")
	}
	for pos := range r.claimSites {
		dis("C04.R1", "PublishContext/claim#"+siteOrd(r.claimSites, pos), "every dispatch of a once registration is control-dependent on the success edge of this atomic claim")
		dis("C04.R3", "PublishContext/claim#"+siteOrd(r.claimSites, pos), "claim attempted only after filter pass and live context poll")
	}
	for pos := range r.pollSites {
		dis("C08.R1", "context-poll#"+siteOrd(r.pollSites, pos), "non-blocking poll of the publish context whose done arm skips the invocation")
	}
	for pos := range r.filterSites {
		dis("C01.R4", "PublishContext/filter-call#"+siteOrd(r.filterSites, pos), "filter evaluated on the published event before dispatch")
	}
	for pos := range r.dispatchSites {
		dis("C01.R4", "PublishContext/dispatch#"+siteOrd(r.dispatchSites, pos), "at most one dispatch per registration per publish; skips only for filter/context/claim")
		dis("C08.R1", "PublishContext/dispatch#"+siteOrd(r.dispatchSites, pos), "dispatch preceded by a live poll of the publish context in the same delivery")
		dis("C04.R4", "PublishContext/dispatch#"+siteOrd(r.dispatchSites, pos), "claimed registrations are queued for retirement before the iteration ends")
	}
	if as, ok := want["C04.R4"]; ok {
		c.Check(r.sawRegistryWriteAfterLoop, as, "PublishContext/retirement-region", "", "registry write-back after the dispatch loop present", "no registry write-back after the dispatch loop: claimed once handlers are never removed")
	}
}

// siteKey names a site by enclosing function and ordinal of the position within it
// (stable under unrelated edits elsewhere in the file; not a line number).
// siteOrd: the rank of pos among the sites of its kind (obligations are keyed by ordinal,
// not by line, so that moving code does not rename them).
func siteOrd(set map[token.Pos]bool, pos token.Pos) string {
	n := 1
	for q := range set {
		if q < pos {
			n++
		}
	}
	return fmt.Sprintf("%d", n)
}

// lenTest: bo compares len(x) with 0; returns whether the true outcome means non-empty.
func lenTest(bo *ssa.BinOp) (nonEmptyOnTrue bool, x ssa.Value, ok bool) {
	call, isCall := bo.X.(*ssa.Call)
	k, isConst := bo.Y.(*ssa.Const)
	if !isCall || !isConst || k.Value == nil || k.Int64() != 0 {
		return false, nil, false
	}
	if b, isB := call.Common().Value.(*ssa.Builtin); !isB || b.Name() != "len" || len(call.Common().Args) != 1 {
		return false, nil, false
	}
	switch bo.Op {
	case token.GTR, token.NEQ:
		return true, call.Common().Args[0], true
	case token.EQL, token.LEQ:
		return false, call.Common().Args[0], true
	}
	return false, nil, false
}

func elemType(t types.Type) types.Type {
	if s, ok := t.Underlying().(*types.Slice); ok {
		return s.Elem()
	}
	return t
}

func derivesFromAppend(v ssa.Value, d int, seen map[ssa.Value]bool) bool {
	if v == nil || seen[v] || d > 6 {
		return false
	}
	seen[v] = true
	switch x := v.(type) {
	case *ssa.Phi:
		for _, ed := range x.Edges {
			if derivesFromAppend(ed, d+1, seen) {
				return true
			}
		}
	case *ssa.Call:
		if b, ok := x.Common().Value.(*ssa.Builtin); ok && b.Name() == "append" {
			return true
		}
		// the list a helper of the package built and returned
		if sc := x.Common().StaticCallee(); sc != nil && len(sc.Blocks) > 0 {
			if o := sc.Origin(); o != nil {
				sc = o
			}
			for _, ret := range returnsOf(sc) {
				for _, rv := range ret.Results {
					if derivesFromAppend(resolveResultValue(ret, rv), d+1, seen) {
						return true
					}
				}
			}
		}
	case *ssa.Extract:
		return derivesFromAppend(x.Tuple, d+1, seen)
	}
	return false
}

// resolveResultValue: like resolveResult for a given result value of ret.
func resolveResultValue(ret *ssa.Return, rv ssa.Value) ssa.Value {
	for i, r := range ret.Results {
		if r == rv {
			return resolveResult(ret, i)
		}
	}
	return rv
}
