package main

func init() {
	register("C15", &PropDef{
		Explain: "Agreement between all name-deriving code paths, decided by provenance (E-FLOW) and declarative facts: (R1) single derivation — the persisted Event.Type originates only from EventType(event); every comparison of a stored type name (StoredEvent.Type or an upcast result) with a Go type's name, and the from/to names of typed upcast registrations, originate only from EventType or the typed helper that delegates to it; EventType itself has exactly two name sources (TypeNamer.EventTypeName() iff the event implements TypeNamer, else reflect.TypeOf(event).String()); the typed helper returns EventType(value of dynamic type T) when T itself implements TypeNamer and T's reflection name otherwise — a raw reflect.Type.String() reaching a sink is a violation (the shard hash is not a sink); (R2) the state package's ChangeMessage and ControlMessage implement TypeNamer on value receivers. Not decided: what user EventTypeName methods return.",
		Run: func(c *Ctx) {
			c.Rule("C15.R1", "single derivation of type names: every sink is fed by EventType / the typed helper that agrees with it")
			c.Rule("C15.R2", "state.ChangeMessage / state.ControlMessage implement TypeNamer on value receivers")
			p, R := busRoles(c, "C15.R1")
			if R == nil {
				return
			}
			checkEventTypeSpec(c, p, R, "C15.R1")
			hs := typedNameHelpers(p, R)
			for _, h := range hs {
				checkTypedHelperSpec(c, p, R, "C15.R1", h)
			}
			checkNameSinks(c, p, R, "C15.R1")
			runPersist(c, p, R, map[string]string{"C09.R3": "C15.R1"})
			checkStoredEventsNotRewritten(c, p, "C15.R1")
			c.Floor("C15.R1", "stored-type comparisons", c.Stats["stored_type_comparisons"], 1)
			c.Floor("C15.R1", "typed register arguments", c.Stats["typed_register_args"], 2)
			checkTypeNamerImpl(c, p, "C15.R2", PkgState, []string{"ChangeMessage", "ControlMessage"})
			c.Assume = append(c.Assume, "EventTypeName methods are pure (return the same name for every value of the type)")
		},
	})
}
