package main

func init() {
	register("C10", &PropDef{
		Explain: "Mostly a statement about runtime values; decided are sibling-agreement and ownership clauses across the three bundled stores: (R1) conformance table (types.Implements): memory, SQLite and durable-streams implement EventStore, memory and SQLite also EventStoreStreamer and SubscriptionStore; (R2) the next offset returned on a success return of each Read depends on the last event placed in the result whenever the function can cut its result to the limit; per-event offsets are store-issued positions, not synthesised from a chunk position; (R3) an offset that a bundled Append builds from an integer uses a fixed-width zero-padded decimal of at least 19 digits (server-issued opaque offsets are a table exemption); (R4) isolation: no run-time writer of package-level state, and the data source name handed to the database opener depends on the store's own path or a per-store unique value on every alternative; (R5) append-only ownership: the in-memory log is written only as append(log, x) in Append and its elements are never stored to; SQL on `events` is plain INSERT with database-assigned positions and SELECT, on `subscription_positions` the exact upsert and SELECT; no destructive SQL; (R6) siblings agree on the read predicate (strictly after the offset, in log order; limit<=0 unlimited; unknown subscription id is OffsetOldest); the memory store takes its offset and appends under one write lock; SQLite's Append binds the event's field values unchanged. Not decided: type/data/timestamp fidelity through the driver and JSON, uniqueness of server offsets, equality of streamed and paged sequences as values. Added: (R2) the next offset is the last returned event's (path rule on the incremental idiom, positional rule otherwise); (R6) fresh decode targets in read loops; the read predicate is evaluated on the abstract cases before/at/after the start offset; (R7) no store function turns an error it found into a nil error result.",
		Run: func(c *Ctx) {
			c.Rule("C10.R1", "conformance table of the bundled stores")
			c.Rule("C10.R2", "next offset follows the returned events; event offsets are store-issued")
			c.Rule("C10.R3", "integer-built offsets are fixed-width zero-padded (lexicographic = numeric order)")
			c.Rule("C10.R4", "isolation: no package state; DSN depends on the store's own path / unique value")
			c.Rule("C10.R5", "append-only ownership of the log and the saved positions")
			c.Rule("C10.R6", "sibling agreement on read predicate, limit semantics, unknown subscription")
			p := c.Prog(ModRoot)
			ps := c.Prog(ModSQLite)
			pd := c.Prog(ModDurable)
			if p == nil || ps == nil || pd == nil {
				return
			}
			checkConformance(c, "C10.R1", p, PkgBus, "MemoryStore", []string{"EventStore", "EventStoreStreamer", "SubscriptionStore"})
			checkConformance(c, "C10.R1", ps, PkgSQLite, "SQLiteStore", []string{"EventStore", "EventStoreStreamer", "SubscriptionStore"})
			checkConformance(c, "C10.R1", pd, PkgDurable, "Store", []string{"EventStore"})
			checkReadNextOffset(c, p, PkgBus, "MemoryStore", "C10.R2")
			checkReadNextOffset(c, ps, PkgSQLite, "SQLiteStore", "C10.R2")
			checkNextOffsetIsLast(c, p, PkgBus, "MemoryStore", "C10.R2")
			checkNextOffsetIsLast(c, ps, PkgSQLite, "SQLiteStore", "C10.R2")
			checkReadNextOffset(c, pd, PkgDurable, "Store", "C10.R2")
			checkEventOffsets(c, p, PkgBus, "MemoryStore", "C10.R2")
			checkEventOffsets(c, ps, PkgSQLite, "SQLiteStore", "C10.R2")
			checkEventOffsets(c, pd, PkgDurable, "Store", "C10.R2")
			c.Floor("C10.R2", "event offset stores", c.Stats["event_offset_stores"], 4)
			checkOffsetFormat(c, p, PkgBus, "MemoryStore", "C10.R3")
			checkOffsetFormat(c, ps, PkgSQLite, "SQLiteStore", "C10.R3")
			checkOffsetFormat(c, pd, PkgDurable, "Store", "C10.R3")
			checkDSN(c, ps, "C10.R4")
			checkGlobals(c, p, "C10.R4", []string{PkgBus})
			checkGlobals(c, ps, "C10.R4", []string{PkgSQLite})
			checkGlobals(c, pd, "C10.R4", []string{PkgDurable})
			stmts := checkSQLOwnership(c, ps, "C10.R5")
			checkMemoryLogOwnership(c, p, "C10.R5")
			checkSelectSiblings(c, stmts, "C10.R6")
			checkMemoryPredicate(c, p, "C10.R6")
			checkLimitSemantics(c, p, PkgBus, "MemoryStore", "C10.R6")
			checkLimitSemantics(c, ps, PkgSQLite, "SQLiteStore", "C10.R6")
			checkLimitSemantics(c, pd, PkgDurable, "Store", "C10.R6")
			checkLoadOffsetNotFound(c, p, PkgBus, "MemoryStore", "C10.R6")
			checkLoadOffsetNotFound(c, ps, PkgSQLite, "SQLiteStore", "C10.R6")
			checkMemoryStoreAppend(c, p, "C10.R6")
			checkAppendBinds(c, ps, "C10.R6")
			checkBatchedStream(c, ps, "C10.R6")
			checkTimestampLayout(c, pd, "C10.R6")
			checkLimitUses(c, p, PkgBus, "MemoryStore", "C10.R6")
			checkLimitUses(c, ps, PkgSQLite, "SQLiteStore", "C10.R6")
			checkLimitUses(c, pd, PkgDurable, "Store", "C10.R6")
			c.Rule("C10.R7", "store functions never turn an error they found into a nil error result")
			checkErrorsPropagated(c, ps, PkgSQLite, "C10.R7")
			checkErrorsPropagated(c, pd, PkgDurable, "C10.R7")
			c.Floor("C10.R7", "error tests in the store packages", c.Stats["error_tests_"+PkgSQLite]+c.Stats["error_tests_"+PkgDurable], 20)
			checkStoreDecodeTargets(c, ps, PkgSQLite, "C10.R6")
			checkStoreDecodeTargets(c, pd, PkgDurable, "C10.R6")
			c.Floor("C10.R6", "decode sites in the store packages", c.Stats["decode_sites"], 4)
			c.Assume = append(c.Assume, "SQLite's AUTOINCREMENT and ORDER BY semantics", "the durable-streams protocol's offsets sort in append order", "database/sql stores and returns time.Time and []byte values faithfully (not decided; a probe showed Read failing on timestamps in unnamed fixed zones)")
		},
	})
	register("C11", &PropDef{
		Explain: "Structural necessary conditions of 'Replay delivers every event after the offset, or says that it did not': (R1) row-iteration error discipline: for every loop driven by Next() of a value that also has Err() (three sites in the SQLite store), every path from Next()==false to a return passes a tested Err() on it; (R2) Replay returns nil only on exhaustion: streaming path — the range-over-func body continues only when the yielded error is nil and the callback, called once on the yielded event, succeeded, and every early stop records a non-nil error; paged path — every exit of the paging loop that can reach `return nil` is the empty-page exit, the Read error and callback error arms return errors, every event of a page reaches the callback, the cursor is the store's returned next offset, a non-advancing cursor ends with an error, and the context is polled before every page; (R3) iterator protocol of the bundled streams: no yield after a yielded error or a false answer, and every error found inside (offset parse, query, scan, close, cancelled context) reaches yield(nil, err) before the iterator ends; (R4) replay is read-only: no static call path from Replay/ReplayWithUpcast/the replay callback of SubscribeWithReplay to Append, the persist function, PublishContext or the dispatch function; Append has one caller; (R5) = C10.R2 for stores used through the paged path. Not decided: completeness for every (batch size, length, failure position) as executions; store query semantics. (R6) no read function of the bus or the stores turns an error it found into a nil result (a failed read is not an empty page); R5 also decides that the next offset is that of the last returned event.",
		Run: func(c *Ctx) {
			c.Rule("C11.R1", "row loops consult Err() after Next() returned false")
			c.Rule("C11.R2", "Replay returns nil only on exhaustion (stream and paged paths)")
			c.Rule("C11.R3", "iterator protocol of the bundled ReadStreams")
			c.Rule("C11.R4", "replay is read-only")
			c.Rule("C11.R5", "paged stores return a next offset that follows the returned events")
			p, R := busRoles(c, "C11.R2")
			ps := c.Prog(ModSQLite)
			pd := c.Prog(ModDurable)
			if R == nil || ps == nil || pd == nil {
				return
			}
			checkRowsErr(c, ps, PkgSQLite, "C11.R1")
			checkReplayStream(c, p, R, "C11.R2")
			checkReplayPaged(c, p, R, "C11.R2")
			checkIterProtocol(c, p, PkgBus, "MemoryStore", "C11.R3")
			checkIterProtocol(c, ps, PkgSQLite, "SQLiteStore", "C11.R3")
			checkBatchedStream(c, ps, "C11.R3")
			checkMemoryStreamPolls(c, p, "C11.R3")
			c.Rule("C11.R6", "store read functions never turn an error they found into a nil error result (a failed read is not an empty page)")
			checkErrorsPropagated(c, p, PkgBus, "C11.R6", errSwallow{PkgBus, "", R.ApplyFn.String(), "", "a failed upcast falls back to the stored event as it is (all-or-nothing application; the fallback is decided under C17.R2)"})
			checkErrorsPropagated(c, ps, PkgSQLite, "C11.R6")
			checkErrorsPropagated(c, pd, PkgDurable, "C11.R6")
			checkStoreDecodeTargets(c, ps, PkgSQLite, "C11.R3")
			checkStoreDecodeTargets(c, pd, PkgDurable, "C11.R3")
			checkMaterializerReplay(c, p, "C11.R2")
			checkReplayReadOnly(c, p, R, "C11.R4")
			checkReadNextOffset(c, pd, PkgDurable, "Store", "C11.R5")
			checkReadNextOffset(c, p, PkgBus, "MemoryStore", "C11.R5")
			checkReadNextOffset(c, ps, PkgSQLite, "SQLiteStore", "C11.R5")
			checkNextOffsetIsLast(c, p, PkgBus, "MemoryStore", "C11.R5")
			checkNextOffsetIsLast(c, ps, PkgSQLite, "SQLiteStore", "C11.R5")
			c.Assume = append(c.Assume, "database/sql: Rows.Next returns false on error and Rows.Err reports it", "a cancelled context makes the driver fail Next (the batched SQLite stream polls per batch only)")
		},
	})
	register("C14", &PropDef{
		Explain: "The durability guarantee itself is SQLite's; decided are the conditions under which ebu gets it: (R1) Append and SaveOffset return nil only on paths dominated by the synchronous Exec of their statement with its error tested nil, on the database handle directly (auto-commit; an explicit transaction would have to be committed first); (R2) the pragmas applied at open set journal_mode to a crash-safe mode (not OFF/MEMORY), do not switch synchronous off, and every pragma error is propagated out of New; (R3) migration: every DDL string is CREATE … IF NOT EXISTS, steps are guarded by the stored schema version, schema statements run through a transaction that is committed on success (Commit's error returned) and rolled back by a deferred call whenever the function's error result is non-nil; (R4) no destructive SQL on the log or the saved positions, AUTOINCREMENT positions assigned by the database, and no call in the package that deletes, truncates, renames or overwrites files (WAL/SHM side files hold acknowledged commits after an unclean shutdown). Not decided: behaviour under SIGKILL, WAL recovery, fsync policy effects. (R5) no store function reports success after a database call failed; R4 also covers fresh decode targets (the recovered log is the acknowledged sequence, object by object).",
		Run: func(c *Ctx) {
			c.Rule("C14.R1", "acknowledge only after the statement completed without error (auto-commit)")
			c.Rule("C14.R2", "crash-safe journal configuration; pragma errors propagated")
			c.Rule("C14.R3", "idempotent, version-guarded, transactional migration")
			c.Rule("C14.R4", "no destructive SQL or file operations; database-assigned positions")
			ps := c.Prog(ModSQLite)
			if ps == nil {
				return
			}
			checkAck(c, ps, "C14.R1", "Append")
			checkAck(c, ps, "C14.R1", "SaveOffset")
			stmts := checkSQLOwnership(c, ps, "C14.R4")
			checkJournal(c, ps, stmts, "C14.R2")
			checkMigration(c, ps, stmts, "C14.R3")
			checkNoFileDestruction(c, ps, "C14.R4")
			checkStoreDecodeTargets(c, ps, PkgSQLite, "C14.R4")
			c.Rule("C14.R5", "no SQLite store function reports success after a database call failed")
			checkErrorsPropagated(c, ps, PkgSQLite, "C14.R5")
			checkDSN(c, ps, "C14.R4")
			c.Floor("C14.R4", "SQL statements", c.Stats["sql_statements"], 10)
			c.Assume = append(c.Assume, "SQLite in WAL mode with synchronous=NORMAL keeps committed transactions across process death (not power loss)", "modernc.org/sqlite implements database/sql correctly")
		},
	})
}
