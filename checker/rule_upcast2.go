package main

import (
	"go/token"
	"strings"

	"golang.org/x/tools/go/ssa"
)

// checkRegisterTailInsert (C17.R4): register appends the new upcaster at the tail of the
// list of its source type and never rewrites existing entries.
func checkRegisterTailInsert(c *Ctx, p *Prog, R *BusRoles, rule string) {
	f := R.RegisterFn
	ok := false
	for _, b := range f.Blocks {
		for _, in := range b.Instrs {
			switch x := in.(type) {
			case *ssa.MapUpdate:
				if _, isUp := R.isUpMapLoad(x.Map); !isUp {
					continue
				}
				call, isCall := stripConv(x.Value).(*ssa.Call)
				if isCall {
					if bi, isB := call.Common().Value.(*ssa.Builtin); isB && bi.Name() == "append" && len(call.Common().Args) == 2 {
						if lk, isLk := stripConv(call.Common().Args[0]).(*ssa.Lookup); isLk {
							if _, isUp := R.isUpMapLoad(lk.X); isUp && sameValue(lk.Index, x.Key) && stripConv(x.Key) == ssa.Value(f.Params[1]) {
								ok = true
							}
						}
					}
				}
				if !ok {
					c.Violate(rule, "register/tail-insertion", p.Pos(in.Pos()), "register does not store append(list of the source type, new upcaster): registration order (first-registered wins) is not preserved", nil)
				}
			case *ssa.Store:
				if ia, isIA := x.Addr.(*ssa.IndexAddr); isIA {
					if lk, isLk := stripConv(ia.X).(*ssa.Lookup); isLk {
						if _, isUp := R.isUpMapLoad(lk.X); isUp {
							ok = false
							c.Violate(rule, "register/no-in-place-rewrite", p.Pos(in.Pos()), "register overwrites an existing entry of the upcaster list in place: a later registration replaces the first-registered upcaster", nil)
							return
						}
					}
				}
				if fa, isFA := x.Addr.(*ssa.FieldAddr); isFA {
					if ia, isIA := fa.X.(*ssa.IndexAddr); isIA {
						if lk, isLk := stripConv(ia.X).(*ssa.Lookup); isLk {
							if _, isUp := R.isUpMapLoad(lk.X); isUp {
								ok = false
								c.Violate(rule, "register/no-in-place-rewrite", p.Pos(in.Pos()), "register rewrites a field of an already registered upcaster", nil)
								return
							}
						}
					}
				}
			}
		}
	}
	if ok {
		c.Discharge(rule, "register/tail-insertion", p.Pos(f.Pos()), "upcasters[from] = append(upcasters[from], new); existing entries are never rewritten")
	}
}

// checkUpcastCallers (C17.R2): callers of apply deliver the upcast result only when
// apply succeeded and otherwise the stored event.
func checkUpcastCallers(c *Ctx, p *Prog, R *BusRoles, rule string) {
	n := 0
	callers := map[*ssa.Function]bool{}
	for _, f := range p.FuncsIn(PkgBus) {
		for _, b := range f.Blocks {
			for _, in := range b.Instrs {
				call, ok := in.(*ssa.Call)
				if !ok {
					continue
				}
				sc := call.Common().StaticCallee()
				if sc == nil || sc != R.ApplyFn {
					continue
				}
				n++
				callers[f] = true
				name := FuncDisplay(f)
				var errEx *ssa.Extract
				var resEx []*ssa.Extract
				for _, ref := range *call.Referrers() {
					if ex, ok := ref.(*ssa.Extract); ok {
						if ex.Index == 2 {
							errEx = ex
						} else {
							resEx = append(resEx, ex)
						}
					}
				}
				// the block(s) in which err == nil holds
				var okSucc *ssa.BasicBlock
				if errEx != nil {
					for _, ref := range *errEx.Referrers() {
						bo, ok := ref.(*ssa.BinOp)
						if !ok {
							continue
						}
						for _, r2 := range *bo.Referrers() {
							if iff, ok := r2.(*ssa.If); ok {
								if x, nonNilOnTrue, ok := nilTest(iff.Cond); ok && stripConv(x) == ssa.Value(errEx) {
									if nonNilOnTrue {
										okSucc = iff.Block().Succs[1]
									} else {
										okSucc = iff.Block().Succs[0]
									}
								}
							}
						}
					}
				}
				if okSucc == nil {
					c.Violate(rule, name+"/apply-error-tested", p.Pos(in.Pos()), "the error returned by apply is not tested: a failed or partial upcast is delivered as if it had succeeded", nil)
					continue
				}
				good := true
				for _, ex := range resEx {
					for _, ref := range *ex.Referrers() {
						useBlk := ref.Block()
						if ph, ok := ref.(*ssa.Phi); ok {
							// the use happens on the incoming edge
							for i, ed := range ph.Edges {
								if ed == ssa.Value(ex) {
									useBlk = ph.Block().Preds[i]
								}
							}
						}
						if !(okSucc == useBlk || (okSucc.Dominates(useBlk) && len(okSucc.Preds) == 1)) {
							good = false
							c.Violate(rule, name+"/upcast-result-only-on-success", p.Pos(ref.Pos()), "a result of apply (data or type) is used on a path on which apply's error is not known to be nil: on failure the callback sees something other than the stored event", nil)
						}
					}
				}
				if good {
					c.Discharge(rule, name+"/upcast-result-only-on-success", p.Pos(in.Pos()), "apply's data/type results are used only under err == nil; otherwise the stored event's own data/type flow on")
				}
				// where a new StoredEvent is built from the results: Offset and Timestamp come from the original
				for _, ex := range resEx {
					for _, ref := range *ex.Referrers() {
						st, ok := ref.(*ssa.Store)
						if !ok {
							continue
						}
						tn, _, base, ok := fieldOfAddr(st.Addr)
						if !ok || tn != "StoredEvent" {
							continue
						}
						al, ok := stripConv(base).(*ssa.Alloc)
						if !ok {
							continue
						}
						got := map[string]string{}
						for _, r2 := range *al.Referrers() {
							fa, ok := r2.(*ssa.FieldAddr)
							if !ok {
								continue
							}
							fld := fieldName(fa.X.Type(), fa.Field)
							for _, r3 := range *fa.Referrers() {
								if s2, ok := r3.(*ssa.Store); ok && s2.Addr == fa {
									if t2, f2, b2, ok := fieldLoad(s2.Val); ok && t2 == "StoredEvent" {
										if _, isParam := stripConv(b2).(*ssa.Parameter); isParam {
											got[fld] = "orig." + f2
										}
									} else if e2, ok := stripConv(s2.Val).(*ssa.Extract); ok && e2.Tuple == ssa.Value(call) {
										got[fld] = [...]string{"apply.data", "apply.type", "apply.err"}[e2.Index]
									} else {
										got[fld] = "?"
									}
								}
							}
						}
						okEv := got["Offset"] == "orig.Offset" && got["Timestamp"] == "orig.Timestamp" && got["Type"] == "apply.type" && got["Data"] == "apply.data"
						c.Check(okEv, rule, name+"/upcast-event-fields", p.Pos(al.Pos()), "Offset/Timestamp from the stored event, Type/Data from apply", "the upcast event handed to the callback does not keep the stored Offset/Timestamp with apply's Type/Data")
					}
				}
			}
		}
	}
	c.Floor(rule, "callers of apply", n, 1)
	// every replay entry that promises upcast events reaches one of those callers
	for _, en := range [][2]string{{"EventBus", "ReplayWithUpcast"}, {"", "SubscribeWithReplay"}} {
		var root *ssa.Function
		if en[0] != "" {
			root = p.Method(PkgBus, en[0], en[1])
		} else {
			root = p.Func(PkgBus, en[1])
		}
		if root == nil {
			c.Unresolved(rule, "UNRESOLVED-ANCHOR/"+en[1], en[1]+" not found")
			continue
		}
		reaches := false
		for f := range staticReach(p, root, PkgBus) {
			if callers[f] {
				reaches = true
			}
		}
		c.Check(reaches, rule, en[1]+"/reaches-apply", p.Pos(root.Pos()), "the stored events pass through the upcast registry's apply", en[1]+" never reaches the upcast registry's apply: events are delivered in their stored version")
	}
}

// checkTypedUpcastWrapper (C17.R5): the closure RegisterUpcast builds decodes into a
// fresh value per call, applies the user function to it, encodes the result and returns
// it with the registered target name; every error is returned.
func checkTypedUpcastWrapper(c *Ctx, p *Prog, R *BusRoles, rule string) {
	reg := p.Func(PkgBus, "RegisterUpcast")
	if reg == nil {
		c.Unresolved(rule, "UNRESOLVED-ANCHOR/RegisterUpcast", "function not found")
		return
	}
	// the closure passed to register
	var wrap *ssa.Function
	var regCall ssa.CallInstruction
	var helperSite *ssa.Call // RegisterUpcast's call of the helper that builds the closure, if any
	var boundRecv ssa.Value  // the struct value a registered method value is bound to, if any
	dataIdx := 0             // index of the wrapper's data parameter
	for _, b := range reg.Blocks {
		for _, in := range b.Instrs {
			if ci, ok := in.(ssa.CallInstruction); ok {
				if sc := ci.Common().StaticCallee(); sc != nil && sc == R.RegisterFn && len(ci.Common().Args) == 4 {
					regCall = ci
					v := stripConv(ci.Common().Args[3])
					if ld, ok := v.(*ssa.UnOp); ok && ld.Op == token.MUL {
						v = loadThroughLocal(ld)
					}
					if mc, ok := stripConv(v).(*ssa.MakeClosure); ok {
						wrap = mc.Fn.(*ssa.Function)
						// a method value of a small adapter struct: read the method's body, with the
						// receiver standing for the bound struct value
						if strings.HasPrefix(wrap.Synthetic, "bound method wrapper") && len(mc.Bindings) == 1 {
							var inner *ssa.Function
							for _, wb := range wrap.Blocks {
								for _, win := range wb.Instrs {
									if wc, ok := win.(ssa.CallInstruction); ok {
										if sc := wc.Common().StaticCallee(); sc != nil {
											inner = sc
										}
									}
								}
							}
							if inner != nil && inner.Origin() != nil {
								inner = inner.Origin()
							}
							if inner != nil && PkgOf(inner) == PkgBus && len(inner.Params) == 2 {
								wrap, boundRecv, dataIdx = inner, mc.Bindings[0], 1
							}
						}
					}
					// the closure may be built by an in-package helper that returns it
					if hc, ok := stripConv(v).(*ssa.Call); ok {
						sc := hc.Common().StaticCallee()
						if sc != nil && sc.Origin() != nil {
							sc = sc.Origin() // a generic helper: read its generic body
						}
						if sc != nil && PkgOf(sc) == PkgBus {
							for _, ret := range returnsOf(sc) {
								if len(ret.Results) == 1 {
									if mc, ok := stripConv(ret.Results[0]).(*ssa.MakeClosure); ok {
										wrap = mc.Fn.(*ssa.Function)
										helperSite = hc
									}
								}
							}
						}
					}
				}
			}
		}
	}
	if wrap == nil {
		c.Unresolved(rule, "UNRESOLVED-ANCHOR/RegisterUpcast/wrapper", "cannot find the closure RegisterUpcast registers")
		return
	}
	name := "RegisterUpcast/wrapper"
	var unm, mar, user *ssa.Call
	for _, b := range wrap.Blocks {
		for _, in := range b.Instrs {
			if call, ok := in.(*ssa.Call); ok {
				switch calleeName(call.Common()) {
				case "encoding/json.Unmarshal":
					unm = call
				case "encoding/json.Marshal":
					mar = call
				default:
					if isDynamicCall(call.Common()) {
						user = call
					}
				}
			}
		}
	}
	if unm == nil || mar == nil || user == nil {
		c.Violate(rule, name+"/decode-apply-encode", p.Pos(wrap.Pos()), "the typed upcaster is not Unmarshal → user function → Marshal", nil)
		return
	}
	// decode target: an allocation of this call
	target := stripConv(unm.Common().Args[1])
	al, isAlloc := target.(*ssa.Alloc)
	c.Check(isAlloc && al.Parent() == wrap, rule, name+"/fresh-decode-target", p.Pos(unm.Pos()), "the source value is decoded into a variable allocated by this call", "the source value is decoded into storage shared between calls (captured variable / pool): fields absent from one payload keep the values of an earlier event")
	// data parameter decoded
	c.Check(stripConv(unm.Common().Args[0]) == ssa.Value(wrap.Params[dataIdx]), rule, name+"/decodes-its-input", p.Pos(unm.Pos()), "decodes the data it is given", "the wrapper does not decode its input data")
	// user function applied to the decoded value
	okUser := false
	if isAlloc && len(user.Common().Args) == 1 {
		if ld, ok := stripConv(user.Common().Args[0]).(*ssa.UnOp); ok && ld.Op == token.MUL && ld.X == ssa.Value(al) {
			okUser = true
		}
	}
	c.Check(okUser, rule, name+"/applies-f-to-decoded", p.Pos(user.Pos()), "f(decoded source)", "the user function is not applied to the decoded source value")
	c.Check(stripConv(mar.Common().Args[0]) == ssa.Value(user), rule, name+"/encodes-f-result", p.Pos(mar.Pos()), "json.Marshal(f(from))", "the wrapper does not encode the user function's result")
	// returns
	okRets := true
	cells := indexCells(p)
	for _, ret := range returnsOf(wrap) {
		if len(ret.Results) != 3 {
			continue
		}
		er := ret.Results[2]
		if k, ok := er.(*ssa.Const); ok && k.Value == nil {
			// success: (marshal#0, registered target name, nil)
			ex, ok := stripConv(ret.Results[0]).(*ssa.Extract)
			if !(ok && ex.Tuple == ssa.Value(mar) && ex.Index == 0) {
				okRets = false
			}
			// the returned type is the variable whose value was passed to register as target
			if regCall != nil {
				var up func(v ssa.Value, site *ssa.Call) ssa.Value
				up = func(v ssa.Value, site *ssa.Call) ssa.Value {
					v = stripConv(v)
					// a field of the bound receiver: what the composite literal put there
					if _, _, base, ok := fieldLoad(v); ok && boundRecv != nil {
						base = stripConv(base)
						if a0, ok := base.(*ssa.Alloc); ok {
							if w := wholeStore(a0); w != nil {
								base = stripConv(w)
							}
						}
						if pr, ok := base.(*ssa.Parameter); ok && pr == wrap.Params[0] {
							idx := -1
							switch x := v.(type) {
							case *ssa.Field:
								idx = x.Field
							case *ssa.UnOp:
								if fa, ok := x.X.(*ssa.FieldAddr); ok {
									idx = fa.Field
								}
							}
							if ld, ok := stripConv(boundRecv).(*ssa.UnOp); ok && ld.Op == token.MUL && idx >= 0 {
								if a1, ok := ld.X.(*ssa.Alloc); ok {
									if sv := structLitField(a1, idx); sv != nil {
										return up(sv, nil)
									}
								}
							}
						}
					}
					var al *ssa.Alloc
					switch x := cellOf(v).(type) {
					case *ssa.FreeVar:
						al = cells.freeAlloc[x]
					case *ssa.Alloc:
						al = x
					}
					if al != nil {
						// a spilled parameter of the helper stands for the helper's argument
						if ss := cells.stores[al]; len(ss) == 1 {
							if pr, ok := stripConv(ss[0]).(*ssa.Parameter); ok && site != nil {
								return up(pr, site)
							}
						}
						return al
					}
					if pr, ok := v.(*ssa.Parameter); ok && site != nil {
						for i, q := range pr.Parent().Params {
							if q == pr && i < len(site.Common().Args) {
								return up(site.Common().Args[i], nil)
							}
						}
					}
					return v
				}
				got, want := up(ret.Results[1], helperSite), up(regCall.Common().Args[2], nil)
				if _, isConst := got.(*ssa.Const); isConst || got != want {
					okRets = false
				}
			}
		}
	}
	// each error is tested and returned
	for _, call := range []*ssa.Call{unm, mar} {
		var ev ssa.Value = call
		if call == mar {
			for _, ref := range *call.Referrers() {
				if ex, ok := ref.(*ssa.Extract); ok && ex.Index == 1 {
					ev = ex
				}
			}
		}
		tested := false
		for _, ref := range *ev.Referrers() {
			if bo, ok := ref.(*ssa.BinOp); ok {
				if _, _, ok := nilTest(bo); ok {
					tested = true
				}
			}
		}
		if !tested {
			okRets = false
		}
	}
	c.Check(okRets, rule, name+"/results-and-errors", p.Pos(wrap.Pos()), "returns (encoded result, registered target name, nil); decode/encode errors are tested and returned", "the wrapper's results are not (Marshal result, registered target name, nil) or an error is not checked")
}

// cellOf: the captured cell a free-variable / alloc load reads from (nil if none).
func cellOf(v ssa.Value) ssa.Value {
	if ld, ok := v.(*ssa.UnOp); ok && ld.Op == token.MUL {
		switch x := ld.X.(type) {
		case *ssa.FreeVar:
			return x
		case *ssa.Alloc:
			return x
		}
	}
	return nil
}

// checkStoredEventsNotRewritten (C15.R1 / C17.R2): no code in package ebu assigns a field
// of a StoredEvent it did not allocate itself. The memory store hands out pointers into
// its log, so rewriting Type/Data in place renames the persisted record.
func checkStoredEventsNotRewritten(c *Ctx, p *Prog, rule string) {
	n := 0
	for _, f := range p.FuncsIn(PkgBus) {
		for _, b := range f.Blocks {
			for _, in := range b.Instrs {
				st, ok := in.(*ssa.Store)
				if !ok {
					continue
				}
				tn, fld, base, ok := fieldOfAddr(st.Addr)
				if !ok || tn != "StoredEvent" {
					continue
				}
				n++
				if _, fresh := stripConv(base).(*ssa.Alloc); fresh {
					c.Discharge(rule, "stored-event-field-writer/"+FuncDisplay(f)+"/"+fld, p.Pos(in.Pos()), "field of a StoredEvent allocated by this function")
				} else {
					c.Violate(rule, "stored-event-field-writer/"+FuncDisplay(f)+"/"+fld, p.Pos(in.Pos()), "StoredEvent."+fld+" of an event handed in from the store is overwritten in place: with the memory store this permanently changes the persisted record (its type name no longer is the one EventType reported when it was published)", nil)
				}
			}
		}
	}
	c.Floor(rule, "StoredEvent field writers", n, 4)
}
