package main

import (
	"golang.org/x/tools/go/ssa"
)

// claimWordDiscipline (C04.R1 / C03.R3): the claim word of a registration is touched
// only through sync/atomic, everywhere in the package.
func claimWordDiscipline(c *Ctx, p *Prog, R *BusRoles, rule string) {
	n := 0
	for _, f := range p.FuncsIn(PkgBus) {
		for _, b := range f.Blocks {
			for _, in := range b.Instrs {
				fa, ok := in.(*ssa.FieldAddr)
				if !ok {
					continue
				}
				tn, fld, _, _ := fieldOfAddr(fa)
				if tn != R.RegName() || fld != R.RegClaim {
					continue
				}
				n++
				for _, ref := range *fa.Referrers() {
					okUse := false
					if _, _, isAt := atomicOp(ref); isAt {
						okUse = true
					}
					construct := "claim-word/use-in/" + FuncDisplay(f)
					if okUse {
						c.Discharge(rule, construct, p.Pos(ref.Pos()), "claim word used only as operand of a sync/atomic call")
					} else {
						c.Violate(rule, construct+"/non-atomic", p.Pos(ref.Pos()), "the claim word is read or written without sync/atomic: "+ref.String(), nil)
					}
				}
			}
		}
	}
	c.Stats["claim_word_uses"] = n
}
