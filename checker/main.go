package main

import (
	"encoding/json"
	"flag"
	"fmt"
	"os"
	"os/exec"
	"runtime/debug"
	"sort"
	"strconv"
	"strings"
)

var repoRoot = "/repo"

// PropDef describes the static check of one property.
type PropDef struct {
	Explain string
	Run     func(c *Ctx)
	// Thorough runs the additional whole-program rules and positive controls of the
	// thorough tier (may be nil).
	Thorough func(c *Ctx)
}

var props = map[string]*PropDef{}

func register(id string, d *PropDef) { props[id] = d }

func main() {
	// go/packages runs the `go` found through this process's PATH: make sure it is the
	// toolchain that can load the repository offline (see DESIGN.md §2)
	os.Setenv("PATH", "/opt/veriftools/go1.26.8/bin:"+os.Getenv("PATH"))
	for _, kv := range []string{"GOTOOLCHAIN=local", "GOFLAGS=-mod=mod", "GOPROXY=off", "GOSUMDB=off", "GOWORK=off"} {
		p := strings.SplitN(kv, "=", 2)
		os.Setenv(p[0], p[1])
	}
	os.Unsetenv("GOARCH")
	os.Unsetenv("GOOS")
	repo := flag.String("repo", "/repo", "repository root")
	verif := flag.String("verif", "/verif", "verification directory")
	flag.Parse()
	args := flag.Args()
	if len(args) < 1 {
		fmt.Println("usage: ebucheck [-repo dir] [-verif dir] <property-id> [quick|thorough] | replay <report.json> | list")
		os.Exit(2)
	}
	repoRoot = *repo
	if args[0] == "list" {
		var ids []string
		for id := range props {
			ids = append(ids, id)
		}
		sort.Strings(ids)
		fmt.Println(strings.Join(ids, " "))
		return
	}
	if args[0] == "dump" && len(args) == 3 {
		devDump(*repo, args[1], args[2])
		return
	}
	if args[0] == "replay" {
		if len(args) < 2 {
			fmt.Println("usage: ebucheck replay <report.json>")
			os.Exit(2)
		}
		os.Exit(replay(*repo, *verif, args[1]))
	}
	id := args[0]
	tier := "quick"
	if len(args) > 1 {
		tier = args[1]
	}
	if t := os.Getenv("VERIF_TIER"); t != "" && len(args) < 2 {
		tier = t
	}
	os.Exit(runProp(*repo, *verif, id, tier, ""))
}

func runProp(repo, verif, id, tier, onlyConstruct string) (code int) {
	d := props[id]
	if d == nil {
		fmt.Printf("unknown property %q\n", id)
		return 2
	}
	seed, _ := strconv.Atoi(os.Getenv("VERIF_SEED"))
	c := NewCtx(id, tier, repo)
	before := gitStatus(repo)
	defer func() {
		if r := recover(); r != nil {
			// a crash of the checker is a failed check, never a pass
			fmt.Printf("checker panic: %v\n%s\n", r, debug.Stack())
			c.Unresolved("CHECKER", "panic", fmt.Sprint(r))
			code = c.Finish(verif, seed, d.Explain, []string{"default"})
			if code == 0 {
				code = 1
			}
		}
	}()
	configs := []string{"default (GOOS=linux GOARCH=amd64, no tags)"}
	d.Run(c)
	if tier == "thorough" {
		if d.Thorough != nil {
			d.Thorough(c)
		}
		positiveControls(c, verif, repo, id, d)
		// the same rules on the other build configurations; only non-discharged
		// results are carried over (constructs are identical across configurations)
		for _, lc := range []LoadConfig{{GOARCH: "386"}, {Tags: "verif,race"}} {
			name := "GOARCH=" + lc.GOARCH + " tags=" + lc.Tags
			configs = append(configs, name)
			c2 := NewCtx(id, tier, repo)
			c2.Config = lc
			d.Run(c2)
			n := 0
			for _, o := range c2.Obls {
				n++
				if o.Status == Discharged {
					continue
				}
				// the same construct with the same verdict in the default configuration
				// is already reported (or listed as a known finding) there
				if i, ok := c.okeys[o.Rule+"|"+o.Construct]; ok && c.Obls[i].Status == o.Status {
					continue
				}
				o.Construct = o.Construct + " {" + name + "}"
				c.add(o)
			}
			c.Stats["obligations_other_configs"] += n
			c.Stats["product_states"] += c2.Stats["product_states"]
		}
	}
	if after := gitStatus(repo); after != before {
		c.Unresolved("CHECKER", "repo-untouched", "the working tree of the repository changed while it was being analysed")
	}
	if onlyConstruct != "" {
		var keep []Obligation
		for _, o := range c.Obls {
			if o.Rule+"|"+o.Construct == onlyConstruct {
				keep = append(keep, o)
			}
		}
		c.Obls = keep
	}
	return c.Finish(verif, seed, d.Explain, configs)
}

func gitStatus(repo string) string {
	out, err := exec.Command("git", "-C", repo, "status", "--porcelain").Output()
	if err != nil {
		return "nogit"
	}
	return string(out)
}

func replay(repo, verif, path string) int {
	b, err := os.ReadFile(path)
	if err != nil {
		fmt.Println(err)
		return 2
	}
	var rep struct {
		Property, Rule, Construct, Tier string
	}
	if err := json.Unmarshal(b, &rep); err != nil {
		fmt.Println(err)
		return 2
	}
	fmt.Printf("replaying %s %s [%s]\n", rep.Property, rep.Rule, rep.Construct)
	tier := rep.Tier
	if tier == "" {
		tier = "quick"
	}
	return runProp(repo, verif, rep.Property, tier, rep.Rule+"|"+strings.SplitN(rep.Construct, " {", 2)[0])
}
