package main

// C05.R2 (and the reflective fallback of C01.R2): the type a registration records for its
// handler is the type of the handler value it stores.

import (
	"go/types"

	"golang.org/x/tools/go/ssa"
)

// checkRecordedHandlerType: wherever a registration is built, the value stored into its
// handler-type field is reflect.TypeOf(h) for the very value h stored into its handler
// field, or reflect.TypeOf((*S)(nil)).Elem() with S identical to h's static (non-interface)
// type. The panic handler is given this recorded type, and the reflective dispatch
// fallback derives the call's arity from it.
func checkRecordedHandlerType(c *Ctx, p *Prog, R *BusRoles, rule string) {
	n := 0
	reg := R.RegName()
	for _, f := range p.FuncsIn(PkgBus) {
		// per base object: the stored handler value and the stored type value
		type pair struct {
			h, t  ssa.Value
			tinst ssa.Instruction
		}
		byBase := map[ssa.Value]*pair{}
		for _, b := range f.Blocks {
			for _, in := range b.Instrs {
				st, ok := in.(*ssa.Store)
				if !ok {
					continue
				}
				tn, fld, base, ok := fieldOfAddr(st.Addr)
				if !ok || tn != reg {
					continue
				}
				pr := byBase[base]
				if pr == nil {
					pr = &pair{}
					byBase[base] = pr
				}
				switch fld {
				case R.RegHandler:
					pr.h = st.Val
				case R.RegHandlerType:
					pr.t, pr.tinst = st.Val, in
				}
			}
		}
		for _, pr := range byBase {
			if pr.t == nil {
				continue
			}
			n++
			construct := FuncDisplay(f) + "/registration/recorded-handler-type"
			pos := p.Pos(pr.tinst.Pos())
			if pr.h == nil {
				c.Violate(rule, construct, pos, "a registration records a handler type but stores no handler", nil)
				continue
			}
			hv := stripConv(pr.h)
			ok, why := false, "the recorded type is not computed by reflect.TypeOf"
			if call, isCall := stripConv(pr.t).(*ssa.Call); isCall {
				cc := call.Common()
				switch {
				case calleeName(cc) == "reflect.TypeOf" && len(cc.Args) == 1:
					if stripConv(cc.Args[0]) == hv {
						ok = true
					} else {
						why = "reflect.TypeOf is applied to " + describeValue(stripConv(cc.Args[0])) + ", not to the handler value that is stored"
					}
				case cc.IsInvoke() && cc.Method.Name() == "Elem":
					if inner, isCall := stripConv(cc.Value).(*ssa.Call); isCall && calleeName(inner.Common()) == "reflect.TypeOf" && len(inner.Common().Args) == 1 {
						if k, isK := stripConv(inner.Common().Args[0]).(*ssa.Const); isK && k.Value == nil {
							if pt, isP := k.Type().Underlying().(*types.Pointer); isP {
								if _, isIface := hv.Type().Underlying().(*types.Interface); !isIface && types.Identical(pt.Elem(), hv.Type()) {
									ok = true
								} else {
									why = "the recorded type is " + types.TypeString(pt.Elem(), nil) + " while the stored handler has type " + types.TypeString(hv.Type(), nil)
								}
							}
						}
					}
				}
			}
			c.Check(ok, rule, construct, pos, "handlerType = reflect.TypeOf(the stored handler)", "the registration records a handler type that is not the stored handler's type ("+why+"): the panic handler is told the wrong type and the reflective dispatch fallback calls the handler with the wrong number of arguments")
		}
	}
	c.Floor(rule, "registrations recording a handler type", n, 1)
}
