package main

// C10 / C14: sibling agreement and ownership rules over the three bundled stores.

import (
	"fmt"
	"go/constant"
	"go/token"
	"go/types"
	"regexp"
	"sort"
	"strconv"
	"strings"

	"golang.org/x/tools/go/ssa"
)

// ---------------------------------------------------------------------------
// C10.R1 conformance table.

func checkConformance(c *Ctx, rule string, p *Prog, pkg, typ string, ifaces []string) {
	bus := p.All[PkgBus]
	sp := p.All[pkg]
	if bus == nil || sp == nil {
		c.Unresolved(rule, "UNRESOLVED-ANCHOR/"+pkg, "package not loaded")
		return
	}
	obj := sp.Types.Scope().Lookup(typ)
	if obj == nil {
		c.Unresolved(rule, "UNRESOLVED-ANCHOR/"+pkg+"."+typ, "type not found")
		return
	}
	for _, in := range ifaces {
		io := bus.Types.Scope().Lookup(in)
		if io == nil {
			c.Unresolved(rule, "UNRESOLVED-ANCHOR/"+in, "interface not found")
			continue
		}
		ok := types.Implements(types.NewPointer(obj.Type()), io.Type().Underlying().(*types.Interface))
		c.Check(ok, rule, shortPkg(pkg)+"."+typ+"/implements/"+in, "", "method set satisfies "+in, "*"+typ+" no longer implements "+in)
	}
}

func shortPkg(p string) string {
	if i := strings.LastIndex(p, "/"); i >= 0 {
		return p[i+1:]
	}
	return p
}

// ---------------------------------------------------------------------------
// C10.R2 next offset follows the returned events.

type readFacts struct {
	truncates   bool // the function cuts its result to the limit
	nextOrigins [][]string
	positions   []string
}

func checkReadNextOffset(c *Ctx, p *Prog, pkg, typ, rule string) {
	f := p.Method(pkg, typ, "Read")
	if f == nil {
		c.Unresolved(rule, "UNRESOLVED-ANCHOR/"+typ+".Read", "method not found")
		return
	}
	name := shortPkg(pkg) + "." + typ + ".Read"
	e := NewEngine(p)
	flow := NewFlow(p, e.cells)
	flow.Inter = true
	// does the function truncate by its limit parameter?
	var limit *ssa.Parameter
	for _, prm := range f.Params {
		if prm.Name() == "limit" || (isBasicKind(prm.Type(), types.Int) && limit == nil && prm != f.Params[0]) {
			limit = prm
		}
	}
	usesLimit := false
	if limit != nil {
		for _, ref := range *limit.Referrers() {
			switch ref.(type) {
			case *ssa.BinOp, *ssa.MakeInterface, *ssa.Call:
				usesLimit = true
			}
		}
	}
	n := 0
	construct := name + "/next-offset-follows-the-returned-events"
	var bad *ssa.Return
	var badOrigins, okOrigins []string
	for _, ret := range returnsOf(f) {
		if len(ret.Results) != 3 {
			continue
		}
		er := resolveResult(ret, 2)
		if k, ok := er.(*ssa.Const); !(ok && k.Value == nil) {
			continue // error return
		}
		evs := resolveResult(ret, 0)
		if k, ok := evs.(*ssa.Const); ok && k.Value == nil {
			continue // returns no events here (tail)
		}
		n++
		os := flow.Origins(resolveResult(ret, 1))
		if hasOrigin(os, "field:StoredEvent.Offset") || !usesLimit {
			okOrigins = os
		} else {
			bad, badOrigins = ret, os
		}
	}
	switch {
	case bad != nil:
		c.Violate(rule, construct, p.Pos(bad.Pos()), "Read can cut its result to `limit`, but the next offset it returns does not depend on which events were returned (origins "+strings.Join(badOrigins, ",")+"): a reader that continues from it skips the events that were cut off", nil)
	case n > 0:
		c.Discharge(rule, construct, p.Pos(f.Pos()), "the next offset depends on the last event placed in the result ("+strings.Join(okOrigins, ",")+")")
	}
	c.Floor(rule, name+" success returns", n, 1)
}

func isBasicKind(t types.Type, k types.BasicKind) bool {
	b, ok := t.Underlying().(*types.Basic)
	return ok && b.Kind() == k
}

// checkEventOffsets: the Offset stored into each returned StoredEvent is a store-issued
// position, not a value synthesised from a chunk-level position.
func checkEventOffsets(c *Ctx, p *Prog, pkg, typ, rule string) {
	e := NewEngine(p)
	flow := NewFlow(p, e.cells)
	flow.Inter = true
	n := 0
	for _, f := range p.FuncsIn(pkg) {
		for _, b := range f.Blocks {
			for _, in := range b.Instrs {
				st, ok := in.(*ssa.Store)
				if !ok {
					continue
				}
				tn, fld, _, ok := fieldOfAddr(st.Addr)
				if !ok || tn != "StoredEvent" || fld != "Offset" {
					continue
				}
				n++
				os := flow.Origins(st.Val)
				construct := shortPkg(pkg) + "/" + FuncDisplay(f) + "/event-offset"
				synthetic := false
				for _, o := range os {
					if strings.HasSuffix(o, ".NextOffset") {
						synthetic = true
					}
				}
				if synthetic {
					// keyed by the package, not by the function the statement happens to sit in
					c.Violate(rule, shortPkg(pkg)+"/event-offset/synthetic", p.Pos(in.Pos()), "an event's offset is synthesised from the chunk's end position and the event's index (origins "+strings.Join(os, ",")+"): it cannot be used to resume (Read from it does not return the events after it)", nil)
				} else {
					c.Discharge(rule, construct, p.Pos(in.Pos()), "offset from "+strings.Join(os, ","))
				}
			}
		}
	}
	c.Stats["event_offset_stores"] += n
}

// ---------------------------------------------------------------------------
// C10.R3 offsets are lexicographically monotone by construction.

var padRe = regexp.MustCompile(`^%0(\d+)d$`)

func offsetConstruction(p *Prog, v ssa.Value, depth int) (kind, detail string) {
	v = stripConv(v)
	if depth > 5 {
		return "unknown", "too deep"
	}
	switch x := v.(type) {
	case *ssa.Call:
		n := calleeName(x.Common())
		switch {
		case n == "fmt.Sprintf":
			if k, ok := x.Common().Args[0].(*ssa.Const); ok && k.Value != nil {
				return "sprintf", constant.StringVal(k.Value)
			}
			return "unknown", "non-constant format"
		case strings.HasPrefix(n, "strconv.Format") || n == "strconv.Itoa":
			return "decimal", n
		case x.Common().IsInvoke() || !p.InScope(x.Common().StaticCallee()):
			return "opaque", n
		}
		sc := x.Common().StaticCallee()
		if o := sc.Origin(); o != nil {
			sc = o
		}
		for _, ret := range returnsOf(sc) {
			if len(ret.Results) >= 1 {
				return offsetConstruction(p, ret.Results[0], depth+1)
			}
		}
	case *ssa.Extract:
		if call, ok := x.Tuple.(*ssa.Call); ok {
			return offsetConstruction(p, call, depth+1)
		}
	case *ssa.Phi:
		for _, ed := range x.Edges {
			if k, ok := ed.(*ssa.Const); ok && k.Value != nil {
				continue
			}
			return offsetConstruction(p, ed, depth+1)
		}
	case *ssa.Const:
		return "const", x.Value.ExactString()
	}
	return "unknown", v.String()
}

func checkOffsetFormat(c *Ctx, p *Prog, pkg, typ, rule string) {
	f := p.Method(pkg, typ, "Append")
	if f == nil {
		c.Unresolved(rule, "UNRESOLVED-ANCHOR/"+typ+".Append", "method not found")
		return
	}
	name := shortPkg(pkg) + "." + typ + ".Append/offset-format"
	n := 0
	for _, ret := range returnsOf(f) {
		if len(ret.Results) != 2 {
			continue
		}
		if k, ok := resolveResult(ret, 1).(*ssa.Const); !(ok && k.Value == nil) {
			continue
		}
		n++
		kind, detail := offsetConstruction(p, resolveResult(ret, 0), 0)
		switch kind {
		case "sprintf":
			m := padRe.FindStringSubmatch(detail)
			width := 0
			if m != nil {
				fmt.Sscanf(m[1], "%d", &width)
			}
			c.Check(width >= 19, rule, name, p.Pos(ret.Pos()), "fixed-width zero-padded decimal ("+detail+"): lexicographic order equals numeric order for every int64", "offsets are formatted with "+detail+", which is not a fixed-width zero-padded decimal of at least 19 digits: lexicographic comparison breaks at a power of ten")
		case "decimal":
			c.Violate(rule, name, p.Pos(ret.Pos()), "offsets are variable-width decimals ("+detail+"): under the documented lexicographic comparison \"10\" < \"9\", so offsets do not increase with append order across every power of ten", nil)
		case "opaque":
			c.Discharge(rule, name, p.Pos(ret.Pos()), "server-issued opaque offset ("+detail+"); sortability is the protocol's guarantee (table exemption)")
		default:
			c.Unresolved(rule, name, "cannot see how the returned offset is built: "+detail)
		}
	}
	c.Floor(rule, name+" success returns", n, 1)
}

// ---------------------------------------------------------------------------
// C10.R4 isolation: DSN depends on the store's own path or a per-store unique value.

func checkDSN(c *Ctx, p *Prog, rule string) {
	f := p.Func(PkgSQLite, "New")
	if f == nil {
		c.Unresolved(rule, "UNRESOLVED-ANCHOR/sqlite.New", "function not found")
		return
	}
	e := NewEngine(p)
	flow := NewFlow(p, e.cells)
	var dsn ssa.Value
	for _, g := range reachFuncs(p, f, PkgSQLite) { // New or the helper that opens the database
		for _, b := range g.Blocks {
			for _, in := range b.Instrs {
				call, ok := in.(*ssa.Call)
				if !ok || len(call.Common().Args) != 2 {
					continue
				}
				// the opener: a call of a func(driver, dsn) (*sql.DB, error) value or sql.Open
				sig := call.Common().Signature()
				if sig.Results().Len() == 2 && strings.HasSuffix(sig.Results().At(0).Type().String(), "database/sql.DB") && isBasicKind(call.Common().Args[1].Type(), types.String) {
					if sc := call.Common().StaticCallee(); sc != nil && PkgOf(sc) == PkgSQLite {
						continue // a helper of the package: the opener is inside it
					}
					dsn = call.Common().Args[1]
				}
			}
		}
	}
	if dsn == nil {
		c.Unresolved(rule, "UNRESOLVED-ANCHOR/sqlite.New/open", "no database open call found in New")
		return
	}
	var alts []ssa.Value
	if ph, ok := stripConv(dsn).(*ssa.Phi); ok {
		alts = ph.Edges
	} else {
		alts = []ssa.Value{dsn}
	}
	for i, a := range alts {
		os := flow.Origins(a)
		own := false
		for _, o := range os {
			if o == "field:config.path" || strings.HasPrefix(o, "param:sqlite.New.path") ||
				strings.Contains(o, "sync/atomic") || strings.Contains(o, "time.Now") || strings.Contains(o, "rand.") || strings.Contains(o, "uuid") || strings.Contains(o, "os.CreateTemp") || strings.Contains(o, "os.MkdirTemp") {
				own = true
			}
		}
		construct := fmt.Sprintf("sqlite.New/dsn-alternative#%d", i+1)
		if own {
			c.Discharge(rule, construct, p.Pos(a.Pos()), "the data source name depends on the store's path or a per-store unique value ("+strings.Join(os, ",")+")")
		} else {
			c.Violate(rule, construct, p.Pos(a.Pos()), "a data source name built only from constants ("+strings.Join(os, ",")+"): every store opened this way is the same database, so separately created stores see each other's events", nil)
		}
	}
}

// ---------------------------------------------------------------------------
// SQL text (C10.R5, C10.R6, C14).

type sqlStmt struct {
	Text, Pos string
	Tokens    []string
}

var sqlStart = regexp.MustCompile(`(?i)^\s*(SELECT|INSERT|UPDATE|DELETE|CREATE|DROP|ALTER|PRAGMA|REPLACE|BEGIN|COMMIT|ROLLBACK|VACUUM|ATTACH|DETACH|TRUNCATE|REINDEX|WITH)\b`)

func collectSQL(p *Prog, pkg string) []sqlStmt {
	seen := map[string]bool{}
	var out []sqlStmt
	add := func(s, pos string) {
		if !sqlStart.MatchString(s) || seen[s] || !looksLikeSQL(s) {
			return
		}
		seen[s] = true
		toks := strings.Fields(strings.ToUpper(strings.NewReplacer("(", " ( ", ")", " ) ", ",", " , ", "=", " = ").Replace(s)))
		out = append(out, sqlStmt{Text: s, Pos: pos, Tokens: toks})
	}
	for _, f := range p.FuncsIn(pkg) {
		for _, b := range f.Blocks {
			for _, in := range b.Instrs {
				for _, op := range in.Operands(nil) {
					if op == nil || *op == nil {
						continue
					}
					if k, ok := (*op).(*ssa.Const); ok && k.Value != nil && k.Value.Kind() == constant.String {
						add(constant.StringVal(k.Value), p.Pos(in.Pos()))
					}
				}
			}
		}
	}
	// package-level string constants are inlined as Const operands above; also scan
	// named constants that might be unused
	if sp := p.All[pkg]; sp != nil {
		for _, name := range sp.Types.Scope().Names() {
			if k, ok := sp.Types.Scope().Lookup(name).(*types.Const); ok && k.Val().Kind() == constant.String {
				add(constant.StringVal(k.Val()), p.Pos(k.Pos()))
			}
		}
	}
	sort.Slice(out, func(i, j int) bool { return out[i].Text < out[j].Text })
	return out
}

// looksLikeSQL filters out prose that merely starts with an SQL verb (error messages).
func looksLikeSQL(s string) bool {
	if strings.Contains(s, "%w") || strings.Contains(s, "%v") {
		return false
	}
	f := strings.Fields(strings.ToUpper(s))
	if len(f) == 0 {
		return false
	}
	second := ""
	if len(f) > 1 {
		second = f[1]
	}
	switch f[0] {
	case "CREATE":
		return second == "TABLE" || second == "INDEX" || second == "UNIQUE" || second == "VIEW" || second == "TRIGGER" || second == "VIRTUAL" || second == "TEMP" || second == "TEMPORARY"
	case "DROP", "ALTER":
		return second == "TABLE" || second == "INDEX" || second == "VIEW" || second == "TRIGGER"
	case "INSERT", "REPLACE":
		return second == "INTO" || second == "OR"
	case "DELETE":
		return second == "FROM"
	case "UPDATE":
		return len(f) > 2 && (f[2] == "SET" || second == "OR")
	case "SELECT", "WITH":
		return len(f) > 2
	case "PRAGMA":
		return len(f) >= 2
	case "BEGIN", "COMMIT", "ROLLBACK", "VACUUM", "REINDEX":
		return len(f) <= 3
	case "ATTACH", "DETACH", "TRUNCATE":
		return true
	}
	return false
}

func has(toks []string, seq ...string) bool {
	for i := 0; i+len(seq) <= len(toks); i++ {
		ok := true
		for j, s := range seq {
			if toks[i+j] != s {
				ok = false
				break
			}
		}
		if ok {
			return true
		}
	}
	return false
}

func tableOf(toks []string) string {
	for i, t := range toks {
		if (t == "FROM" || t == "INTO" || t == "UPDATE" || t == "TABLE" || t == "ON") && i+1 < len(toks) {
			j := i + 1
			for j < len(toks) && (toks[j] == "IF" || toks[j] == "NOT" || toks[j] == "EXISTS") {
				j++
			}
			if j < len(toks) {
				return strings.ToLower(toks[j])
			}
		}
	}
	return ""
}

func sqlKey(s sqlStmt) string {
	t := strings.Join(s.Tokens, " ")
	if len(t) > 60 {
		t = t[:60]
	}
	return t
}

// checkSQLOwnership: C10.R5 / C14.R4 — append-only log, single-row upsert, no
// destructive statement, idempotent DDL.
func checkSQLOwnership(c *Ctx, p *Prog, rule string) []sqlStmt {
	stmts := collectSQL(p, PkgSQLite)
	for _, s := range stmts {
		verb := s.Tokens[0]
		tbl := tableOf(s.Tokens)
		construct := "sql/" + sqlKey(s)
		switch verb {
		case "SELECT", "WITH":
			c.Discharge(rule, construct, s.Pos, "read-only statement")
		case "INSERT":
			switch tbl {
			case "events":
				bad := has(s.Tokens, "OR", "REPLACE") || has(s.Tokens, "ON", "CONFLICT") || has(s.Tokens, "OR", "IGNORE")
				explicitPos := false
				// the position column must be assigned by the database
				if i := indexOf(s.Tokens, "("); i >= 0 {
					for _, t := range s.Tokens[i:] {
						if t == ")" {
							break
						}
						if t == "POSITION" {
							explicitPos = true
						}
					}
				}
				c.Check(!bad && !explicitPos, rule, construct, s.Pos, "plain INSERT into the log; position assigned by the database", "the log is written with a conflict clause or an explicit position: an existing event can be overwritten or positions reused")
			case "subscription_positions":
				ok := has(s.Tokens, "ON", "CONFLICT", "(", "SUBSCRIPTION_ID", ")", "DO", "UPDATE", "SET", "POSITION", "=", "EXCLUDED.POSITION")
				c.Check(ok, rule, construct, s.Pos, "single upsert keyed by subscription id storing exactly the given position", "SaveOffset's statement is not `INSERT … ON CONFLICT(subscription_id) DO UPDATE SET position = excluded.position`: the saved offset is not (always) the offset that was saved last, or ids are not independent")
			case "schema_version":
				c.Discharge(rule, construct, s.Pos, "migration bookkeeping")
			default:
				c.Violate(rule, construct, s.Pos, "INSERT into an unexpected table "+tbl, nil)
			}
		case "CREATE":
			c.Check(has(s.Tokens, "IF", "NOT", "EXISTS"), rule, construct, s.Pos, "idempotent DDL (IF NOT EXISTS)", "DDL without IF NOT EXISTS: opening an existing database fails or recreates objects")
			// text keys compare byte-wise: a case-folding or trimming collation on a key column
			// (also the target of ON CONFLICT) merges distinct subscription ids / type names
			for i, t := range s.Tokens {
				if t == "COLLATE" && i+1 < len(s.Tokens) && s.Tokens[i+1] != "BINARY" {
					c.Violate(rule, construct+"/collation", s.Pos, "a column is declared COLLATE "+s.Tokens[i+1]+": ids that differ only in case (or trailing blanks) share one row, so subscriptions no longer progress independently", nil)
				}
			}
			if tbl == "subscription_positions" && s.Tokens[1] == "TABLE" {
				c.Check(has(s.Tokens, "SUBSCRIPTION_ID", "TEXT", "PRIMARY", "KEY"), rule, construct+"/id-is-the-key", s.Pos, "subscription_id TEXT PRIMARY KEY", "the saved-positions table is not keyed by subscription_id TEXT PRIMARY KEY: the upsert's conflict target does not identify one row per id")
			}
			if tbl == "events" && s.Tokens[1] == "TABLE" {
				c.Check(has(s.Tokens, "POSITION", "INTEGER", "PRIMARY", "KEY", "AUTOINCREMENT"), rule, construct+"/autoincrement", s.Pos, "positions are AUTOINCREMENT primary keys (never reused)", "the events table's position is not INTEGER PRIMARY KEY AUTOINCREMENT: positions can be reused after the newest rows are gone")
			}
		case "PRAGMA":
			c.Discharge(rule, construct, s.Pos, "pragma (checked under journal configuration)")
		case "BEGIN", "COMMIT", "ROLLBACK":
			c.Discharge(rule, construct, s.Pos, "transaction control")
		default:
			c.Violate(rule, construct, s.Pos, "destructive or unexpected SQL in the store package ("+verb+" …): the log and the saved positions must only ever be appended to / upserted", nil)
		}
	}
	c.Stats["sql_statements"] = len(stmts)
	return stmts
}

func indexOf(toks []string, t string) int {
	for i, x := range toks {
		if x == t {
			return i
		}
	}
	return -1
}

// checkSelectSiblings (C10.R6): every SELECT on the log has the same
// FROM events WHERE position > ? ORDER BY position core.
func checkSelectSiblings(c *Ctx, stmts []sqlStmt, rule string) {
	n := 0
	for _, s := range stmts {
		if s.Tokens[0] != "SELECT" || tableOf(s.Tokens) != "events" {
			continue
		}
		// only statements that read events (their type or data); an aggregate over the
		// table (COUNT, MAX(position)) delivers no event
		readsEvents := false
		for _, t := range s.Tokens[1:] {
			if t == "FROM" {
				break
			}
			if t == "DATA" || t == "TYPE" || t == "*" && !has(s.Tokens, "COUNT", "(", "*", ")") {
				readsEvents = true
			}
		}
		if !readsEvents {
			c.Discharge(rule, "sql-select-on-log/"+sqlKey(s), s.Pos, "does not read events (no type/data column selected)")
			continue
		}
		n++
		ok := has(s.Tokens, "SELECT", "POSITION", ",", "TYPE", ",", "DATA", ",", "TIMESTAMP", "FROM", "EVENTS", "WHERE", "POSITION", ">", "?", "ORDER", "BY", "POSITION")
		if ok {
			rest := strings.Join(s.Tokens, " ")
			rest = rest[strings.Index(rest, "ORDER BY POSITION")+len("ORDER BY POSITION"):]
			rest = strings.TrimSpace(rest)
			ok = rest == "" || rest == "LIMIT ?"
		}
		c.Check(ok, rule, "sql-select-on-log/"+sqlKey(s), s.Pos, "SELECT position, type, data, timestamp FROM events WHERE position > ? ORDER BY position [LIMIT ?]", "a read of the log does not select `WHERE position > ? ORDER BY position` (strictly after the offset, in log order) like its siblings: "+s.Text)
	}
	c.Floor(rule, "SELECTs on the log", n, 2)
}

// ---------------------------------------------------------------------------
// C10.R5 memory store ownership; C10.R6 memory predicate.

func checkMemoryLogOwnership(c *Ctx, p *Prog, rule string) {
	n := 0
	for _, f := range p.FuncsIn(PkgBus) {
		for _, b := range f.Blocks {
			for _, in := range b.Instrs {
				st, ok := in.(*ssa.Store)
				if !ok {
					continue
				}
				if tn, fld, base, ok := fieldOfAddr(st.Addr); ok && tn == "MemoryStore" && fld == discoverMem(p).Events {
					n++
					construct := "memory-store/events-writer/" + FuncDisplay(f)
					if isFreshObject(base) {
						c.Discharge(rule, construct, p.Pos(in.Pos()), "constructor")
						continue
					}
					okApp := false
					if call, ok := stripConv(st.Val).(*ssa.Call); ok {
						if bi, ok := call.Common().Value.(*ssa.Builtin); ok && bi.Name() == "append" && len(call.Common().Args) == 2 {
							if tn2, f2, _, ok := fieldLoad(call.Common().Args[0]); ok && tn2 == "MemoryStore" && f2 == discoverMem(p).Events {
								okApp = f.Name() == "Append"
							}
						}
					}
					c.Check(okApp, rule, construct, p.Pos(in.Pos()), "events = append(events, x) in Append", "the in-memory log is modified other than by appending in Append")
				}
				// element stores into the log
				if ia, ok := st.Addr.(*ssa.IndexAddr); ok {
					if tn, fld, _, ok := fieldLoad(ia.X); ok && tn == "MemoryStore" && fld == discoverMem(p).Events {
						c.Violate(rule, "memory-store/events-element-store/"+FuncDisplay(f), p.Pos(in.Pos()), "an element of the in-memory log is overwritten", nil)
					}
				}
				// fields of a stored event written after it was appended
				if tn, _, base, ok := fieldOfAddr(st.Addr); ok && tn == "StoredEvent" {
					if _, fresh := stripConv(base).(*ssa.Alloc); !fresh {
						c.Violate(rule, "stored-event-mutated/"+FuncDisplay(f), p.Pos(in.Pos()), "a field of an existing StoredEvent is modified (events handed out by the memory store alias its log: the persisted type name / data change for every later reader)", nil)
					}
				}
			}
		}
	}
	c.Floor(rule, "writers of the in-memory log", n, 2)
}

// checkMemoryPredicate: every loop over the in-memory log selects exactly the events
// strictly after the start offset (all of them when the start is OffsetOldest). The
// selection is decided by evaluating the loop body's branch conditions for the four
// feasible combinations of (from == "", event.Offset <,=,> from) — whatever polarity,
// nesting or helper structure the source uses.
func checkMemoryPredicate(c *Ctx, p *Prog, rule string) {
	M := discoverMem(p)
	n := 0
	for _, fn := range p.FuncsIn(PkgBus) {
		li := loopsOf(fn)
		for header, body := range li.body {
			// a loop indexing the log
			var elemAddr *ssa.IndexAddr
			for b := range body {
				for _, in := range b.Instrs {
					if ia, ok := in.(*ssa.IndexAddr); ok {
						if tn, fld, _, ok := fieldLoad(ia.X); ok && tn == "MemoryStore" && fld == M.Events {
							elemAddr = ia
						}
					}
				}
			}
			if elemAddr == nil {
				continue
			}
			// the selecting instruction: append(x, elem) or a yield of elem
			var sel ssa.Instruction
			isElem := func(v ssa.Value) bool {
				ld, ok := stripConv(v).(*ssa.UnOp)
				return ok && ld.Op == token.MUL && ld.X == ssa.Value(elemAddr)
			}
			for b := range body {
				for _, in := range b.Instrs {
					switch x := in.(type) {
					case *ssa.Store:
						if _, ok := x.Addr.(*ssa.IndexAddr); ok && isElem(x.Val) {
							sel = in // element placed into a varargs array for append
						}
					case *ssa.Call:
						if isDynamicCall(x.Common()) && len(x.Common().Args) == 2 && isElem(x.Common().Args[0]) {
							sel = in
						}
					}
				}
			}
			if sel == nil {
				continue
			}
			n++
			name := "memory-store/" + FuncDisplay(fn) + "/read-predicate"
			type env struct {
				fromEmpty bool
				cmp       int // -1 lt, 0 eq, 1 gt  (event.Offset vs from)
			}
			// A small symbolic evaluator for the selection condition: comparisons between
			// the element's Offset and the start offset, tests of the start offset against
			// "", negation, hoisted booleans, phis (resolved along the walked path) and calls
			// of boolean helpers of the package (interpreted with their parameters bound).
			type bindT map[*ssa.Parameter]string
			var evalBool func(v ssa.Value, prev *ssa.BasicBlock, bd bindT, e env, d int) (bool, bool)
			class := func(v ssa.Value, bd bindT) string {
				v = stripConv(v)
				if pr, ok := v.(*ssa.Parameter); ok {
					if c, ok := bd[pr]; ok {
						return c
					}
				}
				if k, ok := v.(*ssa.Const); ok {
					if k.Value != nil && k.Value.ExactString() == `""` {
						return "empty"
					}
					return "other"
				}
				if tn, fld, base, ok := fieldLoad(v); ok && tn == "StoredEvent" && fld == "Offset" {
					if isElem(base) {
						return "elemOff"
					}
					if pr, ok := stripConv(base).(*ssa.Parameter); ok && bd[pr] == "elem" {
						return "elemOff" // a helper given the element
					}
					return "other"
				}
				if isElem(v) {
					return "elem"
				}
				if isNamed(v.Type(), PkgBus, "Offset") {
					return "from"
				}
				return "other"
			}
			var interpret func(fn *ssa.Function, bd bindT, e env, d int) (bool, bool)
			interpret = func(fn *ssa.Function, bd bindT, e env, d int) (bool, bool) {
				if d > 3 || len(fn.Blocks) == 0 {
					return false, false
				}
				var prev *ssa.BasicBlock
				blk := fn.Blocks[0]
				for i := 0; i < 64; i++ {
					switch t := blk.Instrs[len(blk.Instrs)-1].(type) {
					case *ssa.If:
						v, known := evalBool(t.Cond, prev, bd, e, d)
						if !known {
							return false, false
						}
						prev = blk
						if v {
							blk = blk.Succs[0]
						} else {
							blk = blk.Succs[1]
						}
					case *ssa.Jump:
						prev, blk = blk, blk.Succs[0]
					case *ssa.Return:
						if len(t.Results) != 1 {
							return false, false
						}
						return evalBool(t.Results[0], prev, bd, e, d)
					default:
						return false, false
					}
				}
				return false, false
			}
			evalBool = func(v ssa.Value, prev *ssa.BasicBlock, bd bindT, e env, d int) (bool, bool) {
				switch x := v.(type) {
				case *ssa.Const:
					if x.Value != nil && isBoolConst(x) {
						return x.Value.ExactString() == "true", true
					}
					return false, false
				case *ssa.UnOp:
					if x.Op == token.NOT {
						r, k := evalBool(x.X, prev, bd, e, d)
						return !r, k
					}
					return false, false
				case *ssa.Phi:
					// the phi sits at the head of the block entered from prev
					for i, pr := range x.Block().Preds {
						if pr == prev && i < len(x.Edges) {
							return evalBool(x.Edges[i], nil, bd, e, d)
						}
					}
					return false, false
				case *ssa.Call:
					sc := x.Common().StaticCallee()
					if sc == nil || PkgOf(sc) != PkgBus || isDynamicCall(x.Common()) {
						return false, false
					}
					nb := bindT{}
					for i, a := range x.Common().Args {
						if i < len(sc.Params) {
							nb[sc.Params[i]] = class(a, bd)
						}
					}
					return interpret(sc, nb, e, d+1)
				case *ssa.BinOp:
					cx, cy := class(x.X, bd), class(x.Y, bd)
					op := x.Op
					if cx == "from" && cy == "elemOff" { // normalise to elemOff op from
						cx, cy = cy, cx
						switch op {
						case token.LSS:
							op = token.GTR
						case token.LEQ:
							op = token.GEQ
						case token.GTR:
							op = token.LSS
						case token.GEQ:
							op = token.LEQ
						}
					}
					switch {
					case (op == token.EQL || op == token.NEQ) && ((cx == "from" && cy == "empty") || (cx == "empty" && cy == "from")):
						return e.fromEmpty == (op == token.EQL), true
					case cx == "elemOff" && cy == "from":
						switch op {
						case token.GTR:
							return e.cmp > 0, true
						case token.GEQ:
							return e.cmp >= 0, true
						case token.LSS:
							return e.cmp < 0, true
						case token.LEQ:
							return e.cmp <= 0, true
						case token.EQL:
							return e.cmp == 0, true
						case token.NEQ:
							return e.cmp != 0, true
						}
					}
					return false, false
				}
				return false, false
			}
			eval := func(cond ssa.Value, prev *ssa.BasicBlock, e env) (bool, bool) {
				return evalBool(cond, prev, bindT{}, e, 0)
			}
			// walk from the block that loads the element
			selected := func(e env) (bool, bool) {
				seen := map[*ssa.BasicBlock]bool{}
				blk := elemAddr.Block()
				var prev *ssa.BasicBlock
				for i := 0; i < 64; i++ {
					if blk == sel.Block() {
						return true, true
					}
					if seen[blk] || !body[blk] || (blk == header && i > 0) {
						return false, true
					}
					seen[blk] = true
					switch t := blk.Instrs[len(blk.Instrs)-1].(type) {
					case *ssa.If:
						v, known := eval(t.Cond, prev, e)
						if !known {
							return false, false
						}
						prev = blk
						if v {
							blk = blk.Succs[0]
						} else {
							blk = blk.Succs[1]
						}
					case *ssa.Jump:
						prev, blk = blk, blk.Succs[0]
					default:
						return false, true
					}
				}
				return false, false
			}
			okAll, undecided := true, false
			var bad []string
			for _, tc := range []struct {
				e    env
				want bool
				desc string
			}{
				{env{true, 1}, true, "from is OffsetOldest"},
				{env{false, 1}, true, "event after from"},
				{env{false, 0}, false, "event at from"},
				{env{false, -1}, false, "event before from"},
			} {
				got, decided := selected(tc.e)
				if !decided {
					undecided = true
					continue
				}
				if got != tc.want {
					okAll = false
					bad = append(bad, fmt.Sprintf("%s: selected=%v want %v", tc.desc, got, tc.want))
				}
			}
			switch {
			case undecided:
				c.Unresolved(rule, name, "cannot evaluate the selection condition of this loop over the log")
			case okAll:
				c.Discharge(rule, name, p.Pos(sel.Pos()), "selects exactly the events strictly after the start offset (all when it is OffsetOldest)")
			default:
				c.Violate(rule, name, p.Pos(sel.Pos()), "this loop over the in-memory log does not select exactly the events strictly after the start offset: "+strings.Join(bad, "; "), nil)
			}
		}
	}
	c.Floor(rule, "loops over the in-memory log", n, 1)
}

func firstAnon(f *ssa.Function) *ssa.Function {
	if f == nil || len(f.AnonFuncs) == 0 {
		return nil
	}
	return f.AnonFuncs[0]
}

func isFromParam(v ssa.Value) bool {
	v = stripConv(v)
	if p, ok := v.(*ssa.Parameter); ok {
		return p.Name() == "from"
	}
	if ld, ok := v.(*ssa.UnOp); ok && ld.Op == token.MUL {
		if fv, ok := ld.X.(*ssa.FreeVar); ok {
			return fv.Name() == "from"
		}
	}
	if fv, ok := v.(*ssa.FreeVar); ok {
		return fv.Name() == "from"
	}
	return false
}

// checkLimitSemantics: each Read treats limit <= 0 as unlimited.
func checkLimitSemantics(c *Ctx, p *Prog, pkg, typ, rule string) {
	f := p.Method(pkg, typ, "Read")
	if f == nil {
		return
	}
	okLim := false
	limit := intParam(f)
	if limit == nil {
		c.Unresolved(rule, "UNRESOLVED-ANCHOR/"+typ+".Read/limit", "Read has no single int parameter")
		return
	}
	// the comparison may sit in a helper the limit is handed to
	web := paramWeb(p, limit)
	for _, g := range reachFuncs(p, f, pkg) {
		for _, b := range g.Blocks {
			for _, in := range b.Instrs {
				bo, ok := in.(*ssa.BinOp)
				if !ok {
					continue
				}
				if inWeb(web, bo.X) && isConstInt(bo.Y, 0) && (bo.Op == token.GTR || bo.Op == token.LEQ) {
					okLim = true
				}
				if inWeb(web, bo.Y) && isConstInt(bo.X, 0) && (bo.Op == token.LSS || bo.Op == token.GEQ) {
					okLim = true
				}
			}
		}
	}
	c.Check(okLim, rule, shortPkg(pkg)+"."+typ+".Read/limit-nonpositive-means-all", p.Pos(f.Pos()), "limit is applied only when > 0", "Read does not treat limit <= 0 as 'no limit' like its siblings")
}

// checkLoadOffsetNotFound: LoadOffset's not-found path returns (OffsetOldest, nil).
func checkLoadOffsetNotFound(c *Ctx, p *Prog, pkg, typ, rule string) {
	f := p.Method(pkg, typ, "LoadOffset")
	if f == nil {
		c.Unresolved(rule, "UNRESOLVED-ANCHOR/"+typ+".LoadOffset", "method not found")
		return
	}
	ok := false
	for _, ret := range returnsOf(f) {
		if len(ret.Results) != 2 {
			continue
		}
		o, e := resolveResult(ret, 0), resolveResult(ret, 1)
		ke, ok2 := e.(*ssa.Const)
		if !ok2 || ke.Value != nil {
			continue
		}
		// the offset result: the returned constant, or any value a named result cell is given
		vals := []ssa.Value{o}
		if ld, isLd := o.(*ssa.UnOp); isLd && ld.Op == token.MUL {
			if al, isAl := ld.X.(*ssa.Alloc); isAl {
				for _, ref := range *al.Referrers() {
					if st, isSt := ref.(*ssa.Store); isSt && st.Addr == al {
						vals = append(vals, st.Val)
					}
				}
			}
		}
		for _, v := range vals {
			if ko, ok1 := stripConv(v).(*ssa.Const); ok1 && ko.Value != nil && ko.Value.ExactString() == `""` {
				ok = true
			}
		}
	}
	c.Check(ok, rule, shortPkg(pkg)+"."+typ+".LoadOffset/unknown-id-is-oldest", p.Pos(f.Pos()), "an unknown subscription id yields (OffsetOldest, nil)", "LoadOffset has no path returning (OffsetOldest, nil) for an unknown id")
}

// ---------------------------------------------------------------------------
// C14.R1 acknowledge after the statement completed.

type ackRule struct {
	BaseRule
	execKey string
	sawExec bool
	what    string
}

func (r *ackRule) Inline(fn *ssa.Function) bool { return false }
func (r *ackRule) PredOK(string) bool           { return true }

func isExecCall(c *ssa.CallCommon) bool {
	n := calleeName(c)
	return strings.HasSuffix(n, ").ExecContext") || strings.HasSuffix(n, ").Exec")
}

func (r *ackRule) OnInstr(e *Engine, st *State, fc *FrameCtx, in ssa.Instruction) bool {
	switch x := in.(type) {
	case *ssa.Go:
		if isExecCall(&x.Call) {
			e.Report(st, in.Pos(), r.what+"/exec-synchronous", "the statement is executed in a goroutine: the call is acknowledged before the write completed")
		}
	case *ssa.Defer:
		if isExecCall(&x.Call) {
			e.Report(st, in.Pos(), r.what+"/exec-synchronous", "the statement is executed in a deferred call")
		}
	case *ssa.Call:
		n := calleeName(x.Common())
		if isExecCall(x.Common()) {
			r.sawExec = true
			st.Sigma = "x"
			for _, ref := range *x.Referrers() {
				if ex, ok := ref.(*ssa.Extract); ok && ex.Index == 1 {
					r.execKey = nilKey(e.CanonS(fc, ex))
				}
			}
		}
		if strings.HasSuffix(n, ").BeginTx") || strings.HasSuffix(n, ").Begin") {
			e.Report(st, in.Pos(), r.what+"/auto-commit", "the write runs inside an explicit transaction; it must be committed (with the error checked) before the call is acknowledged — not recognised here")
		}
	case *ssa.Return:
		last := x.Results[len(x.Results)-1]
		if k, ok := last.(*ssa.Const); ok && k.Value == nil {
			if st.Sigma != "x" {
				e.Report(st, in.Pos(), r.what+"/ack-after-exec", "the call returns nil on a path that never executed the statement")
			} else if v, known := st.Pred(r.execKey); !(known && v) {
				e.Report(st, in.Pos(), r.what+"/ack-only-on-exec-success", "the call returns nil (acknowledges the write) on a path on which the statement's error is not known to be nil: a failed write — e.g. SQLITE_BUSY — is reported as durable")
			}
		}
	}
	return false
}

func checkAck(c *Ctx, p *Prog, rule, method string) {
	f := p.Method(PkgSQLite, "SQLiteStore", method)
	if f == nil {
		c.Unresolved(rule, "UNRESOLVED-ANCHOR/SQLiteStore."+method, "method not found")
		return
	}
	e := NewEngine(p)
	r := &ackRule{what: "SQLiteStore." + method}
	e.Run(r, f, "n")
	c.Stats["product_states"] += e.States
	if !r.sawExec {
		c.Violate(rule, r.what+"/executes-statement", p.Pos(f.Pos()), method+" never executes a statement", nil)
		return
	}
	if len(e.Findings) == 0 {
		c.Discharge(rule, r.what+"/ack-only-on-exec-success", p.Pos(f.Pos()), "nil is returned only on paths dominated by the synchronous Exec with its error tested nil; auto-commit (no explicit transaction)")
	}
	for _, fd := range e.Findings {
		c.Violate(rule, fd.Construct, p.Pos(fd.Pos), fd.Msg, fd.Trace)
	}
}

// ---------------------------------------------------------------------------
// C14.R2 journal configuration.

func checkJournal(c *Ctx, p *Prog, stmts []sqlStmt, rule string) {
	var journal, sync []sqlStmt
	for _, s := range stmts {
		if s.Tokens[0] != "PRAGMA" || len(s.Tokens) < 2 {
			continue
		}
		switch s.Tokens[1] {
		case "JOURNAL_MODE":
			journal = append(journal, s)
		case "SYNCHRONOUS":
			sync = append(sync, s)
		}
	}
	if len(journal) == 0 {
		c.Violate(rule, "pragma/journal_mode/set", "", "no PRAGMA journal_mode is applied at open", nil)
	}
	for _, s := range journal {
		mode := s.Tokens[len(s.Tokens)-1]
		safe := map[string]bool{"WAL": true, "DELETE": true, "TRUNCATE": true, "PERSIST": true}
		c.Check(safe[mode], rule, "pragma/journal_mode/crash-safe", s.Pos, "journal_mode = "+mode+" keeps a rollback journal / WAL on disk", "journal_mode = "+mode+" keeps no crash-safe journal on disk: a process killed during a commit leaves a corrupt or half-written database")
	}
	for _, s := range sync {
		mode := s.Tokens[len(s.Tokens)-1]
		c.Check(mode != "OFF" && mode != "0", rule, "pragma/synchronous/not-off", s.Pos, "synchronous = "+mode, "synchronous = OFF: acknowledged writes can be lost")
	}
	// every pragma's error is propagated: in the function that executes the pragma list
	// every Exec result error is tested and returned
	// the function that executes the pragmas: whichever function of the package mentions
	// the PRAGMA statements
	var f *ssa.Function
	for _, g := range p.FuncsIn(PkgSQLite) {
		for _, b := range g.Blocks {
			for _, in := range b.Instrs {
				for _, op := range in.Operands(nil) {
					if op == nil || *op == nil {
						continue
					}
					if k, ok := (*op).(*ssa.Const); ok && k.Value != nil && k.Value.Kind() == constant.String && strings.HasPrefix(strings.ToUpper(strings.TrimSpace(constant.StringVal(k.Value))), "PRAGMA JOURNAL_MODE") {
						f = g
					}
				}
			}
		}
	}
	if f == nil {
		c.Unresolved(rule, "UNRESOLVED-ANCHOR/pragma-function", "no function of the package mentions PRAGMA journal_mode")
		return
	}
	okProp := false
	for _, g := range reachFuncs(p, f, PkgSQLite) {
		for _, b := range g.Blocks {
			for _, in := range b.Instrs {
				if call, ok := in.(*ssa.Call); ok && isExecCall(call.Common()) {
					for _, ref := range *call.Referrers() {
						if ex, ok := ref.(*ssa.Extract); ok && ex.Index == 1 {
							for _, r2 := range *ex.Referrers() {
								if bo, ok := r2.(*ssa.BinOp); ok {
									if _, _, ok := nilTest(bo); ok {
										okProp = true
									}
								}
							}
						}
					}
				}
			}
		}
	}
	c.Check(okProp, rule, "pragma/errors-propagated", p.Pos(f.Pos()), "each pragma's error is tested and returned", "pragma errors are ignored: a database that could not be put into its journal mode is used anyway")
	// the caller(s) of the pragma function look at its error
	ix := newIPIndex(p)
	callers := ix.callers[f]
	okNew := len(callers) > 0
	for _, ci := range callers {
		tested := false
		if v, isVal := ci.(ssa.Value); isVal {
			for _, ref := range *v.Referrers() {
				if bo, ok := ref.(*ssa.BinOp); ok {
					if _, _, ok := nilTest(bo); ok {
						tested = true
					}
				}
				if _, isRet := ref.(*ssa.Return); isRet {
					tested = true
				}
			}
		}
		if !tested {
			okNew = false
		}
	}
	c.Check(okNew, rule, "New/pragma-error-checked", p.Pos(f.Pos()), "opening fails when the pragmas cannot be applied", "the caller of the pragma function does not check its error")
}

// ---------------------------------------------------------------------------
// C14.R3 migration is transactional: Commit on success, Rollback on every error path.

type txRule struct{ BaseRule }

func (r *txRule) Inline(fn *ssa.Function) bool { return fn.Parent() != nil || PkgOf(fn) == PkgSQLite }
func (r *txRule) PredOK(string) bool           { return true }

// sigma: [0] tx state n(one) b(egun) c(ommitted) r(olled back)
func (r *txRule) OnInstr(e *Engine, st *State, fc *FrameCtx, in ssa.Instruction) bool {
	if _, isDefer := in.(*ssa.Defer); isDefer && !st.ExecDefer {
		return false
	}
	ci, ok := in.(ssa.CallInstruction)
	if !ok {
		return false
	}
	n := calleeName(ci.Common())
	switch {
	case strings.HasSuffix(n, ").BeginTx") || strings.HasSuffix(n, ").Begin"):
		st.Sigma = "b"
	case strings.HasSuffix(n, "Tx).Commit"):
		if st.Sigma == "b" {
			st.Sigma = "c"
		}
	case strings.HasSuffix(n, "Tx).Rollback"):
		if st.Sigma == "b" {
			st.Sigma = "r"
		}
	}
	return false
}

// a failed Begin leaves no transaction behind
func (r *txRule) OnBranch(e *Engine, st *State, fc *FrameCtx, in *ssa.If, taken bool) {
	x, nonNilOnTrue, ok := nilTest(in.Cond)
	if !ok || taken != nonNilOnTrue {
		return
	}
	if ex, isEx := stripConv(x).(*ssa.Extract); isEx && ex.Index == 1 {
		if call, isCall := ex.Tuple.(*ssa.Call); isCall {
			if n := calleeName(call.Common()); strings.HasSuffix(n, ").BeginTx") || strings.HasSuffix(n, ").Begin") {
				st.Sigma = "n"
			}
		}
	}
}

func (r *txRule) OnExit(e *Engine, st *State, kind ExitKind) {
	if kind == ExitReturn && st.Sigma == "b" {
		e.Report(st, token.NoPos, "migration/tx-ended-on-every-path", "a migration path returns with its transaction neither committed nor rolled back")
	}
}

// localCallee: the function a call goes to when it is a static callee, a closure made in
// place, or a local variable holding one closure.
func localCallee(c *ssa.CallCommon) *ssa.Function {
	if sc := c.StaticCallee(); sc != nil {
		return sc
	}
	v := stripConv(c.Value)
	if ld, ok := v.(*ssa.UnOp); ok && ld.Op == token.MUL {
		if al, ok := ld.X.(*ssa.Alloc); ok {
			var stored ssa.Value
			n := 0
			for _, ref := range *al.Referrers() {
				if st, ok := ref.(*ssa.Store); ok && st.Addr == al {
					stored = st.Val
					n++
				}
			}
			if n == 1 {
				v = stripConv(stored)
			}
		}
	}
	if mc, ok := v.(*ssa.MakeClosure); ok {
		fn, _ := mc.Fn.(*ssa.Function)
		return fn
	}
	return nil
}

func checkMigration(c *Ctx, p *Prog, stmts []sqlStmt, rule string) {
	n := 0
	txFns := map[*ssa.Function]bool{}
	for _, f := range p.FuncsIn(PkgSQLite) {
		if f.Parent() != nil {
			continue
		}
		begins := false
		for _, b := range f.Blocks {
			for _, in := range b.Instrs {
				if ci, ok := in.(ssa.CallInstruction); ok {
					if nm := calleeName(ci.Common()); strings.HasSuffix(nm, ").BeginTx") || strings.HasSuffix(nm, ").Begin") {
						begins = true
					}
				}
			}
		}
		if !begins {
			continue
		}
		n++
		txFns[f] = true
		e := NewEngine(p)
		// the named result `err` decides the deferred rollback: follow it precisely
		e.Run(&txRule{}, f, "n")
		c.Stats["product_states"] += e.States
		name := FuncDisplay(f)
		// the path rule cannot follow the deferred idiom (`defer func(){ if err != nil
		// { Rollback } }()` reads the named result through a cell): it is used for the
		// explicit style only, where every failing path rolls back by itself
		txClean := len(e.Findings) == 0 && !e.Exhausted
		txFindings := e.Findings
		// structural: commit's error is returned; a deferred rollback guarded by the named error result
		commitReturned, deferredRollback := false, false
		for _, cf := range reachFuncs(p, f, PkgSQLite) { // the commit may sit in a helper handed the tx
			for _, b := range cf.Blocks {
				for _, in := range b.Instrs {
					if call, ok := in.(*ssa.Call); ok && strings.HasSuffix(calleeName(call.Common()), "Tx).Commit") {
						for _, ref := range *call.Referrers() {
							switch x := ref.(type) {
							case *ssa.Return:
								commitReturned = true
							case *ssa.Store:
								_ = x
								commitReturned = true
							case *ssa.BinOp:
								// `if err := tx.Commit(); err != nil { …; return err }`
								if _, nonNilOnTrue, isNil := nilTest(x); isNil {
									for _, r2 := range *x.Referrers() {
										if iff, ok := r2.(*ssa.If); ok {
											arm := iff.Block().Succs[1]
											if nonNilOnTrue {
												arm = iff.Block().Succs[0]
											}
											if !reachesNilReturn(arm) {
												commitReturned = true
											}
										}
									}
								}
							case *ssa.Call:
								// handed to a pass-through helper/closure whose result is returned:
								// `return rollbackOnError(tx.Commit())`
								if g := localCallee(x.Common()); g != nil {
									for i, a := range x.Common().Args {
										if a != ssa.Value(call) || i >= len(g.Params) {
											continue
										}
										passes := false
										for _, ret := range returnsOf(g) {
											for _, rv := range ret.Results {
												if stripConv(rv) == ssa.Value(g.Params[i]) {
													passes = true
												}
											}
										}
										if passes {
											for _, r2 := range *x.Referrers() {
												if _, isRet := r2.(*ssa.Return); isRet {
													commitReturned = true
												}
											}
										}
									}
								}
							}
						}
					}
				}
			}
		}
		for _, a := range f.AnonFuncs {
			for _, b := range a.Blocks {
				for _, in := range b.Instrs {
					if ci, ok := in.(ssa.CallInstruction); ok && strings.HasSuffix(calleeName(ci.Common()), "Tx).Rollback") {
						cond, onTrue := guardingCond(b)
						if x, nonNilOnTrue, ok := nilTest(cond); ok && onTrue == nonNilOnTrue && typeName(x.Type()) == "error" {
							deferredRollback = true
						}
					}
				}
			}
		}
		c.Check(commitReturned, rule, name+"/commit-error-returned", p.Pos(f.Pos()), "Commit's error is the function's result", "the migration does not return Commit's error: a failed commit is reported as success")
		// an explicit rollback on every failing path (decided by the path rule above) is as
		// good as the deferred idiom
		hasRollback := false
		for _, g := range append([]*ssa.Function{f}, f.AnonFuncs...) {
			for _, b := range g.Blocks {
				for _, in := range b.Instrs {
					if ci, ok := in.(ssa.CallInstruction); ok && strings.HasSuffix(calleeName(ci.Common()), "Tx).Rollback") {
						hasRollback = true
					}
				}
			}
		}
		if !deferredRollback {
			for _, fd := range txFindings {
				c.Violate(rule, name+"/"+fd.Construct, p.Pos(fd.Pos), fd.Msg, fd.Trace)
			}
		}
		deferredRollback = deferredRollback || (txClean && hasRollback)
		c.Check(deferredRollback, rule, name+"/rollback-on-error", p.Pos(f.Pos()), "a deferred Rollback runs whenever the function's error result is non-nil", "the migration has no deferred Rollback guarded by its error result: a failed step leaves the transaction open")
		// every statement executed inside the transaction goes through the tx handle
		for _, b := range f.Blocks {
			for _, in := range b.Instrs {
				if call, ok := in.(*ssa.Call); ok && isExecCall(call.Common()) {
					viaTx := strings.Contains(calleeName(call.Common()), "sql.Tx)")
					c.Check(viaTx, rule, name+"/exec-through-tx", p.Pos(in.Pos()), "schema statements run through the transaction handle", "a schema statement bypasses the migration transaction (runs on the database handle)")
				}
			}
		}
	}
	c.Floor(rule, "transactional migration functions", n, 1)
	stepReach = func(f *ssa.Function) []*ssa.Function { return reachFuncs(p, f, PkgSQLite) }
	defer func() { stepReach = nil }()
	// every call of a transactional migration step is dominated by a comparison that bounds
	// the stored schema version from above (`version < 1`, or the inverted early return
	// `if version >= 1 { return }`), whatever the functions are called
	sites := 0
	for _, f := range p.FuncsIn(PkgSQLite) {
		for _, b := range f.Blocks {
			for _, in := range b.Instrs {
				call, ok := in.(*ssa.Call)
				if !ok {
					continue
				}
				sc := call.Common().StaticCallee()
				if sc == nil && isDynamicCall(call.Common()) {
					// table-driven: `for _, m := range migrations { if version < m.version { m.apply(…) } }`
					g, fnField, elem, ok := tableElemField(call.Common().Value)
					if !ok {
						continue
					}
					rows, ok := globalTableRows(p, g)
					if !ok {
						c.Unresolved(rule, FuncDisplay(f)+"/migration-table", "a migration step is called through the table "+g.Name()+", which is modified outside its initialiser: cannot tell which steps run")
						continue
					}
					bounded, op, kv := boundedAboveBy(b, func(v ssa.Value) bool {
						_, _, e2, ok := tableElemField(v)
						return ok && e2 == elem
					})
					verField := -1
					if bounded {
						_, verField, _, _ = tableElemField(kv)
					}
					for _, row := range rows {
						step := funcOfValue(row.fields[fnField])
						if step == nil || !txFns[step] {
							continue
						}
						sites++
						okGuard := false
						if bounded {
							if kc, isK := stripConv(row.fields[verField]).(*ssa.Const); isK && kc.Value != nil {
								k, _ := constant.Int64Val(constant.ToInt(kc.Value))
								okGuard = true
								if n, ok := insertedVersion(step); ok {
									consistent := (op == token.LSS && k == n) || (op == token.LEQ && k == n-1) || (op == token.EQL && k < n)
									c.Check(consistent, rule, FuncDisplay(f)+"/call:"+step.Name()+"/guard-matches-recorded-version", p.Pos(in.Pos()), fmt.Sprintf("the row's guard (version %s %d) is true exactly while version %d is not recorded", op, k, n), fmt.Sprintf("the table row's guard (version %s %d) does not match the version the step records (%d): the step is re-run on an up-to-date database or skipped on an old one", op, k, n))
								}
							}
						}
						c.Check(okGuard, rule, FuncDisplay(f)+"/call:"+step.Name()+"/version-guard", p.Pos(in.Pos()), "a migration step of the table runs only when the stored schema version is lower than the row's version", "a migration step called through the table is not guarded by the stored schema version compared with the row's own version")
					}
					continue
				}
				if sc == nil || !txFns[sc] {
					continue
				}
				sites++
				bounded, op, k := versionBoundedAbove(b)
				if n, ok := insertedVersion(sc); ok && bounded {
					consistent := (op == token.LSS && k == n) || (op == token.LEQ && k == n-1) || (op == token.EQL && k < n)
					c.Check(consistent, rule, FuncDisplay(f)+"/call:"+sc.Name()+"/guard-matches-recorded-version", p.Pos(in.Pos()), fmt.Sprintf("the guard (version %s %d) is true exactly while version %d is not recorded", op, k, n), fmt.Sprintf("the guard (version %s %d) does not match the version the step records (%d): the step is re-run on an up-to-date database or skipped on an old one", op, k, n))
				}
				c.Check(bounded, rule, FuncDisplay(f)+"/call:"+sc.Name()+"/version-guard", p.Pos(in.Pos()), "a migration step runs only when the stored schema version is lower", "a migration step is not guarded by the stored schema version: reopening re-runs it (the version insert then fails or duplicates)")
			}
		}
	}
	c.Floor(rule, "call sites of migration steps", sites, 1)
}

// versionBoundedAbove: some integer comparison with a constant dominates blk through the
// branch on which the non-constant side is bounded from above (<, <=, == on that branch).
func versionBoundedAbove(blk *ssa.BasicBlock) (bool, token.Token, int64) {
	ok, op, kv := boundedAboveBy(blk, func(v ssa.Value) bool { _, isK := v.(*ssa.Const); return isK })
	if !ok {
		return false, token.ILLEGAL, 0
	}
	k, _ := constant.Int64Val(constant.ToInt(kv.(*ssa.Const).Value))
	return true, op, k
}

// boundedAboveBy: like versionBoundedAbove with the bounding side chosen by isK (a
// constant, or the version field of a table row); returns that side's value.
func boundedAboveBy(blk *ssa.BasicBlock, isK func(ssa.Value) bool) (bool, token.Token, ssa.Value) {
	for d := blk.Idom(); d != nil; d = d.Idom() {
		iff, ok := d.Instrs[len(d.Instrs)-1].(*ssa.If)
		if !ok {
			continue
		}
		bo, ok := iff.Cond.(*ssa.BinOp)
		if !ok {
			continue
		}
		op := bo.Op
		lc := isK(bo.X)
		rc := isK(bo.Y)
		if lc == rc {
			continue
		}
		if bt, ok := bo.X.Type().Underlying().(*types.Basic); !ok || bt.Info()&types.IsInteger == 0 {
			continue
		}
		if lc { // K op x  ==  x flip(op) K
			switch op {
			case token.LSS:
				op = token.GTR
			case token.LEQ:
				op = token.GEQ
			case token.GTR:
				op = token.LSS
			case token.GEQ:
				op = token.LEQ
			}
		}
		for s, succ := range d.Succs {
			if len(succ.Preds) != 1 || !(succ == blk || succ.Dominates(blk)) {
				continue
			}
			eff := op
			if s == 1 { // false branch: negate
				switch op {
				case token.LSS:
					eff = token.GEQ
				case token.LEQ:
					eff = token.GTR
				case token.GTR:
					eff = token.LEQ
				case token.GEQ:
					eff = token.LSS
				case token.EQL:
					eff = token.NEQ
				case token.NEQ:
					eff = token.EQL
				}
			}
			if eff == token.LSS || eff == token.LEQ || eff == token.EQL {
				if lc {
					return true, eff, bo.X
				}
				return true, eff, bo.Y
			}
		}
	}
	return false, token.ILLEGAL, nil
}

var insertVersionRe = regexp.MustCompile(`(?is)INSERT\s+(?:OR\s+\w+\s+)?INTO\s+schema_version\b[^;]*?VALUES\s*\(\s*(\d+)`)

// insertedVersion: the schema version a migration step records (literal in its INSERT).
func insertedVersion(f *ssa.Function) (int64, bool) {
	var found []int64
	fs := []*ssa.Function{f}
	if stepReach != nil {
		fs = stepReach(f) // the INSERT may sit in a helper the step hands its transaction to
	}
	for _, f := range fs {
		for _, b := range f.Blocks {
			for _, in := range b.Instrs {
				for _, op := range in.Operands(nil) {
					if k, ok := (*op).(*ssa.Const); ok && k.Value != nil && k.Value.Kind() == constant.String {
						if m := insertVersionRe.FindStringSubmatch(constant.StringVal(k.Value)); m != nil {
							n, _ := strconv.ParseInt(m[1], 10, 64)
							found = append(found, n)
						}
					}
				}
			}
		}
	}
	if len(found) == 1 {
		return found[0], true
	}
	return 0, false
}

// stepReach: the functions of the store package a migration step reaches (set by the
// migration rule, which owns the program).
var stepReach func(f *ssa.Function) []*ssa.Function

// ---------------------------------------------------------------------------
// C14.R4 (files): the store package never deletes, truncates or renames files.

func checkNoFileDestruction(c *Ctx, p *Prog, rule string) {
	bad := map[string]bool{"os.Remove": true, "os.RemoveAll": true, "os.Truncate": true, "os.Rename": true, "os.WriteFile": true, "os.Create": true, "(*os.File).Truncate": true, "io/ioutil.WriteFile": true}
	n := 0
	for _, f := range p.FuncsIn(PkgSQLite) {
		for _, b := range f.Blocks {
			for _, in := range b.Instrs {
				if ci, ok := in.(ssa.CallInstruction); ok {
					nm := calleeName(ci.Common())
					if bad[nm] {
						n++
						c.Violate(rule, "file-destruction/"+nm+"/in/"+FuncDisplay(f), p.Pos(in.Pos()), "the SQLite store calls "+nm+": removing or rewriting database side files (-wal, -shm, journal) discards commits that only live in the write-ahead log after an unclean shutdown", nil)
					}
				}
			}
		}
	}
	if n == 0 {
		c.Discharge(rule, "file-destruction/none", "", "no call that deletes, truncates, renames or overwrites files anywhere in the package")
	}
}

// checkAppendBindsValues (C10 fidelity mechanism / C14): Append hands the event's
// type, data and timestamp to the driver as they are.
func checkAppendBinds(c *Ctx, p *Prog, rule string) {
	f := p.Method(PkgSQLite, "SQLiteStore", "Append")
	if f == nil {
		return
	}
	for _, b := range f.Blocks {
		for _, in := range b.Instrs {
			call, ok := in.(*ssa.Call)
			if !ok || !isExecCall(call.Common()) {
				continue
			}
			// varargs slice
			args := call.Common().Args
			sl, ok := args[len(args)-1].(*ssa.Slice)
			if !ok {
				continue
			}
			al, ok := sl.X.(*ssa.Alloc)
			if !ok {
				continue
			}
			got := map[string]bool{}
			for _, ref := range *al.Referrers() {
				ia, ok := ref.(*ssa.IndexAddr)
				if !ok {
					continue
				}
				for _, r2 := range *ia.Referrers() {
					if st, ok := r2.(*ssa.Store); ok && st.Addr == ia {
						if tn, fld, _, ok := fieldLoad(st.Val); ok && tn == "Event" {
							got[fld] = true
						}
					}
				}
			}
			okAll := got["Type"] && got["Data"] && got["Timestamp"]
			c.Check(okAll, rule, "SQLiteStore.Append/binds-event-fields-unchanged", p.Pos(in.Pos()), "Type, Data and Timestamp are bound to the statement as the event's own field values", "Append does not bind the event's Type, Data and Timestamp field values directly (a converted or re-formatted value is stored): what is read back is not what was appended")
		}
	}
}

// checkBatchedStream (C11.R3 / C10.R6): the batched SQLite stream decides "this was the
// last batch" by comparing the number of rows it got with the very value it passed as
// LIMIT, and continues from the last position it saw.
func checkBatchedStream(c *Ctx, p *Prog, rule string) {
	n := 0
	for _, f := range p.FuncsIn(PkgSQLite) {
		li := loopsOf(f)
		for _, b := range f.Blocks {
			for _, in := range b.Instrs {
				call, ok := in.(*ssa.Call)
				if !ok || !strings.HasSuffix(calleeName(call.Common()), ").QueryContext") || li.headerOf[b] == nil {
					continue
				}
				// SQL text with LIMIT ?
				var sqlText string
				for _, a := range call.Common().Args {
					if k, ok := a.(*ssa.Const); ok && k.Value != nil && k.Value.Kind() == constant.String {
						sqlText = strings.ToUpper(constant.StringVal(k.Value))
					}
				}
				if !strings.Contains(sqlText, "LIMIT ?") {
					continue
				}
				n++
				name := FuncDisplay(f) + "/batched-query"
				// bound arguments
				var bound []ssa.Value
				if sl, ok := call.Common().Args[len(call.Common().Args)-1].(*ssa.Slice); ok {
					if al, ok := sl.X.(*ssa.Alloc); ok {
						tmp := map[int64]ssa.Value{}
						for _, ref := range *al.Referrers() {
							if ia, ok := ref.(*ssa.IndexAddr); ok {
								idx, _ := ia.Index.(*ssa.Const)
								for _, r2 := range *ia.Referrers() {
									if st, ok := r2.(*ssa.Store); ok && st.Addr == ia && idx != nil {
										tmp[idx.Int64()] = stripConv(st.Val)
									}
								}
							}
						}
						for i := int64(0); i < int64(len(tmp)); i++ {
							bound = append(bound, tmp[i])
						}
					}
				}
				if len(bound) < 2 {
					c.Unresolved(rule, name+"/bound-args", "cannot see the values bound to the batched query")
					continue
				}
				limitVal := bound[len(bound)-1]
				cursor := bound[0]
				header := li.headerOf[b]
				body := li.body[header]
				// the end-of-log test
				okEnd := false
				var seen []string
				for blk := range body {
					iff, ok := blk.Instrs[len(blk.Instrs)-1].(*ssa.If)
					if !ok {
						continue
					}
					bo, ok := iff.Cond.(*ssa.BinOp)
					if !ok || (bo.Op != token.LSS && bo.Op != token.GEQ) || !isBasicKind(bo.X.Type(), types.Int) {
						continue
					}
					leaves := false
					for _, s := range blk.Succs {
						if !body[s] {
							leaves = true
						}
					}
					if !leaves {
						continue
					}
					seen = append(seen, bo.String())
					if stripConv(bo.Y) == limitVal {
						okEnd = true
					}
				}
				c.Check(okEnd, rule, name+"/short-batch-test-agrees-with-LIMIT", p.Pos(in.Pos()), "the loop ends when a batch has fewer rows than the value bound to LIMIT", "the 'fewer rows than the batch size means end of log' test compares with a different value than the one bound to LIMIT (the query is clamped or sized differently): a full batch is taken for the last one and the stream ends early without an error")
				// the cursor advances to the last position seen
				okCur := false
				if ph, ok := cursor.(*ssa.Phi); ok {
					for _, ed := range ph.Edges {
						if ex, ok := stripConv(ed).(*ssa.Extract); ok {
							if _, ok := ex.Tuple.(*ssa.Call); ok && isBasicKind(ex.Type(), types.Int64) {
								okCur = true
							}
						}
					}
				}
				c.Check(okCur, rule, name+"/cursor-is-last-position", p.Pos(in.Pos()), "the next batch starts after the last position the previous batch saw", "the batched stream does not continue from the last position it saw")
			}
		}
	}
	c.Floor(rule, "batched queries", n, 1)
}

// checkPoolNotStarved (C03.R7): ReadStream yields to the consumer while its rows cursor
// (one pooled connection) is open; a consumer may call back into the store (a replay
// handler that publishes → Append). With the pool capped at one connection that call waits
// for the connection the stream itself holds: a self-deadlock.
func checkPoolNotStarved(c *Ctx, p *Prog, rule string) {
	n := 0
	for _, f := range p.FuncsIn(PkgSQLite) {
		for _, b := range f.Blocks {
			for _, in := range b.Instrs {
				call, ok := in.(*ssa.Call)
				if !ok {
					continue
				}
				switch calleeName(call.Common()) {
				case "(*database/sql.DB).SetMaxOpenConns":
					n++
					k, isK := call.Common().Args[1].(*ssa.Const)
					if isK && k.Value != nil && k.Int64() >= 2 {
						c.Discharge(rule, "sqlite/pool-size/"+FuncDisplay(f), p.Pos(in.Pos()), "pool cap ≥ 2")
					} else if isK && k.Value != nil && k.Int64() <= 0 {
						c.Discharge(rule, "sqlite/pool-size/"+FuncDisplay(f), p.Pos(in.Pos()), "unlimited pool")
					} else {
						c.Violate(rule, "sqlite/pool-size/"+FuncDisplay(f), p.Pos(in.Pos()), "the connection pool is capped below two connections, but ReadStream yields to its consumer while holding a connection for its open cursor: a replay callback that publishes (Append) or reads waits forever for the connection the stream holds", nil)
					}
				case "(*database/sql.DB).Conn", "(*database/sql.DB).BeginTx", "(*database/sql.DB).Begin":
					// a pinned connection / long transaction held by the store would have the same effect; BeginTx in migrations is fine (constructor)
				}
			}
		}
	}
	if n == 0 {
		c.Discharge(rule, "sqlite/pool-size/default", "", "the pool is not capped (database/sql default: unlimited)")
	}
	// exclusive locking mode makes every second connection fail to write
	for _, s := range collectSQL(p, PkgSQLite) {
		if s.Tokens[0] == "PRAGMA" && len(s.Tokens) >= 2 && s.Tokens[1] == "LOCKING_MODE" {
			mode := s.Tokens[len(s.Tokens)-1]
			c.Check(mode == "NORMAL", rule, "sqlite/pragma/locking_mode", s.Pos, "locking_mode = NORMAL", "locking_mode = "+mode+": the first pooled connection keeps the database file locked, so an append issued while a read cursor of another connection is open fails with SQLITE_BUSY and the publish is not recorded")
		}
	}
}

// checkTimestampLayout (C10.R6): the durable-streams store writes timestamps with a
// layout that carries the zone offset, and reads them back with the same layout.
func checkTimestampLayout(c *Ctx, p *Prog, rule string) {
	var wrote, parsed []string
	var wpos, ppos string
	for _, f := range p.FuncsIn(PkgDurable) {
		for _, b := range f.Blocks {
			for _, in := range b.Instrs {
				call, ok := in.(*ssa.Call)
				if !ok {
					continue
				}
				switch calleeName(call.Common()) {
				case "(time.Time).Format":
					if k, ok := call.Common().Args[1].(*ssa.Const); ok && k.Value != nil {
						wrote = append(wrote, constant.StringVal(k.Value))
						wpos = p.Pos(in.Pos())
						// .UTC() first makes a literal Z right
						if u, ok := stripConv(call.Common().Args[0]).(*ssa.Call); ok && calleeName(u.Common()) == "(time.Time).UTC" {
							wrote[len(wrote)-1] += "|utc"
						}
					}
				case "time.Parse":
					if k, ok := call.Common().Args[0].(*ssa.Const); ok && k.Value != nil {
						parsed = append(parsed, constant.StringVal(k.Value))
						ppos = p.Pos(in.Pos())
					}
				}
			}
		}
	}
	if len(wrote) == 0 || len(parsed) == 0 {
		c.Unresolved(rule, "durablestream/timestamp-layout", "cannot find the Format / Parse layouts of the durable-streams store")
		return
	}
	for _, w := range wrote {
		utc := strings.HasSuffix(w, "|utc")
		layout := strings.TrimSuffix(w, "|utc")
		zoneOK := strings.Contains(layout, "Z07:00") || strings.Contains(layout, "-07:00") || strings.Contains(layout, "-0700") || strings.Contains(layout, "Z0700") || utc
		c.Check(zoneOK && strings.Contains(layout, "999999999") || zoneOK && strings.Contains(layout, "000000000"), rule, "durablestream/timestamp-layout/written", wpos, "timestamps are written with nanoseconds and their zone offset ("+layout+")", "timestamps are written with layout "+layout+", which drops the zone offset (a bare Z in a Go layout is a literal) or the nanoseconds: the instant read back differs for any non-UTC timestamp")
		agree := false
		for _, pl := range parsed {
			if pl == layout {
				agree = true
			}
		}
		c.Check(agree, rule, "durablestream/timestamp-layout/reader-agrees", ppos, "the reader parses with the writer's layout", "the reader parses timestamps with a different layout than the writer uses")
	}
}

// checkLimitUses (C10.R6): the limit parameter of a Read only flows into comparisons, or
// into uses guarded by limit > 0 — never into an allocation size or slice bound.
func checkLimitUses(c *Ctx, p *Prog, pkg, typ, rule string) {
	f := p.Method(pkg, typ, "Read")
	if f == nil {
		return
	}
	limit := intParam(f)
	if limit == nil {
		c.Unresolved(rule, shortPkg(pkg)+"."+typ+".Read/limit-parameter", "Read has no single int parameter")
		return
	}
	// the limit, also where it is handed on to helpers of the package
	web := paramWeb(p, limit)
	ok := true
	for _, g := range reachFuncs(p, f, pkg) {
		for _, b := range g.Blocks {
			for _, in := range b.Instrs {
				uses := false
				for _, op := range in.Operands(nil) {
					if op != nil && *op != nil && inWeb(web, *op) {
						uses = true
					}
				}
				if !uses {
					continue
				}
				switch x := in.(type) {
				case *ssa.BinOp:
					switch x.Op {
					case token.GTR, token.LSS, token.GEQ, token.LEQ, token.EQL, token.NEQ:
					default:
						ok = false
						c.Violate(rule, shortPkg(pkg)+"."+typ+".Read/limit-only-compared", p.Pos(in.Pos()), "the limit takes part in arithmetic ("+x.Op.String()+"): a negative limit (documented as 'no limit') gives a nonsensical bound", nil)
					}
				case *ssa.MakeSlice, *ssa.Slice, *ssa.Convert, *ssa.IndexAddr, *ssa.Index:
					ok = false
					c.Violate(rule, shortPkg(pkg)+"."+typ+".Read/limit-only-compared", p.Pos(in.Pos()), "the limit is used as an allocation size, slice bound or index: a negative limit (documented as 'no limit') or a very large one makes Read panic", nil)
				case *ssa.Call:
					if _, isB := x.Common().Value.(*ssa.Builtin); isB {
						ok = false
						c.Violate(rule, shortPkg(pkg)+"."+typ+".Read/limit-only-compared", p.Pos(in.Pos()), "the limit is passed to a builtin (size/bound)", nil)
					}
				}
			}
		}
	}
	if ok {
		c.Discharge(rule, shortPkg(pkg)+"."+typ+".Read/limit-only-compared", p.Pos(f.Pos()), "the limit is only compared (and bound to queries / logged)")
	}
}

// checkNoRetryTransport (C13.R5): the durable-streams client is built without a retrying
// transport — re-sending a non-idempotent append whose response was lost writes the event twice.
func checkNoRetryTransport(c *Ctx, p *Prog, rule string) {
	bad := 0
	for _, f := range p.FuncsIn(PkgDurable) {
		for _, b := range f.Blocks {
			for _, in := range b.Instrs {
				if ci, ok := in.(ssa.CallInstruction); ok {
					n := calleeName(ci.Common())
					if strings.Contains(n, "Retry") || strings.Contains(n, "retry") {
						bad++
						c.Violate(rule, "durablestream/no-retrying-transport/"+FuncDisplay(f), p.Pos(in.Pos()), "the durable-streams client is wrapped in a retrying transport ("+n+"): an append whose response was lost (5xx after the write was applied) is sent again — the event is written twice and the failure is not reported", nil)
					}
				}
			}
		}
	}
	if bad == 0 {
		c.Discharge(rule, "durablestream/no-retrying-transport", "", "no retry middleware in the client construction: a rejected append is reported, not re-sent")
	}
}

// ---------------------------------------------------------------------------
// Fresh decode targets in the stores' read loops (C09.R3, C10.R6, C11.R3, C14.R4, C19.R1).
//
// A record decoded inside a loop (json.Unmarshal, Decoder.Decode, Rows.Scan) must be
// decoded into an object allocated in that iteration: json.Unmarshal merges into its
// target (absent fields keep the previous record's values, RawMessage re-uses the previous
// backing array), and a hoisted *StoredEvent makes every returned / yielded event the same
// object. Scalar targets (an int64 position, a string) are exempt: they are copied.

func checkStoreDecodeTargets(c *Ctx, p *Prog, pkg, rule string) {
	n := 0
	for _, f := range p.FuncsIn(pkg) {
		li := loopsOf(f)
		ord := 0
		for _, b := range f.Blocks {
			for _, in := range b.Instrs {
				call, ok := in.(*ssa.Call)
				if !ok {
					continue
				}
				var targets []ssa.Value
				switch cn := calleeName(call.Common()); {
				case cn == "encoding/json.Unmarshal" && len(call.Common().Args) == 2:
					targets = []ssa.Value{call.Common().Args[1]}
				case strings.HasSuffix(cn, "json.Decoder).Decode") && len(call.Common().Args) == 2:
					targets = []ssa.Value{call.Common().Args[1]}
				case (strings.HasSuffix(cn, ").Scan") || strings.HasSuffix(cn, ".Scan")) && len(call.Common().Args) > 0:
					// (*sql.Rows).Scan, (*sql.Row).Scan or the package's row-scanner interface
					targets = variadicElems(call.Common().Args[len(call.Common().Args)-1])
					if len(targets) == 0 {
						continue
					}
				default:
					continue
				}
				ord++
				c.Stats["decode_sites"]++
				h := li.headerOf[b]
				if h == nil {
					continue // not in a loop: one decode per call
				}
				n++
				construct := fmt.Sprintf("%s/decode-in-loop#%d/fresh-target", FuncDisplay(f), ord)
				bad := ""
				for _, t := range targets {
					root := decodeRoot(t)
					if root == nil {
						continue
					}
					if _, basic := root.Type().Underlying().(*types.Pointer).Elem().Underlying().(*types.Basic); basic {
						continue
					}
					if !li.body[h][root.Block()] {
						bad = describeValue(root)
					}
				}
				c.Check(bad == "", rule, construct, p.Pos(in.Pos()), "every aggregate decode target is allocated inside the loop iteration", "records are decoded in a loop into "+bad+", which is allocated once outside the loop: each record is decoded on top of the previous one (stale fields, shared byte buffers) and all returned events alias one object")
			}
		}
	}
	c.Stats["decode_in_loop_sites"] += n
}

// variadicElems: the values stored into the array backing a variadic argument.
func variadicElems(v ssa.Value) []ssa.Value {
	sl, ok := v.(*ssa.Slice)
	if !ok {
		return nil
	}
	al, ok := sl.X.(*ssa.Alloc)
	if !ok {
		return nil
	}
	var out []ssa.Value
	for _, ref := range *al.Referrers() {
		if ia, ok := ref.(*ssa.IndexAddr); ok {
			for _, r2 := range *ia.Referrers() {
				if st, ok := r2.(*ssa.Store); ok && st.Addr == ia {
					out = append(out, st.Val)
				}
			}
		}
	}
	return out
}

// decodeRoot: the allocation a decode target points into (&x, &x.f, p.f with p := new(T)).
func decodeRoot(v ssa.Value) *ssa.Alloc {
	for i := 0; i < 8; i++ {
		v = stripConv(v)
		switch x := v.(type) {
		case *ssa.Alloc:
			return x
		case *ssa.FieldAddr:
			v = x.X
		case *ssa.IndexAddr:
			v = x.X
		case *ssa.UnOp:
			if x.Op != token.MUL {
				return nil
			}
			al, ok := x.X.(*ssa.Alloc)
			if !ok {
				return nil
			}
			// a pointer variable: its single stored value
			var stored ssa.Value
			k := 0
			for _, ref := range *al.Referrers() {
				if st, ok := ref.(*ssa.Store); ok && st.Addr == al {
					stored = st.Val
					k++
				}
			}
			if k != 1 {
				return nil
			}
			v = stored
		default:
			return nil
		}
	}
	return nil
}
