package main

// E-LOCK (DESIGN.md §3.2): lock sets over the inlined supergraph. For every root
// (exported function or escaping closure, entered with no lock held) it tracks the set
// of held sync.(RW)Mutex values by canonical access path and reports
//
//	(a) guarded-by: accesses to guarded fields / maps without the lock of the same base object (write mode for writes)
//	(d) callbacks invoked while a lock is held (minus a table of reasoned exceptions)
//	(e) lock-order edges between lock classes, and re-acquisition of a held lock
//	(f) pairing: unlock of a lock not held; a root left with a lock held

import (
	"fmt"
	"go/token"
	"go/types"
	"os"
	"sort"
	"strings"

	"golang.org/x/tools/go/ssa"
)

type guardSpec struct {
	Type, Field, Mu string
}

type lockAccess struct {
	Key, Pos, Detail string
	OK               bool
	Witness          []string
}

type lockCallback struct {
	Key, Pos, Callee, Held string
	Witness                []string
}

type lockResult struct {
	Accesses      map[string]*lockAccess
	Callbacks     map[string]*lockCallback
	Edges         map[string]string // "A -> B" -> pos
	Misc          []Finding
	Roots         int
	Closures      int
	States        int
	LockOps       int
	CallbacksSeen int
	Exhausted     bool
}

type lockRule struct {
	BaseRule
	p      *Prog
	guards map[string]string // "Type.field" -> mutex field
	res    *lockResult
	root   string
	scope  func(fn *ssa.Function) bool
	// fields whose loads may be correlated between branches (immutable after
	// publication per C03.R2): `if h.sequential { lock } … if h.sequential { unlock }`
	predFields []string
	// panicAt: callbacks that may panic (nil: none)
	panicAt func(c *ssa.CallCommon) bool
}

func (r *lockRule) Inline(fn *ssa.Function) bool { return r.scope == nil || r.scope(fn) }
func (r *lockRule) PredOK(key string) bool {
	for _, f := range r.predFields {
		if mentionsField(key, f) {
			return true
		}
	}
	return false
}

func heldSet(sigma string) []string {
	if sigma == "" {
		return nil
	}
	return strings.Split(sigma, ",")
}
func encodeHeld(h []string) string { sort.Strings(h); return strings.Join(h, ",") }

func lockClassOf(canon string) string {
	// canon looks like "&(<base>).field": class = field plus the struct type is not in
	// the string; callers pass the class separately. Kept for display.
	return canon
}

func (r *lockRule) OnEnter(e *Engine, st *State, fc *FrameCtx) {
	if fc.isGo {
		st.Sigma = "" // a new goroutine holds nothing
	}
}

func (r *lockRule) holds(st *State, muCanon string, needWrite bool) bool {
	for _, h := range heldSet(st.Sigma) {
		parts := strings.SplitN(h, "|", 3) // mode|class|canon
		if len(parts) == 3 && parts[2] == muCanon {
			if !needWrite || parts[0] == "W" {
				return true
			}
		}
	}
	return false
}

// guardedAccess checks an access to (tn.fld) of base at instruction in.
func (r *lockRule) guardedAccess(e *Engine, st *State, fc *FrameCtx, in ssa.Instruction, tn, fld string, base ssa.Value, write bool, what string) {
	mu, ok := r.guards[tn+"."+fld]
	if !ok {
		return
	}
	bc := e.CanonS(fc, base)
	kind := "read"
	if write {
		kind = "write"
	}
	key := FuncDisplay(in.Parent()) + "/" + tn + "." + fld + "/" + what + "-" + kind
	// constructor exemption: the object is an allocation made on this path's root and
	// not yet shared
	if strings.HasPrefix(bc, "&alloc:") || strings.HasPrefix(bc, "alloc:") {
		r.record(key, e, st, in, true, "object under construction (fresh allocation of this call), not yet shared")
		return
	}
	want := "&(" + bc + ")." + mu
	if r.holds(st, want, write) {
		r.record(key, e, st, in, true, "lock "+tn+"."+mu+" of the same object held")
		return
	}
	mode := "at least a read lock"
	if write {
		mode = "the write lock"
	}
	r.record(key, e, st, in, false, fmt.Sprintf("%s of %s.%s (%s) without %s on %s.%s of the same object; held: [%s]", kind, tn, fld, what, mode, tn, mu, displayHeld(st.Sigma)))
}

func displayHeld(sigma string) string {
	var out []string
	for _, h := range heldSet(sigma) {
		parts := strings.SplitN(h, "|", 3)
		if len(parts) == 3 {
			out = append(out, parts[0]+":"+parts[1])
		}
	}
	return strings.Join(out, " ")
}

func (r *lockRule) record(key string, e *Engine, st *State, in ssa.Instruction, ok bool, detail string) {
	a := r.res.Accesses[key]
	if a == nil {
		a = &lockAccess{Key: key, OK: true}
		r.res.Accesses[key] = a
	}
	if ok {
		if a.OK {
			a.Pos, a.Detail = r.p.Pos(in.Pos()), detail
		}
		return
	}
	if a.OK {
		a.OK = false
		a.Pos, a.Detail = r.p.Pos(in.Pos()), detail+" (root "+r.root+")"
		a.Witness = traceOf(e, st)
	}
}

func traceOf(e *Engine, st *State) []string {
	var tr []string
	for n := st.trace; n != nil; n = n.prev {
		tr = append(tr, e.P.Pos(n.pos)+": "+n.note)
	}
	for i, j := 0, len(tr)-1; i < j; i, j = i+1, j-1 {
		tr[i], tr[j] = tr[j], tr[i]
	}
	return tr
}

func (r *lockRule) OnInstr(e *Engine, st *State, fc *FrameCtx, in ssa.Instruction) bool {
	switch in := in.(type) {
	case *ssa.Store:
		if tn, fld, base, ok := fieldOfAddr(in.Addr); ok {
			r.guardedAccess(e, st, fc, in, tn, fld, base, true, "field")
		}
		// element store into a guarded slice/map value
		if ia, ok := in.Addr.(*ssa.IndexAddr); ok {
			if tn, fld, base, ok := fieldLoad(ia.X); ok {
				r.guardedAccess(e, st, fc, in, tn, fld, base, true, "element")
			}
		}
		return false
	case *ssa.UnOp:
		if in.Op == token.MUL {
			if tn, fld, base, ok := fieldOfAddr(in.X); ok {
				r.guardedAccess(e, st, fc, in, tn, fld, base, false, "field")
			}
		}
		return false
	case *ssa.Field:
		r.guardedAccess(e, st, fc, in, typeName(in.X.Type()), fieldName(in.X.Type(), in.Field), in.X, false, "field")
		return false
	case *ssa.Lookup:
		if tn, fld, base, ok := fieldLoad(in.X); ok {
			r.guardedAccess(e, st, fc, in, tn, fld, base, false, "map-lookup")
		}
		return false
	case *ssa.MapUpdate:
		if tn, fld, base, ok := fieldLoad(in.Map); ok {
			r.guardedAccess(e, st, fc, in, tn, fld, base, true, "map-update")
		}
		return false
	case *ssa.Range:
		if tn, fld, base, ok := fieldLoad(in.X); ok {
			r.guardedAccess(e, st, fc, in, tn, fld, base, false, "range")
		}
		return false
	case *ssa.Next:
		if rg, ok := in.Iter.(*ssa.Range); ok {
			if tn, fld, base, ok := fieldLoad(rg.X); ok {
				r.guardedAccess(e, st, fc, in, tn, fld, base, false, "range-next")
			}
		}
		return false
	case *ssa.IndexAddr:
		if tn, fld, base, ok := fieldLoad(in.X); ok {
			r.guardedAccess(e, st, fc, in, tn, fld, base, false, "element")
		}
		return false
	}
	ci, ok := in.(ssa.CallInstruction)
	if !ok {
		return false
	}
	if _, isDefer := in.(*ssa.Defer); isDefer && !st.ExecDefer {
		return false
	}
	if _, isGo := in.(*ssa.Go); isGo {
		return false
	}
	c := ci.Common()
	if b, isB := c.Value.(*ssa.Builtin); isB {
		switch b.Name() {
		case "delete":
			if tn, fld, base, ok := fieldLoad(c.Args[0]); ok {
				r.guardedAccess(e, st, fc, in, tn, fld, base, true, "map-delete")
			}
		case "len", "cap":
			if tn, fld, base, ok := fieldLoad(c.Args[0]); ok {
				r.guardedAccess(e, st, fc, in, tn, fld, base, false, "len")
			}
		case "append":
			if tn, fld, base, ok := fieldLoad(c.Args[0]); ok {
				r.guardedAccess(e, st, fc, in, tn, fld, base, false, "append-read")
			}
		case "copy":
			if len(c.Args) == 2 {
				if tn, fld, base, ok := fieldLoad(c.Args[1]); ok {
					r.guardedAccess(e, st, fc, in, tn, fld, base, false, "copy-read")
				}
			}
		}
		return false
	}
	if kind, mu, ok := mutexOp(c); ok {
		r.res.LockOps++
		l := e.CanonS(fc, mu)
		cls := "?"
		if tn, fld, _, ok := fieldOfAddr(mu); ok {
			cls = tn + "." + fld
		}
		h := heldSet(st.Sigma)
		switch kind {
		case "Lock", "RLock":
			mode := "W"
			if kind == "RLock" {
				mode = "R"
			}
			for _, x := range h {
				parts := strings.SplitN(x, "|", 3)
				if len(parts) != 3 {
					continue
				}
				if parts[2] == l {
					r.misc(e, st, in.Pos(), r.root+"/reacquire/"+cls, "lock %s acquired while this path already holds it (self-deadlock, or a lock leaked by an earlier iteration / panic path)", cls)
					st.Kill()
					return false
				}
				edge := parts[1] + " -> " + cls
				if _, seen := r.res.Edges[edge]; !seen {
					r.res.Edges[edge] = r.p.Pos(in.Pos()) + " (root " + r.root + ")"
				}
			}
			h = append(h, mode+"|"+cls+"|"+l)
			st.Note(in.Pos(), "acquire %s %s", mode, cls)
		case "Unlock", "RUnlock":
			mode := "W"
			if kind == "RUnlock" {
				mode = "R"
			}
			var nh []string
			found := false
			for _, x := range h {
				if !found && x == mode+"|"+cls+"|"+l {
					found = true
					continue
				}
				nh = append(nh, x)
			}
			if !found {
				r.misc(e, st, in.Pos(), FuncDisplay(in.Parent())+"/unlock-not-held/"+cls, "%s of %s on a path that does not hold it in that mode (held: [%s])", kind, cls, displayHeld(st.Sigma))
			}
			h = nh
			st.Note(in.Pos(), "release %s", cls)
		}
		st.Sigma = encodeHeld(h)
		return false
	}
	if c.StaticCallee() != nil {
		return false
	}
	// a function value that resolves to a function of the analysed modules (a closure handed
	// to a helper such as withLock(func(){…})) is code of the library, not a callback
	if !c.IsInvoke() {
		if callee, _ := e.StaticCallee(fc, c); callee != nil && r.p.InScope(callee) {
			return false
		}
	}
	// dynamic call or interface invoke: a callback?
	isCB := false
	callee := ""
	if c.IsInvoke() {
		t := c.Value.Type()
		if nt, ok := t.(*types.Named); ok && nt.Obj().Pkg() != nil && r.p.Mods[nt.Obj().Pkg().Path()] {
			isCB = true
			callee = nt.Obj().Name() + "." + c.Method.Name()
		} else if _, ok := t.Underlying().(*types.Interface); ok && isAnonIface(t) {
			isCB = true
			callee = "interface{...}." + c.Method.Name()
		}
	} else {
		isCB = true
		callee = dynCalleeName(e, fc, c.Value)
	}
	if isCB && r.panicAt != nil && r.panicAt(c) {
		// the user's handler may panic: the unwinding alternative is explored too
		r.res.CallbacksSeen++
		if st.Sigma != "" {
			key := FuncDisplay(in.Parent()) + "/calls/" + callee + "/holding/" + heldClasses(st.Sigma)
			if _, seen := r.res.Callbacks[key]; !seen {
				r.res.Callbacks[key] = &lockCallback{Key: key, Pos: r.p.Pos(in.Pos()), Callee: callee, Held: heldClasses(st.Sigma), Witness: traceOf(e, st)}
			}
		}
		return true
	}
	if isCB {
		r.res.CallbacksSeen++
		if st.Sigma != "" {
			key := FuncDisplay(in.Parent()) + "/calls/" + callee + "/holding/" + heldClasses(st.Sigma)
			if _, seen := r.res.Callbacks[key]; !seen {
				r.res.Callbacks[key] = &lockCallback{Key: key, Pos: r.p.Pos(in.Pos()), Callee: callee, Held: heldClasses(st.Sigma), Witness: traceOf(e, st)}
			}
		}
	}
	return false
}

// isMentioned: some function of the analysed modules calls f or uses it as a value.
func isMentioned(p *Prog, f *ssa.Function) bool {
	for _, g := range p.Funcs() {
		if g == f || !p.InScope(g) {
			continue
		}
		for _, b := range g.Blocks {
			for _, in := range b.Instrs {
				for _, op := range in.Operands(nil) {
					if op == nil || *op == nil {
						continue
					}
					if fn, ok := (*op).(*ssa.Function); ok && (fn == f || fn.Origin() == f) {
						return true
					}
				}
			}
		}
	}
	return false
}

func isAnonIface(t types.Type) bool {
	_, named := t.(*types.Named)
	return !named
}

func heldClasses(sigma string) string {
	var out []string
	seen := map[string]bool{}
	for _, h := range heldSet(sigma) {
		parts := strings.SplitN(h, "|", 3)
		if len(parts) == 3 {
			x := parts[1]
			if parts[0] == "R" {
				x += "(R)"
			}
			if !seen[x] {
				seen[x] = true
				out = append(out, x)
			}
		}
	}
	sort.Strings(out)
	return strings.Join(out, "+")
}

// dynCalleeName names the function value being called by role: a struct field, a
// parameter, a local.
func dynCalleeName(e *Engine, fc *FrameCtx, v ssa.Value) string {
	if x, ok := throughAssert(v); ok {
		v = x
	}
	if tn, fld, _, ok := fieldLoad(v); ok {
		return tn + "." + fld
	}
	cn := e.CanonS(fc, v)
	// reduce to something role-like
	if i := strings.LastIndex(cn, ")."); i >= 0 {
		return "field:" + cn[i+2:]
	}
	if strings.HasPrefix(cn, "param:") {
		if i := strings.LastIndex(cn, "."); i >= 0 {
			return "param:" + cn[i+1:]
		}
	}
	return "func-value:" + typeName(v.Type())
}

func (r *lockRule) misc(e *Engine, st *State, pos token.Pos, construct, format string, a ...any) {
	msg := fmt.Sprintf(format, a...)
	for _, f := range r.res.Misc {
		if f.Construct == construct {
			return
		}
	}
	r.res.Misc = append(r.res.Misc, Finding{Construct: construct, Msg: msg, Pos: pos, Trace: traceOf(e, st)})
}

func (r *lockRule) OnExit(e *Engine, st *State, kind ExitKind) {
	if st.Sigma != "" && (kind == ExitPanic || kind == ExitGoroutinePanic) {
		r.misc(e, st, token.NoPos, r.root+"/lock-leaked-on-panic/"+heldClasses(st.Sigma), "a panic in the user's handler leaves %s with lock(s) still held: %s — the panic is recovered further up, but every later acquisition of that lock blocks forever", r.root, heldClasses(st.Sigma))
	}
	if st.Sigma != "" && (kind == ExitReturn || kind == ExitGoroutine) {
		r.misc(e, st, token.NoPos, r.root+"/exit-with-lock/"+heldClasses(st.Sigma), "%s is left with lock(s) still held: %s", r.root, heldClasses(st.Sigma))
	}
}

// runLocks explores every root of the given packages.
func runLocks(p *Prog, guards []guardSpec, pkgs map[string]bool) *lockResult {
	return runLocksOpt(p, guards, pkgs, false)
}

// runLocksOpt: with resolve, an interface invoke on an in-repo interface is followed
// into every in-scope method implementing it (each as an alternative continuation).
func runLocksOpt(p *Prog, guards []guardSpec, pkgs map[string]bool, resolve bool) *lockResult {
	return runLocksFull(p, guards, pkgs, resolve, nil)
}

func runLocksFull(p *Prog, guards []guardSpec, pkgs map[string]bool, resolve bool, immutable []string) *lockResult {
	return runLocksPanic(p, guards, pkgs, immutable, nil)
}

func runLocksPanic(p *Prog, guards []guardSpec, pkgs map[string]bool, immutable []string, panicAt func(c *ssa.CallCommon) bool) *lockResult {
	res := &lockResult{Accesses: map[string]*lockAccess{}, Callbacks: map[string]*lockCallback{}, Edges: map[string]string{}}
	lr := &lockRule{p: p, guards: map[string]string{}, res: res, panicAt: panicAt}
	for _, g := range guards {
		lr.guards[g.Type+"."+g.Field] = g.Mu
	}
	lr.scope = func(fn *ssa.Function) bool { return pkgs[PkgOf(fn)] || p.Mods[PkgOf(fn)] }
	e := NewEngine(p)
	e.StepOver = true
	e.Budget = 1500000
	for _, tf := range immutable {
		e.Immutable[tf] = true
		lr.predFields = append(lr.predFields, tf[strings.Index(tf, ".")+1:])
	}
	var roots []*ssa.Function
	for _, f := range p.Funcs() {
		if !pkgs[PkgOf(f)] || f.Parent() != nil || len(f.Blocks) == 0 {
			continue
		}
		if f.Object() != nil && f.Object().Exported() {
			// methods of unexported types are reached through their callers
			if recv := f.Signature.Recv(); recv != nil {
				tn := recvTypeName(f)
				if tn != "" && !token.IsExported(tn) {
					continue
				}
			}
			roots = append(roots, f)
		}
	}
	done := map[*ssa.Function]bool{}
	run := func(fn *ssa.Function) {
		if done[fn] {
			return
		}
		done[fn] = true
		lr.root = FuncDisplay(fn)
		before := e.States
		e.Run(lr, fn, "")
		if os.Getenv("EBUCHECK_DEBUG") != "" {
			fmt.Fprintf(os.Stderr, "lock root %s: %d states\n", lr.root, e.States-before)
		}
	}
	for _, fn := range roots {
		run(fn)
	}
	res.Roots = len(roots)
	// closures never inlined escape (option closures, returned iterators, hooks):
	// they run as roots of their own, holding nothing
	for changed := true; changed; {
		changed = false
		for _, f := range p.Funcs() {
			if !pkgs[PkgOf(f)] || f.Parent() == nil || e.Inlined[f] || done[f] || len(f.Blocks) == 0 {
				continue
			}
			res.Closures++
			run(f)
			changed = true
		}
	}
	// unexported functions never reached
	for _, f := range p.Funcs() {
		if pkgs[PkgOf(f)] && !e.Inlined[f] && !done[f] && len(f.Blocks) > 0 && f.Synthetic == "" {
			// an unexported function that nothing in the (non-test) program mentions is
			// dead code (kept for the package's own tests): nobody can run it
			if (f.Object() == nil || !f.Object().Exported()) && f.Parent() == nil && !isMentioned(p, f) {
				continue
			}
			// run them too (conservatively, as roots holding nothing) unless they
			// are helpers that document a held-lock precondition by only being called
			// under lock — those were inlined above and are in e.Inlined
			res.Closures++
			run(f)
		}
	}
	res.States = e.States
	res.Exhausted = e.Exhausted
	return res
}
