package main

import (
	"golang.org/x/tools/go/ssa"
)

// checkPersistNotViaHookSlot (C09.R1): no writer of a publish-hook slot needs to carry
// persistence, because PublishContext calls the persist function itself. If some hook
// writer still wraps the persist function, every other writer of that slot could
// displace it.
func checkPersistNotViaHookSlot(c *Ctx, p *Prog, R *BusRoles, rule string) {
	for _, f := range p.FuncsIn(PkgBus) {
		for _, b := range f.Blocks {
			for _, in := range b.Instrs {
				st, ok := in.(*ssa.Store)
				if !ok {
					continue
				}
				tn, fld, _, ok := fieldOfAddr(st.Addr)
				if !ok || tn != "EventBus" {
					continue
				}
				if fld != R.BusBefore && fld != R.BusBeforeCtx && fld != R.BusAfter && fld != R.BusAfterCtx {
					continue
				}
				carries := false
				if mc, ok := stripConv(st.Val).(*ssa.MakeClosure); ok {
					carries = callsFn(mc.Fn.(*ssa.Function), R.PersistFn, 0)
				}
				construct := "hook-slot/" + fld + "/writer/" + FuncDisplay(f)
				if carries {
					c.Violate(rule, construct, p.Pos(in.Pos()), "persistence is (also) installed through the "+fld+" hook slot here; any other writer of that slot overwrites it and the bus silently stops persisting", nil)
				} else {
					c.Discharge(rule, construct, p.Pos(in.Pos()), "plain hook writer: persistence does not live in this slot")
				}
			}
		}
	}
}

func callsFn(f, target *ssa.Function, d int) bool {
	if f == nil || d > 4 {
		return false
	}
	for _, b := range f.Blocks {
		for _, in := range b.Instrs {
			if ci, ok := in.(ssa.CallInstruction); ok {
				if sc := ci.Common().StaticCallee(); sc != nil {
					if sc == target || sc.Origin() == target {
						return true
					}
				}
			}
		}
	}
	for _, a := range f.AnonFuncs {
		if callsFn(a, target, d+1) {
			return true
		}
	}
	return false
}

// checkMemoryStoreAppend (C09.R4 / C10): the bundled memory store assigns offsets and
// appends to its log inside one write-locked region.
func checkMemoryStoreAppend(c *Ctx, p *Prog, rule string) {
	f := p.Method(PkgBus, "MemoryStore", "Append")
	if f == nil {
		c.Unresolved(rule, "UNRESOLVED-ANCHOR/MemoryStore.Append", "method not found")
		return
	}
	M := discoverMem(p)
	M.report(c, rule)
	res := runLocksFull(p, []guardSpec{{"MemoryStore", M.Events, M.Mu}, {"MemoryStore", M.Counter, M.Mu}}, map[string]bool{PkgBus: true}, false, nil)
	n := 0
	for k, a := range res.Accesses {
		if len(k) < 22 || k[:22] != "(*MemoryStore).Append/" {
			continue
		}
		n++
		if a.OK {
			c.Discharge(rule, "memory-store/"+k, a.Pos, a.Detail)
		} else {
			c.Violate(rule, "memory-store/"+k, a.Pos, a.Detail, a.Witness)
		}
	}
	// the counter's address must not escape to sync/atomic outside the lock: offsets
	// would then be taken in a different order than the log is appended
	for _, b := range f.Blocks {
		for _, in := range b.Instrs {
			if _, addr, ok := atomicOp(in); ok {
				if tn, fld, _, ok := fieldOfAddr(addr); ok && tn == "MemoryStore" {
					c.Violate(rule, "memory-store/Append/counter-not-atomic-outside-lock/"+fld, p.Pos(in.Pos()), "the offset counter is advanced with sync/atomic instead of under the store lock that orders the log: two appenders can enter the log in the opposite order to their offsets", nil)
				}
			}
		}
	}
	c.Floor(rule, "memory store Append accesses", n, 3)
}
