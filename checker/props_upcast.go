package main

import "strings"

func init() {
	register("C16", &PropDef{
		Explain: "Structural conditions of 'upcaster registration can never create a cycle and upcasting always terminates': (R1) in register, the graph insertion is reachable only on paths on which each of the five rejecting tests (source empty, target empty, source equals target, nil function, reachability query true) was evaluated and took its accepting arm; every rejecting arm returns a non-nil error without touching the graph; an accepted registration inserts exactly once and returns nil (all paths of register enumerated); (R2) the reachability query and the insertion are in one write-locked region; (R3) outside register the graph is only deleted from or replaced by an empty map, so acyclicity is an invariant; (R4) the search is a guarded recursion over all successors (current==target ⇒ true, visited test-and-mark before recursing, every successor explored, true propagates, no early negative exit from the successor loop); (R5) termination certificate for apply's loop: the current type is inserted into a visited set every iteration and the type the upcaster returned is looked up in it before it becomes the current type, a hit leaving the loop — so the loop runs at most |types|+1 times whatever upcasters return. Not decided: that acceptance coincides with graph reachability for every registration sequence (needs the search's semantics, not only its shape).",
		Run: func(c *Ctx) {
			c.Rule("C16.R1", "guards dominate insertion in register; rejecting arms return errors and do not touch the graph")
			c.Rule("C16.R2", "reachability query and insertion are atomic (one write-locked region)")
			c.Rule("C16.R3", "writers other than register only remove edges")
			c.Rule("C16.R4", "the cycle search is a guarded recursion over all successors")
			c.Rule("C16.R5", "termination certificate for apply's loop (visited set strictly grows; returned type checked)")
			p, R := busRoles(c, "C16.R1")
			if R == nil {
				return
			}
			checkRegister(c, p, R, "C16.R1", "C16.R2")
			checkUpMapWriters(c, p, R, "C16.R3")
			checkCycleSearch(c, p, R, "C16.R4")
			checkApply(c, p, R, "C16.R5", "C16.R5", map[string]bool{"R5": true})
			// apply and the search must not re-acquire the registry lock they already hold:
			// a nested RLock blocks behind a queued writer and never terminates
			res := runLocksFull(p, []guardSpec{{R.UpRegT.Obj().Name(), R.UpMap, R.UpMu}}, map[string]bool{PkgBus: true}, false, nil)
			un := R.UpRegT.Obj().Name() + "." + R.UpMap
			n := lockObligations(c, res, "C16.R2", func(k string) bool { return strings.Contains(k, "/"+un+"/") })
			c.Floor("C16.R2", "upcaster graph accesses under lock analysis", n, 8)
			bad := false
			for _, f := range res.Misc {
				if strings.Contains(f.Construct, R.UpRegT.Obj().Name()+"."+R.UpMu) {
					bad = true
					c.Violate("C16.R5", "locking/"+f.Construct, p.Pos(f.Pos), f.Msg, f.Trace)
				}
			}
			if !bad {
				c.Discharge("C16.R5", "registry-lock/not-reacquired", "", "no path acquires the registry lock while already holding it")
			}
			c.Assume = append(c.Assume, "the set of registered type names is finite while apply holds the read lock")
		},
	})
	register("C17", &PropDef{
		Explain: "Structural conditions of 'upcasting applies the whole chain or nothing': (R1) every return of a non-nil error from apply hands back the parameters (data, type), the success return hands back the loop-carried accumulators, and each step is fed the previous step's output; (R2) callers use apply's data/type results only where its error is known to be nil and otherwise let the stored event's own data/type flow on; the upcast event keeps the stored Offset/Timestamp; (R3) the upcast error handler has one call site, reached exactly when a step's error is non-nil and the handler is set, with (current type, current data, that error); (R4) selection: element 0 of the list registered for the current type, and register appends at the tail without rewriting entries; (R5) the typed wrapper decodes its input into a variable allocated per call, applies the user function to it, encodes the result and returns it with the registered target name, returning every error. Not decided: composition as values for every graph and payload.",
		Run: func(c *Ctx) {
			c.Rule("C17.R1", "apply: error returns carry the original (data,type); success returns the accumulators; steps are chained")
			c.Rule("C17.R2", "callers fall back to the stored event on error; upcast event keeps Offset/Timestamp")
			c.Rule("C17.R3", "upcast error handler exactly on the failing-step path with (type, data, err)")
			c.Rule("C17.R4", "first-registered selection: element 0; register appends at the tail")
			c.Rule("C17.R5", "typed wrapper: fresh decode target, f(decoded), Marshal, registered target name, errors returned")
			p, R := busRoles(c, "C17.R1")
			if R == nil {
				return
			}
			checkApply(c, p, R, "C17.R1", "C17.R1", map[string]bool{"R1": true})
			checkApply(c, p, R, "C17.R3", "C17.R3", map[string]bool{"R3": true})
			checkFieldNeverReplaced(c, p, "C17.R3", PkgBus, "EventBus", R.BusUpReg, "the upcast error handler (and everything else configured on the registry) lives on that object, so after the replacement failing upcasts are no longer reported")
			checkApply(c, p, R, "C17.R4", "C17.R4", map[string]bool{"R4": true})
			checkUpcastCallers(c, p, R, "C17.R2")
			checkStoredEventsNotRewritten(c, p, "C17.R2")
			checkRegisterTailInsert(c, p, R, "C17.R4")
			checkTypedUpcastWrapper(c, p, R, "C17.R5")
			c.Assume = append(c.Assume, "encoding/json round-trips the typed values (not decided)")
		},
	})
}
