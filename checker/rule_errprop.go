package main

// Error discipline of the bundled stores (C11.R6, C10.R7, C13.R6, C14.R5): an error that a
// store function found non-nil is never turned into a nil error result.
//
// Rule template (Engler et al., "errors from X are never ignored"), instantiated per
// function f of a store package whose last result is `error`, path by path (E-PATH, no
// inlining: callees of the package are checked on their own):
//
//   on every path on which f tests an error value e obtained from a call against nil and
//   takes the non-nil side, the error result f returns on that path is non-nil
//
// unless the path is one of the reasoned exceptions in errSwallowOK (each confirmed by
// reading the code). Iterator-returning functions are covered by the iterator protocol
// rule instead (the error must be yielded).

import (
	"fmt"
	"go/token"
	"go/types"
	"strings"

	"golang.org/x/tools/go/ssa"
)

type errSwallow struct {
	pkg, fn  string // function (display name without package path)
	callee   string // suffix of the callee whose error may be dropped
	sentinel string // required sentinel comparison on the path ("" = none)
	why      string
}

var errSwallowOK = []errSwallow{
	{PkgDurable, "Store).Read", "encoding/json.Unmarshal", "", "documented: a malformed event inside a chunk is logged and skipped (the chunk itself failing to parse is an error)"},
	{PkgSQLite, "SQLiteStore).LoadOffset", "Scan", "database/sql.ErrNoRows", "an unknown subscription has no saved offset: the oldest offset with a nil error (C10.R6 checks this arm)"},
}

type errPropRule struct {
	BaseRule
	p *Prog
	f *ssa.Function
}

func (r *errPropRule) Inline(fn *ssa.Function) bool { return false }
func (r *errPropRule) PredOK(k string) bool         { return true }

// sigma: "" nothing pending, else "<callee>|<pos>|<sentinels seen>"
func (r *errPropRule) OnBranch(e *Engine, st *State, fc *FrameCtx, in *ssa.If, taken bool) {
	if x, nonNilOnTrue, ok := nilTest(in.Cond); ok && typeName(x.Type()) == "error" {
		if taken == nonNilOnTrue {
			if cn := errOriginCallee(x); cn != "" && st.Sigma == "" {
				st.Sigma = cn + "|" + r.p.Pos(in.Cond.Pos()) + "|"
				st.Note(in.Pos(), "error from %s found non-nil", cn)
			}
		}
		return
	}
	// sentinel comparisons: errors.Is(err, S) / err == S taken true
	if s := sentinelOf(in.Cond); s != "" && taken && st.Sigma != "" {
		st.Sigma += s + ","
	}
}

func sentinelOf(cond ssa.Value) string {
	c, pol := condStrip(cond)
	if !pol {
		return ""
	}
	glob := func(v ssa.Value) string {
		if ld, ok := stripConv(v).(*ssa.UnOp); ok && ld.Op == token.MUL {
			if g, ok := ld.X.(*ssa.Global); ok && g.Pkg != nil {
				return g.Pkg.Pkg.Path() + "." + g.Name()
			}
		}
		return ""
	}
	switch x := c.(type) {
	case *ssa.Call:
		if calleeName(x.Common()) == "errors.Is" && len(x.Common().Args) == 2 {
			return glob(x.Common().Args[1])
		}
	case *ssa.BinOp:
		if x.Op == token.EQL {
			if s := glob(x.X); s != "" {
				return s
			}
			return glob(x.Y)
		}
	}
	return ""
}

// errOriginCallee: the call an error value comes from ("" if it is not a call result).
func errOriginCallee(v ssa.Value) string {
	for i := 0; i < 6; i++ {
		v = stripConv(v)
		switch x := v.(type) {
		case *ssa.Call:
			if n := calleeName(x.Common()); n != "" {
				return n
			}
			return "dynamic call"
		case *ssa.Extract:
			v = x.Tuple
		case *ssa.UnOp:
			if x.Op != token.MUL {
				return ""
			}
			al, ok := x.X.(*ssa.Alloc)
			if !ok {
				return ""
			}
			// a local error variable: any call stored into it
			for _, ref := range *al.Referrers() {
				if st, ok := ref.(*ssa.Store); ok && st.Addr == al {
					if cn := errOriginCallee(st.Val); cn != "" {
						return cn
					}
				}
			}
			return ""
		case *ssa.Phi:
			for _, ed := range x.Edges {
				if cn := errOriginCallee(ed); cn != "" {
					return cn
				}
			}
			return ""
		default:
			return ""
		}
	}
	return ""
}

func (r *errPropRule) OnInstr(e *Engine, st *State, fc *FrameCtx, in ssa.Instruction) bool {
	if _, isDefer := in.(*ssa.Defer); isDefer && !st.ExecDefer {
		return false
	}
	ret, ok := in.(*ssa.Return)
	if !ok || fc.parent != nil || st.Sigma == "" || len(ret.Results) == 0 {
		return false
	}
	res := resolveResult(ret, len(ret.Results)-1)
	cls := classifyErrAt(e, st, fc, res)
	if cls == 'e' {
		return false
	}
	if cls == '?' {
		// a value that is neither provably nil nor provably non-nil: accept when it is
		// (derived from) an error value, i.e. not the nil constant
		if _, isConst := res.(*ssa.Const); !isConst {
			return false
		}
	}
	parts := strings.SplitN(st.Sigma, "|", 3)
	callee, pos, sent := parts[0], parts[1], parts[2]
	fn := FuncDisplay(r.f)
	for _, ex := range errSwallowOK {
		if ex.pkg == PkgOf(r.f) && strings.HasSuffix(fn, ex.fn) && strings.HasSuffix(callee, ex.callee) && (ex.sentinel == "" || strings.Contains(sent, ex.sentinel+",")) {
			e.Report(st, in.Pos(), "OK|"+fn+"/error-from/"+shortCallee(callee)+"/dropped-by-design", "%s", ex.why)
			return false
		}
	}
	e.Report(st, in.Pos(), fn+"/error-from/"+shortCallee(callee)+"/returned", "an error from %s is found non-nil (%s) but this path returns a nil error: the caller takes the operation as successful / the stream as complete", callee, pos)
	return false
}

func shortCallee(s string) string {
	if i := strings.LastIndex(s, "/"); i >= 0 {
		s = s[i+1:]
	}
	return strings.NewReplacer("(", "", ")", "", "*", "").Replace(s)
}

func checkErrorsPropagated(c *Ctx, p *Prog, pkg, rule string, extra ...errSwallow) {
	saved := errSwallowOK
	errSwallowOK = append(append([]errSwallow{}, saved...), extra...)
	defer func() { errSwallowOK = saved }()
	n := 0
	for _, f := range p.FuncsIn(pkg) {
		if f.Parent() != nil || len(f.Blocks) == 0 || f.Synthetic != "" {
			continue
		}
		rs := f.Signature.Results()
		if rs.Len() == 0 || !types.Identical(rs.At(rs.Len()-1).Type(), types.Universe.Lookup("error").Type()) {
			continue
		}
		// does it test an error at all?
		tests := 0
		for _, b := range f.Blocks {
			if iff, ok := b.Instrs[len(b.Instrs)-1].(*ssa.If); ok {
				if x, _, ok := nilTest(iff.Cond); ok && typeName(x.Type()) == "error" && errOriginCallee(x) != "" {
					tests++
				}
			}
		}
		if tests == 0 {
			continue
		}
		n += tests
		e := NewEngine(p)
		e.Run(&errPropRule{p: p, f: f}, f, "")
		c.Stats["product_states"] += e.States
		bad := false
		for _, fd := range e.Findings {
			if strings.HasPrefix(fd.Construct, "OK|") {
				c.Discharge(rule, strings.TrimPrefix(fd.Construct, "OK|"), p.Pos(fd.Pos), "reasoned exception: "+fd.Msg)
				continue
			}
			bad = true
			c.Violate(rule, fd.Construct, p.Pos(fd.Pos), fd.Msg, fd.Trace)
		}
		if e.Exhausted {
			c.Unresolved(rule, FuncDisplay(f)+"/errors-propagated/budget", "state budget exhausted")
		} else if !bad {
			c.Discharge(rule, FuncDisplay(f)+"/errors-propagated", p.Pos(f.Pos()), fmt.Sprintf("%d error tests: every path that finds an error non-nil returns a non-nil error", tests))
		}
	}
	c.Stats["error_tests_"+pkg] = n
}

// checkErrorsConsumed (errcheck-style, package-specific): every call in a store package
// that returns an error has that error looked at (tested, returned, stored or passed on).
// Deliberately unchecked by the code base, each confirmed by reading: Close/Rollback on
// clean-up paths (their error cannot change the outcome already decided).
func checkErrorsConsumed(c *Ctx, p *Prog, pkg, rule string) int {
	errT := types.Universe.Lookup("error").Type()
	allow := func(n string) (string, bool) {
		switch {
		case strings.HasSuffix(n, ").Close") || strings.HasSuffix(n, ".Close"):
			return "Close on a clean-up path", true
		case strings.HasSuffix(n, "Tx).Rollback"):
			return "Rollback on a clean-up path (its error cannot change the failure being reported)", true
		case strings.HasPrefix(n, "fmt.Fprint") || strings.HasPrefix(n, "fmt.Print"):
			return "formatted output", true
		case strings.HasSuffix(n, "Result.LastInsertId"):
			return "database/sql.Result.LastInsertId fails only for drivers without the feature; the bundled SQLite driver supports it (the statement's own error was checked just before)", true
		case strings.Contains(n, "hash.Hash") || strings.Contains(n, "Hash32.Write") || strings.Contains(n, "Hash64.Write"):
			return "hash.Hash.Write never fails", true
		}
		return "", false
	}
	n := 0
	for _, f := range p.FuncsIn(pkg) {
		ord := 0
		for _, b := range f.Blocks {
			for _, in := range b.Instrs {
				call, ok := in.(*ssa.Call)
				if !ok {
					continue
				}
				sig := call.Common().Signature()
				if sig == nil || sig.Results().Len() == 0 {
					continue
				}
				last := sig.Results().Len() - 1
				if !types.Identical(sig.Results().At(last).Type(), errT) {
					continue
				}
				ord++
				n++
				used := false
				if sig.Results().Len() == 1 {
					for _, ref := range *call.Referrers() {
						if _, dbg := ref.(*ssa.DebugRef); !dbg {
							used = true
						}
					}
				} else {
					for _, ref := range *call.Referrers() {
						if ex, ok := ref.(*ssa.Extract); ok && ex.Index == last {
							for _, r2 := range *ex.Referrers() {
								if _, dbg := r2.(*ssa.DebugRef); !dbg {
									used = true
								}
							}
						}
					}
				}
				if used {
					continue
				}
				name := calleeName(call.Common())
				if name == "" {
					name = "dynamic call"
				}
				construct := fmt.Sprintf("%s/unchecked-error#%d/%s", FuncDisplay(f), ord, shortCallee(name))
				if why, ok := allow(name); ok {
					c.Discharge(rule, construct, p.Pos(in.Pos()), "deliberately unchecked: "+why)
				} else {
					c.Violate(rule, construct, p.Pos(in.Pos()), "the error returned by "+name+" is never looked at: a failure of this call is reported as success", nil)
				}
			}
		}
	}
	return n
}
