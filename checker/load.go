package main

import (
	"fmt"
	"go/ast"
	"go/token"
	"go/types"
	"os"
	"path/filepath"
	"sort"
	"strings"

	"golang.org/x/tools/go/packages"
	"golang.org/x/tools/go/ssa"
	"golang.org/x/tools/go/ssa/ssautil"
)

// Module directories of the repository (relative to the repo root) and the
// packages of interest each one contributes.
const (
	ModRoot    = "."
	ModOtel    = "otel"
	ModSQLite  = "stores/sqlite"
	ModDurable = "stores/durablestream"

	PkgBus     = "github.com/jilio/ebu"
	PkgState   = "github.com/jilio/ebu/state"
	PkgOtel    = "github.com/jilio/ebu/otel"
	PkgSQLite  = "github.com/jilio/ebu/stores/sqlite"
	PkgDurable = "github.com/jilio/ebu/stores/durablestream"
)

// Prog is one loaded module: type-checked syntax plus SSA for the whole
// dependency closure.
type Prog struct {
	Dir   string
	Fset  *token.FileSet
	Pkgs  []*packages.Package          // root packages (pattern ./...)
	All   map[string]*packages.Package // every package in the closure by path
	SSA   *ssa.Program
	SPkgs map[string]*ssa.Package // analysed (in-repo) packages by path
	Mods  map[string]bool         // package paths under analysis
	funcs []*ssa.Function
}

// LoadConfig selects a build configuration.
type LoadConfig struct {
	GOARCH string
	Tags   string
}

func goEnv(cfg LoadConfig) []string {
	env := []string{}
	for _, kv := range os.Environ() {
		k := strings.SplitN(kv, "=", 2)[0]
		switch k {
		case "GOFLAGS", "GOPROXY", "GOSUMDB", "GOWORK", "GOTOOLCHAIN", "GOARCH", "PATH":
			continue
		}
		env = append(env, kv)
	}
	env = append(env,
		"PATH=/opt/veriftools/go1.26.8/bin:"+os.Getenv("PATH"),
		"GOTOOLCHAIN=local", "GOFLAGS=-mod=mod", "GOPROXY=off", "GOSUMDB=off", "GOWORK=off")
	if cfg.GOARCH != "" {
		env = append(env, "GOARCH="+cfg.GOARCH)
	}
	return env
}

// Load type-checks and SSA-builds the module in dir (all packages, no tests).
func Load(dir string, lc LoadConfig) (*Prog, error) {
	cfg := &packages.Config{Mode: packages.LoadAllSyntax, Dir: dir, Env: goEnv(lc)}
	if lc.Tags != "" {
		cfg.BuildFlags = []string{"-tags=" + lc.Tags}
	}
	pkgs, err := packages.Load(cfg, "./...")
	if err != nil {
		return nil, fmt.Errorf("load %s: %w", dir, err)
	}
	if len(pkgs) == 0 {
		return nil, fmt.Errorf("load %s: no packages", dir)
	}
	var errs []string
	packages.Visit(pkgs, nil, func(p *packages.Package) {
		for _, e := range p.Errors {
			errs = append(errs, e.Error())
		}
	})
	if len(errs) > 0 {
		sort.Strings(errs)
		if len(errs) > 5 {
			errs = errs[:5]
		}
		return nil, fmt.Errorf("load %s: %d package error(s): %s", dir, len(errs), strings.Join(errs, "; "))
	}
	prog, spkgs := ssautil.AllPackages(pkgs, ssa.BuilderMode(0))
	prog.Build()
	p := &Prog{Dir: dir, Fset: prog.Fset, Pkgs: pkgs, SSA: prog, SPkgs: map[string]*ssa.Package{}, Mods: map[string]bool{}, All: map[string]*packages.Package{}}
	packages.Visit(pkgs, nil, func(pk *packages.Package) { p.All[pk.PkgPath] = pk })
	for i, pk := range pkgs {
		if spkgs[i] != nil {
			p.SPkgs[pk.PkgPath] = spkgs[i]
			p.Mods[pk.PkgPath] = true
		}
	}
	// The sub-modules import the root package from source (replace directive):
	// it is part of the analysed code there as well.
	for path, pk := range p.All {
		if strings.HasPrefix(path, PkgBus) && !p.Mods[path] {
			if sp := prog.Package(pk.Types); sp != nil {
				p.SPkgs[path] = sp
				p.Mods[path] = true
			}
		}
	}
	p.collectFuncs()
	return p, nil
}

// InScope reports whether fn belongs to an analysed (in-repo) package.
func (p *Prog) InScope(fn *ssa.Function) bool {
	if fn == nil {
		return false
	}
	o := fn
	if o.Origin() != nil {
		o = o.Origin()
	}
	for o.Parent() != nil {
		o = o.Parent()
	}
	if o.Pkg == nil {
		if o.Object() != nil && o.Object().Pkg() != nil {
			return p.Mods[o.Object().Pkg().Path()]
		}
		return false
	}
	return p.Mods[o.Pkg.Pkg.Path()]
}

// PkgOf returns the package path a function belongs to ("" if unknown).
func PkgOf(fn *ssa.Function) string {
	o := fn
	if o.Origin() != nil {
		o = o.Origin()
	}
	for o.Parent() != nil {
		o = o.Parent()
	}
	if o.Pkg != nil {
		return o.Pkg.Pkg.Path()
	}
	if o.Object() != nil && o.Object().Pkg() != nil {
		return o.Object().Pkg().Path()
	}
	return ""
}

func (p *Prog) collectFuncs() {
	seen := map[*ssa.Function]bool{}
	var walk func(fn *ssa.Function)
	walk = func(fn *ssa.Function) {
		if fn == nil || seen[fn] {
			return
		}
		seen[fn] = true
		p.funcs = append(p.funcs, fn)
		for _, a := range fn.AnonFuncs {
			walk(a)
		}
	}
	var paths []string
	for path := range p.SPkgs {
		paths = append(paths, path)
	}
	sort.Strings(paths)
	for _, path := range paths {
		sp := p.SPkgs[path]
		var names []string
		for n := range sp.Members {
			names = append(names, n)
		}
		sort.Strings(names)
		for _, n := range names {
			switch m := sp.Members[n].(type) {
			case *ssa.Function:
				walk(m)
			case *ssa.Type:
				// declared methods (this also reaches the generic bodies of methods of
				// generic types, which have no method-set entry)
				if named, ok := m.Type().(*types.Named); ok {
					for i := 0; i < named.NumMethods(); i++ {
						if f := p.SSA.FuncValue(named.Method(i)); f != nil && f.Synthetic == "" {
							walk(f)
						}
					}
				}
			}
		}
	}
}

// Funcs returns every source function (incl. anonymous ones and methods; generic
// functions as their generic bodies) of the analysed packages, in a stable order.
func (p *Prog) Funcs() []*ssa.Function { return p.funcs }

// FuncsIn returns Funcs restricted to one package path.
func (p *Prog) FuncsIn(pkg string) []*ssa.Function {
	var out []*ssa.Function
	for _, f := range p.funcs {
		if PkgOf(f) == pkg {
			out = append(out, f)
		}
	}
	return out
}

// Func finds a package-level function by name.
func (p *Prog) Func(pkg, name string) *ssa.Function {
	sp := p.SPkgs[pkg]
	if sp == nil {
		return nil
	}
	return sp.Func(name)
}

// Method finds a method by receiver type name and method name (pointer or value receiver).
func (p *Prog) Method(pkg, typ, name string) *ssa.Function {
	sp := p.SPkgs[pkg]
	if sp == nil {
		return nil
	}
	t := sp.Type(typ)
	if t == nil {
		return nil
	}
	for _, tt := range []types.Type{t.Type(), types.NewPointer(t.Type())} {
		ms := p.SSA.MethodSets.MethodSet(tt)
		for i := 0; i < ms.Len(); i++ {
			if ms.At(i).Obj().Name() == name {
				if f := p.SSA.MethodValue(ms.At(i)); f != nil {
					if f.Synthetic != "" {
						continue
					}
					return f
				}
			}
		}
	}
	// generic receiver types: search collected functions
	for _, f := range p.funcs {
		if f.Name() == name && f.Signature.Recv() != nil && recvTypeName(f) == typ && PkgOf(f) == pkg {
			return f
		}
	}
	return nil
}

func recvTypeName(f *ssa.Function) string {
	r := f.Signature.Recv()
	if r == nil {
		return ""
	}
	t := r.Type()
	if p, ok := t.(*types.Pointer); ok {
		t = p.Elem()
	}
	if n, ok := t.(*types.Named); ok {
		return n.Obj().Name()
	}
	return ""
}

// Pos renders a position relative to the repository root.
func (p *Prog) Pos(pos token.Pos) string {
	if !pos.IsValid() {
		return "-"
	}
	pp := p.Fset.Position(pos)
	f := pp.Filename
	if rel, err := filepath.Rel(repoRoot, f); err == nil && !strings.HasPrefix(rel, "..") {
		f = rel
	}
	return fmt.Sprintf("%s:%d", f, pp.Line)
}

// Syntax returns the AST declaration of a source function, with its package.
func (p *Prog) Syntax(fn *ssa.Function) (ast.Node, *packages.Package) {
	if fn == nil || fn.Syntax() == nil {
		return nil, nil
	}
	return fn.Syntax(), p.All[PkgOf(fn)]
}

// FuncDisplay is a stable, human-readable name for a function: package-relative,
// closures as Parent$N.
func FuncDisplay(fn *ssa.Function) string {
	if fn == nil {
		return "?"
	}
	s := fn.String()
	s = strings.ReplaceAll(s, "github.com/jilio/ebu/stores/", "")
	s = strings.ReplaceAll(s, "github.com/jilio/ebu/", "")
	s = strings.ReplaceAll(s, "github.com/jilio/ebu.", "")
	s = strings.ReplaceAll(s, "github.com/jilio/ebu", "ebu")
	return s
}
