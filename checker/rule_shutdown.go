package main

import (
	"fmt"
	"go/token"
	"go/types"
	"sort"
	"strings"

	"golang.org/x/tools/go/ssa"
)

// checkAsyncSequencing (C07.R3): necessary condition for Async+Sequential to preserve
// publish order — the publisher's goroutine must record the order in shared state before
// Publish returns (a channel send, an atomic read-modify-write, or a store under a held
// mutex, reachable from the registration or the bus). WaitGroup.Add carries a count,
// not an order; a fresh goroutine per event that merely contends for a sync.Mutex does
// not order anything (sync.Mutex is not FIFO and goroutine start order is unspecified).
func checkAsyncSequencing(c *Ctx, p *Prog, R *BusRoles) {
	// go statements of the publisher: in the function holding the dispatch loop or in a helper
	// it calls from there (not inside the dispatch function)
	inDispatch := map[*ssa.Function]bool{}
	for _, g := range reachFuncs(p, R.DispatchFn, PkgBus) {
		inDispatch[g] = true
	}
	n := 0
	for _, f := range reachFuncs(p, R.LoopFn, PkgBus) {
		if inDispatch[f] || f.Parent() != nil {
			continue
		}
		for _, b := range f.Blocks {
			for _, in := range b.Instrs {
				g, ok := in.(*ssa.Go)
				if !ok {
					continue
				}
				n++
				// the async arm: the go statement's block and its single-predecessor chain up
				// to the test of the async flag
				var arm []*ssa.BasicBlock
				for blk := b; blk != nil; {
					arm = append(arm, blk)
					if len(blk.Preds) != 1 {
						break
					}
					pr := blk.Preds[0]
					if iff, ok := pr.Instrs[len(pr.Instrs)-1].(*ssa.If); ok {
						if tn, fld, _, ok := fieldLoad(iff.Cond); ok && tn == R.RegName() && fld == R.RegAsync {
							break
						}
					}
					blk = pr
				}
				found := ""
				for _, blk := range arm {
					for _, x := range blk.Instrs {
						switch y := x.(type) {
						case *ssa.Send:
							found = "channel send"
						case ssa.CallInstruction:
							if name, addr, ok := atomicOp(x); ok && (strings.HasPrefix(name, "Add") || strings.HasPrefix(name, "Swap") || strings.HasPrefix(name, "CompareAndSwap")) {
								if tn, fld, _, ok := fieldOfAddr(addr); ok && !(tn == R.RegName() && fld == R.RegClaim) {
									found = "atomic " + name + " on " + tn + "." + fld
								}
							}
							if kind, mu, ok := mutexOp(y.Common()); ok && kind == "Lock" {
								if tn, fld, _, ok := fieldOfAddr(mu); ok {
									found = "critical section on " + tn + "." + fld
								}
							}
						}
					}
				}
				// the goroutine is handed an order token? (an argument other than the registration)
				construct := "PublishContext/async-dispatch/publisher-side-sequencing"
				if found != "" {
					c.Discharge("C07.R3", construct, p.Pos(g.Pos()), "publisher-side sequencing effect present: "+found+" (its correctness is not decided)")
				} else {
					c.Violate("C07.R3", construct, p.Pos(g.Pos()), "async dispatch starts one goroutine per event and records nothing about the publish order in the publisher's goroutine (only WaitGroup.Add, which carries a count): an Async+Sequential handler processes events of one publisher in whatever order the goroutines win its mutex, not in publish order (README: 'preserves order')", nil)
				}
			}
		}
	}
	if n == 0 {
		c.Unresolved("C07.R3", "UNRESOLVED-ANCHOR/PublishContext/async-go", "no go statement found in PublishContext")
	}
}

// checkHandlerCtxProvenance (C08.R2): the context given to context-aware handler arms
// originates from PublishContext's ctx parameter, possibly passed through the
// Observability start callbacks; never context.Background()/TODO().
func checkHandlerCtxProvenance(c *Ctx, p *Prog, R *BusRoles) {
	e := NewEngine(p)
	flow := NewFlow(p, e.cells)
	flow.Through["invoke:Observability.OnHandlerStart"] = []int{0}
	flow.Through["invoke:Observability.OnPublishStart"] = []int{0}
	ev := &busEvents{R: R, E: e}
	n := 0
	var check func(f *ssa.Function)
	seen := map[*ssa.Function]bool{}
	check = func(f *ssa.Function) {
		if f == nil || seen[f] {
			return
		}
		seen[f] = true
		for _, b := range f.Blocks {
			for _, in := range b.Instrs {
				ci, ok := in.(ssa.CallInstruction)
				if !ok {
					continue
				}
				if sc := ci.Common().StaticCallee(); sc != nil && PkgOf(sc) == PkgBus {
					if o := sc.Origin(); o != nil {
						sc = o
					}
					check(sc)
				}
				if _, _, ok := ev.handlerInvoke(nil, in); !ok {
					continue
				}
				for _, a := range ci.Common().Args {
					v := a
					// reflect arm: reflect.ValueOf(ctx)
					if call, ok := stripConv(a).(*ssa.Call); ok && calleeName(call.Common()) == "reflect.ValueOf" {
						v = call.Common().Args[0]
					}
					if !isNamed(stripConv(v).Type(), "context", "Context") && !isNamed(v.Type(), "context", "Context") {
						continue
					}
					n++
					os := flow.Origins(v)
					okAll, bad := onlyOrigins(os, "param:"+FuncDisplay(f)+".ctx", "param:"+FuncDisplay(R.DispatchFn)+".", "param:"+FuncDisplay(R.PublishFn)+"."+R.PublishFn.Params[1].Name(), "call:invoke:Observability.OnPublishStart#0")
					construct := fmt.Sprintf("%s/handler-context#%d", FuncDisplay(f), n)
					if okAll && len(os) > 0 {
						c.Discharge("C08.R2", construct, p.Pos(in.Pos()), "handler context originates from the dispatch function's ctx parameter (through Observability.OnHandlerStart only)")
					} else {
						c.Violate("C08.R2", construct, p.Pos(in.Pos()), "a context-aware handler receives a context that does not (only) descend from the publish context (origin "+bad+"): values and cancellation of the publisher's context are lost", nil)
					}
				}
			}
		}
	}
	check(R.DispatchFn)
	c.Floor("C08.R2", "context arguments of handler invocations", n, 4)
	// the dispatch function's ctx argument at each call site in PublishContext is the publish context
	m := 0
	pubCtx := "param:" + FuncDisplay(R.PublishFn) + "." + R.PublishFn.Params[1].Name()
	inDispatch := map[*ssa.Function]bool{}
	for _, g := range reachFuncs(p, R.DispatchFn, PkgBus) {
		inDispatch[g] = true
	}
	// call sites of the dispatch function in PublishContext, its closures and the helpers
	// it calls or spawns (the async goroutine may be a named function)
	for _, g := range reachFuncs(p, R.PublishFn, PkgBus) {
		if inDispatch[g] {
			continue
		}
		for _, b := range g.Blocks {
			for _, in := range b.Instrs {
				if call, ok := in.(*ssa.Call); ok {
					if sc := call.Common().StaticCallee(); sc != nil && (sc == R.DispatchFn || sc.Origin() == R.DispatchFn) && len(call.Common().Args) >= 2 {
						m++
						os := flow.Origins(call.Common().Args[1])
						okAll, bad := onlyOrigins(os, pubCtx)
						if okAll && len(os) > 0 {
							c.Discharge("C08.R2", FuncDisplay(g)+"/dispatch-context", p.Pos(in.Pos()), "the dispatch function receives the publish context (through Observability.OnPublishStart only)")
						} else {
							c.Violate("C08.R2", FuncDisplay(g)+"/dispatch-context", p.Pos(in.Pos()), "the dispatch function is not given the publish context (origin "+bad+")", nil)
						}
					}
				}
			}
		}
	}
	c.Floor("C08.R2", "dispatch call sites", m, 2)
	checkPublishCtxNotNarrowed(c, p, R, "C08.R2")
	// Publish delegates to PublishContext with a background context (documented)
}

// checkWaitAndShutdown (C06.R3, C06.R4).
func checkWaitAndShutdown(c *Ctx, p *Prog, R *BusRoles) {
	// R3: Wait waits on the bus wait group
	if w := p.Method(PkgBus, "EventBus", "Wait"); w != nil {
		ok := false
		for _, b := range w.Blocks {
			for _, in := range b.Instrs {
				if ci, isCall := in.(ssa.CallInstruction); isCall {
					if kind, wg, isWg := wgOp(ci.Common()); isWg && kind == "Wait" {
						if tn, fld, base, isF := fieldOfAddr(wg); isF && tn == "EventBus" && fld == R.BusWG {
							if prm, isP := stripConv(base).(*ssa.Parameter); isP && prm == w.Params[0] {
								ok = true
							}
						}
					}
				}
			}
		}
		c.Check(ok, "C06.R3", "EventBus.Wait/waits-on-the-publishers-wait-group", p.Pos(w.Pos()), "Wait() blocks on the same wait-group field PublishContext counts on", "Wait does not wait on the wait group the publisher counts async handlers on")
	} else {
		c.Unresolved("C06.R3", "UNRESOLVED-ANCHOR/EventBus.Wait", "method not found")
	}
	sd := p.Method(PkgBus, "EventBus", "Shutdown")
	if sd == nil {
		c.Unresolved("C06.R4", "UNRESOLVED-ANCHOR/EventBus.Shutdown", "method not found")
		return
	}
	// the select in Shutdown
	var sel *ssa.Select
	for _, b := range sd.Blocks {
		for _, in := range b.Instrs {
			if s, ok := in.(*ssa.Select); ok && s.Blocking {
				sel = s
			}
		}
	}
	if sel == nil {
		c.Violate("C06.R4", "Shutdown/select", p.Pos(sd.Pos()), "Shutdown does not select between completion and the context", nil)
		return
	}
	ctxIdx, doneIdx := -1, -1
	var doneChan ssa.Value
	for i, st := range sel.States {
		if st.Dir != types.RecvOnly {
			continue
		}
		if call, ok := st.Chan.(*ssa.Call); ok && call.Common().IsInvoke() && call.Common().Method.Name() == "Done" && stripConv(call.Common().Value) == ssa.Value(sd.Params[1]) {
			ctxIdx = i
		} else {
			doneIdx = i
			doneChan = st.Chan
		}
	}
	if ctxIdx < 0 || doneIdx < 0 {
		c.Violate("C06.R4", "Shutdown/select-arms", p.Pos(sel.Pos()), "Shutdown's select does not have a completion arm and a ctx.Done() arm", nil)
		return
	}
	// arm entry blocks
	armBlock := func(idx int) *ssa.BasicBlock {
		for _, b := range sd.Blocks {
			if iff, ok := b.Instrs[len(b.Instrs)-1].(*ssa.If); ok {
				if s, k, ok := selectArm(iff.Cond); ok && s == sel && k == idx {
					return b.Succs[0]
				}
			}
		}
		return nil
	}
	doneBlk, ctxBlk := armBlock(doneIdx), armBlock(ctxIdx)
	if doneBlk == nil || ctxBlk == nil {
		c.Unresolved("C06.R4", "Shutdown/select-arms", "cannot find the arm blocks of Shutdown's select")
		return
	}
	// (a) the completion channel is closed / sent on only after Wait() returned, in the waiter goroutine
	okSignal := false
	var waiter *ssa.Function
	// the waiter goroutine is a closure of Shutdown or of a helper it calls
	var closures []*ssa.Function
	for _, g := range reachFuncs(p, sd, PkgBus) {
		closures = append(closures, g.AnonFuncs...)
	}
	for _, a := range closures {
		var waitIn, sigIn ssa.Instruction
		for _, b := range a.Blocks {
			for _, in := range b.Instrs {
				if ci, ok := in.(ssa.CallInstruction); ok {
					if sc := ci.Common().StaticCallee(); sc != nil && sc.Name() == "Wait" && recvTypeName(sc) == "EventBus" {
						waitIn = in
					}
					if kind, wg, ok := wgOp(ci.Common()); ok && kind == "Wait" {
						if tn, fld, _, ok := fieldOfAddr(wg); ok && tn == "EventBus" && fld == R.BusWG {
							waitIn = in
						}
					}
					if bi, ok := ci.Common().Value.(*ssa.Builtin); ok && bi.Name() == "close" {
						sigIn = in
					}
				}
				if _, ok := in.(*ssa.Send); ok {
					sigIn = in
				}
			}
		}
		if waitIn != nil && sigIn != nil {
			waiter = a
			okSignal = reaches(waitIn, sigIn) && !reaches(sigIn, waitIn) && (waitIn.Block() == sigIn.Block() || waitIn.Block().Dominates(sigIn.Block()))
		}
	}
	c.Check(okSignal, "C06.R4", "Shutdown/completion-signalled-after-Wait", p.Pos(sd.Pos()), "the completion channel is signalled only after Wait() returned", "the completion channel can be signalled before Wait() has returned (or no waiter goroutine exists): Shutdown can return nil while async handlers are still running")
	// the completion channel belongs to this call: made here (or by a helper this call runs),
	// never taken from the bus — a channel shared between calls is still closed from an
	// earlier waiter when Shutdown is retried after a timeout
	{
		ixd := newIPIndex(p)
		var fresh func(v ssa.Value, d int) bool
		fresh = func(v ssa.Value, d int) bool {
			v = stripConv(v)
			if d > 3 {
				return false
			}
			switch x := v.(type) {
			case *ssa.MakeChan:
				return true
			case *ssa.UnOp:
				if al, ok := x.X.(*ssa.Alloc); ok && x.Op == token.MUL {
					n, all := 0, true
					for _, ref := range *al.Referrers() {
						if st, ok := ref.(*ssa.Store); ok && st.Addr == al {
							n++
							all = all && fresh(st.Val, d+1)
						}
					}
					return n > 0 && all
				}
				return false
			case *ssa.Call:
				rs := ixd.Returned(x, 0)
				if len(rs) == 0 {
					return false
				}
				for _, r := range rs {
					if !fresh(r, d+1) {
						return false
					}
				}
				return true
			}
			return false
		}
		c.Check(fresh(doneChan, 0), "C06.R4", "Shutdown/completion-channel-made-by-this-call", p.Pos(sel.Pos()), "the channel Shutdown waits on is created by this call", "the completion channel Shutdown waits on is not created by this call (it is shared state of the bus): after a Shutdown that timed out, a retry finds it already closed by the earlier waiter and returns nil — and closes the store — while handlers of later publishes are still running")
	}
	// (b) Close() of the store only on the completion arm of Shutdown's own select
	n := 0
	ix := newIPIndex(p)
	var scan func(g *ssa.Function, inWaiter bool)
	scan = func(g *ssa.Function, inWaiter bool) {
		for _, b := range g.Blocks {
			for _, in := range b.Instrs {
				ci, ok := in.(ssa.CallInstruction)
				if !ok || !ci.Common().IsInvoke() || ci.Common().Method.Name() != "Close" {
					continue
				}
				n++
				// a helper that closes the store is fine when Shutdown calls it only on the
				// completion arm of its select
				onlyFromDoneArm := false
				if g != sd && g.Parent() == nil {
					sites := ix.callers[g]
					onlyFromDoneArm = len(sites) > 0
					for _, cs := range sites {
						if cs.Parent() != sd || !(doneBlk == cs.Block() || doneBlk.Dominates(cs.Block())) {
							onlyFromDoneArm = false
						}
					}
				}
				switch {
				case onlyFromDoneArm:
					c.Discharge("C06.R4", "Shutdown/close-only-on-done-arm", p.Pos(in.Pos()), "Close sits in "+FuncDisplay(g)+", which Shutdown calls only on the completion arm")
					retd := false
					if call, ok := in.(*ssa.Call); ok {
						for _, ref := range *call.Referrers() {
							if bo, ok := ref.(*ssa.BinOp); ok {
								if _, _, ok := nilTest(bo); ok {
									retd = true
								}
							}
						}
					}
					c.Check(retd, "C06.R4", "Shutdown/close-error-returned", p.Pos(in.Pos()), "a Close error is tested and returned", "the error returned by the store's Close is dropped")
				case g != sd:
					c.Violate("C06.R4", "Shutdown/close-only-on-done-arm", p.Pos(in.Pos()), "the store is closed in "+FuncDisplay(g)+", outside Shutdown's select: when the context expires first Shutdown returns the context's error and the store is closed afterwards anyway (or twice on a retry)", nil)
				case !(doneBlk == in.Block() || doneBlk.Dominates(in.Block())):
					c.Violate("C06.R4", "Shutdown/close-only-on-done-arm", p.Pos(in.Pos()), "the store's Close is reachable outside the completion arm of Shutdown's select", nil)
				default:
					c.Discharge("C06.R4", "Shutdown/close-only-on-done-arm", p.Pos(in.Pos()), "Close is dominated by the completion arm")
					// its error is returned
					retd := false
					if call, ok := in.(*ssa.Call); ok {
						for _, ref := range *call.Referrers() {
							if bo, ok := ref.(*ssa.BinOp); ok {
								if _, _, ok := nilTest(bo); ok {
									retd = true
								}
							}
						}
					}
					c.Check(retd, "C06.R4", "Shutdown/close-error-returned", p.Pos(in.Pos()), "a Close error is tested and returned", "the error returned by the store's Close is dropped")
				}
			}
		}
		for _, a := range g.AnonFuncs {
			scan(a, inWaiter || a == waiter)
		}
	}
	scan(sd, false)
	for _, g := range reachFuncs(p, sd, PkgBus) {
		if g != sd && g.Parent() == nil && g.Name() != "Wait" {
			scan(g, false)
		}
	}
	c.Floor("C06.R4", "store Close call sites", n, 1)
	// (c) return nil only on the completion arm; the ctx arm returns ctx.Err()
	okRets := true
	for _, ret := range returnsOf(sd) {
		v := resolveResult(ret, 0)
		onDone := doneBlk == ret.Block() || doneBlk.Dominates(ret.Block())
		onCtx := ctxBlk == ret.Block() || ctxBlk.Dominates(ret.Block())
		if k, ok := v.(*ssa.Const); ok && k.Value == nil {
			if !onDone {
				okRets = false
				c.Violate("C06.R4", "Shutdown/nil-only-on-done-arm", p.Pos(ret.Pos()), "Shutdown returns nil outside the completion arm (e.g. when the context expired)", nil)
			}
		}
		if onCtx {
			call, isCall := stripConv(v).(*ssa.Call)
			if !(isCall && call.Common().IsInvoke() && call.Common().Method.Name() == "Err" && stripConv(call.Common().Value) == ssa.Value(sd.Params[1])) {
				okRets = false
				c.Violate("C06.R4", "Shutdown/ctx-arm-returns-ctx-err", p.Pos(ret.Pos()), "the context arm does not return ctx.Err()", nil)
			}
		}
		if onDone && !onCtx {
			if call, isCall := stripConv(v).(*ssa.Call); isCall && call.Common().IsInvoke() && call.Common().Method.Name() == "Err" {
				okRets = false
				c.Violate("C06.R4", "Shutdown/done-arm-result", p.Pos(ret.Pos()), "on the completion arm Shutdown returns the context's error: when the context expires while the store is being closed, Shutdown reports the context error although it has closed the store", nil)
			}
			// a value received from the completion channel must not smuggle a Close done elsewhere: handled by (b)
			if _, isRecv := stripConv(v).(*ssa.Extract); isRecv {
				okRets = false
				c.Violate("C06.R4", "Shutdown/done-arm-result", p.Pos(ret.Pos()), "Shutdown returns a value received from the waiter goroutine: the work that produced it (closing the store) ran outside the select", nil)
			}
		}
	}
	if okRets {
		c.Discharge("C06.R4", "Shutdown/results", p.Pos(sd.Pos()), "nil only on the completion arm; the context arm returns ctx.Err()")
	}
	_ = token.NoPos
}

// checkPublishCtxNotNarrowed: PublishContext (and its closures) never derive a
// cancellable context of their own. A context.WithTimeout/WithCancel/WithDeadline whose
// cancel runs when PublishContext returns, handed to handlers, skips the handlers after a
// slow one and drops async deliveries that start after the publish returned — although the
// caller's context is live.
func checkPublishCtxNotNarrowed(c *Ctx, p *Prog, R *BusRoles, rule string) {
	n := 0
	var scan func(g *ssa.Function)
	scan = func(g *ssa.Function) {
		for _, b := range g.Blocks {
			for _, in := range b.Instrs {
				if call, ok := in.(*ssa.Call); ok {
					switch calleeName(call.Common()) {
					case "context.WithTimeout", "context.WithCancel", "context.WithDeadline", "context.WithCancelCause", "context.WithTimeoutCause", "context.WithDeadlineCause":
						n++
						c.Violate(rule, "PublishContext/publish-context-not-narrowed/"+FuncDisplay(g), p.Pos(in.Pos()), "PublishContext derives a cancellable context ("+calleeName(call.Common())+") from the publish context: handlers polled or started after its deadline/cancel are skipped and async deliveries are dropped although the caller's context is still live", nil)
					}
				}
			}
		}
		for _, a := range g.AnonFuncs {
			scan(a)
		}
	}
	scan(R.PublishFn)
	if n == 0 {
		c.Discharge(rule, "PublishContext/publish-context-not-narrowed", p.Pos(R.PublishFn.Pos()), "the publish context is only ever replaced by the result of Observability.OnPublishStart")
	}
}

// checkHookSlotWriters (C08.R3): every exported option / setter writes only the hook slot
// it is named after, so installing one hook cannot displace another.
func checkHookSlotWriters(c *Ctx, p *Prog, R *BusRoles, rule string) {
	owner := map[string]string{
		"WithBeforePublish": R.BusBefore, "SetBeforePublishHook": R.BusBefore,
		"WithAfterPublish": R.BusAfter, "SetAfterPublishHook": R.BusAfter,
		"WithBeforePublishContext": R.BusBeforeCtx, "WithAfterPublishContext": R.BusAfterCtx,
	}
	slots := map[string]bool{R.BusBefore: true, R.BusAfter: true, R.BusBeforeCtx: true, R.BusAfterCtx: true}
	n := 0
	_ = newIPIndex
	direct := map[*ssa.Function]map[string]token.Pos{} // top-level function -> slots it stores (incl. its closures)
	for _, f := range p.FuncsIn(PkgBus) {
		for _, b := range f.Blocks {
			for _, in := range b.Instrs {
				// a function that hands out the address of a slot (a field selector given to a
				// generic option builder) is as good as a writer of that slot
				if ret, isRet := in.(*ssa.Return); isRet {
					for _, rv := range ret.Results {
						if tn, fld, _, ok := fieldOfAddr(rv); ok && tn == "EventBus" && slots[fld] {
							o := outermost(f)
							if direct[o] == nil {
								direct[o] = map[string]token.Pos{}
							}
							direct[o][fld] = in.Pos()
						}
					}
					continue
				}
				st, ok := in.(*ssa.Store)
				if !ok {
					continue
				}
				tn, fld, _, ok := fieldOfAddr(st.Addr)
				if !ok || tn != "EventBus" || !slots[fld] {
					continue
				}
				o := outermost(f)
				if direct[o] == nil {
					direct[o] = map[string]token.Pos{}
				}
				direct[o][fld] = in.Pos()
			}
		}
	}
	// slots a function writes itself or through the functions it calls
	var written func(f *ssa.Function, seen map[*ssa.Function]bool) map[string]bool
	written = func(f *ssa.Function, seen map[*ssa.Function]bool) map[string]bool {
		out := map[string]bool{}
		if seen[f] {
			return out
		}
		seen[f] = true
		for fld := range direct[f] {
			out[fld] = true
		}
		for _, g := range reachFuncs(p, f, PkgBus) {
			if o := outermost(g); o != f {
				for fld := range written(o, seen) {
					out[fld] = true
				}
			}
			// setters handed on as function values (method expressions given to a generic
			// option builder) count as called
			for _, b := range g.Blocks {
				for _, in := range b.Instrs {
					for _, op := range in.Operands(nil) {
						if op == nil || *op == nil {
							continue
						}
						if fn, ok := (*op).(*ssa.Function); ok && PkgOf(fn) == PkgBus {
							if o := fn.Origin(); o != nil {
								fn = o
							}
							if fn.Synthetic != "" { // thunk / bound wrapper: what it forwards to
								for _, h := range reachFuncs(p, fn, PkgBus) {
									for fld := range written(outermost(h), seen) {
										out[fld] = true
									}
								}
								continue
							}
							for fld := range written(outermost(fn), seen) {
								out[fld] = true
							}
						}
					}
				}
			}
		}
		return out
	}
	for name, want := range owner {
		f := p.Func(PkgBus, name)
		if f == nil {
			f = p.Method(PkgBus, "EventBus", name)
		}
		if f == nil {
			c.Unresolved(rule, "UNRESOLVED-ANCHOR/"+name, "hook option / setter not found")
			continue
		}
		n++
		w := written(f, map[*ssa.Function]bool{})
		var got []string
		for fld := range w {
			got = append(got, fld)
		}
		sort.Strings(got)
		construct := "hook-slot-writer/" + name + "/" + want
		if len(got) == 1 && got[0] == want {
			c.Discharge(rule, construct, p.Pos(f.Pos()), "writes its own slot (directly or through its setter) and no other")
		} else {
			c.Violate(rule, construct, p.Pos(f.Pos()), fmt.Sprintf("%s writes the hook slot(s) %v instead of exactly its own (%s): the hook the user installed through another option is silently replaced, or this one is never installed", name, got, want), nil)
		}
	}
	// nobody else stores into a slot: a direct writer is an owner or is only called by owners of that slot
	for f, flds := range direct {
		if _, isOwner := owner[f.Name()]; isOwner {
			continue
		}
		for fld, pos := range flds {
			// every call or mention (as a function value) of the helper sits in an owner of this slot
			ok, uses := true, 0
			for _, g := range p.FuncsIn(PkgBus) {
				if outermost(g) == f || g.Synthetic != "" {
					continue
				}
				for _, b := range g.Blocks {
					for _, in := range b.Instrs {
						for _, op := range in.Operands(nil) {
							if op == nil || *op == nil {
								continue
							}
							fn, isFn := (*op).(*ssa.Function)
							if !isFn {
								continue
							}
							if fn != f && !(fn.Synthetic != "" && callsOnly(fn, f)) {
								continue
							}
							uses++
							if want, isOwner := owner[outermost(g).Name()]; !isOwner || want != fld {
								ok = false
							}
						}
					}
				}
			}
			ok = ok && uses > 0
			c.Check(ok, rule, "hook-slot-writer/"+f.Name()+"/"+fld, p.Pos(pos), "helper called only by the owner(s) of this slot", f.Name()+" writes the "+fld+" hook slot: a hook installed by the user can be displaced")
		}
	}
	c.Floor(rule, "hook slot writers", n, 6)
}
