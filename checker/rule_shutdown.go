package main

func checkWaitAndShutdown(c *Ctx, p *Prog, R *BusRoles) {}

func checkAsyncSequencing(c *Ctx, p *Prog, R *BusRoles)      {}
func checkHandlerCtxProvenance(c *Ctx, p *Prog, R *BusRoles) {}
