package main

// E-PATH: exploration of the product of a rule-specific state machine with an
// interprocedural control-flow graph obtained by inlining statically resolved,
// rule-relevant callees into their call sites (DESIGN.md §3.1). The engine never
// executes anything: it walks go/ssa instructions and lets the rule classify them
// into events.

import (
	"fmt"
	"go/constant"
	"go/token"
	"go/types"
	"sort"
	"strings"

	"golang.org/x/tools/go/ssa"
)

// FrameCtx is a persistent (immutable) calling context: who called whom with which
// values. Canonical values are resolved through it.
type FrameCtx struct {
	id      string
	fn      *ssa.Function
	parent  *FrameCtx
	args    []ssa.Value
	closure *ssa.MakeClosure
	depth   int
	site    ssa.Instruction // call / go / defer instruction in the parent (nil for roots)
	isGo    bool
}

func (fc *FrameCtx) onStack(fn *ssa.Function) bool {
	for c := fc; c != nil; c = c.parent {
		if c.fn == fn {
			return true
		}
	}
	return false
}

// Root returns the outermost frame context.
func (fc *FrameCtx) Root() *FrameCtx {
	c := fc
	for c.parent != nil {
		c = c.parent
	}
	return c
}

// InGoroutine reports whether this frame (or an ancestor) was entered through a go statement.
func (fc *FrameCtx) InGoroutine() bool {
	for c := fc; c != nil; c = c.parent {
		if c.isGo {
			return true
		}
	}
	return false
}

type dnode struct { // persistent defer list
	call *ssa.Defer
	next *dnode
	n    int
}

type ctl struct {
	fc        *FrameCtx
	blk       *ssa.BasicBlock
	idx       int
	defers    *dnode
	unwinding bool            // frame is being unwound by a panic
	recovered bool            // a deferred call executed recover() during unwinding
	running   bool            // frame is in the middle of RunDefers (normal exit)
	deferred  bool            // this frame is a deferred call of the frame below
	recovHit  bool            // the last recover() executed in this frame returned non-nil
	prev      *ssa.BasicBlock // block this frame came from (selects the phi edges of blk)
}

type tnode struct {
	pos  token.Pos
	note string
	prev *tnode
}

// State is one path state of the exploration.
type State struct {
	stack     []ctl
	Sigma     string          // rule-defined machine state
	pi        map[string]bool // predicate valuation
	trace     *tnode
	Gor       bool // exploring a spawned goroutine
	ExecDefer bool // OnInstr is being called for a deferred call that now executes
	dead      bool // the rule found this path infeasible
}

// Kill marks the path infeasible (called from OnBranch by a rule that knows the
// branch outcome contradicts its machine state).
func (s *State) Kill() { s.dead = true }

func (s *State) clone() *State {
	n := &State{Sigma: s.Sigma, trace: s.trace, Gor: s.Gor}
	n.stack = append([]ctl(nil), s.stack...)
	n.pi = make(map[string]bool, len(s.pi))
	for k, v := range s.pi {
		n.pi[k] = v
	}
	return n
}

func (s *State) top() *ctl { return &s.stack[len(s.stack)-1] }

// RootBlock is the block the outermost frame is currently in.
func (s *State) RootBlock() *ssa.BasicBlock {
	if len(s.stack) == 0 {
		return nil
	}
	return s.stack[0].blk
}

// BlockOf is the block the innermost frame executing fn is currently in (nil if fn is not
// on the control stack).
func (s *State) BlockOf(fn *ssa.Function) *ssa.BasicBlock {
	for i := len(s.stack) - 1; i >= 0; i-- {
		if s.stack[i].fc.fn == fn {
			return s.stack[i].blk
		}
	}
	return nil
}

// Depth is the number of frames on the control stack.
func (s *State) Depth() int { return len(s.stack) }

// Unwinding reports whether some frame is currently being unwound by a panic.
func (s *State) Unwinding() bool {
	for _, c := range s.stack {
		if c.unwinding {
			return true
		}
	}
	return false
}

// Note appends a step to the witness trace.
func (s *State) Note(pos token.Pos, format string, a ...any) {
	s.trace = &tnode{pos: pos, note: fmt.Sprintf(format, a...), prev: s.trace}
}

// Pred returns the recorded valuation of a predicate key.
func (s *State) Pred(key string) (val, known bool) {
	v, ok := s.pi[key]
	return v, ok
}

// Preds returns a copy of the predicate valuation.
func (s *State) Preds() map[string]bool {
	m := make(map[string]bool, len(s.pi))
	for k, v := range s.pi {
		m[k] = v
	}
	return m
}

func (s *State) key() string {
	var b strings.Builder
	for _, c := range s.stack {
		dn := 0
		if c.defers != nil {
			dn = c.defers.n
		}
		fmt.Fprintf(&b, "%s@%d.%d/d%d", c.fc.id, c.blk.Index, c.idx, dn)
		if c.prev != nil && c.idx == 0 && len(c.blk.Instrs) > 0 {
			if _, isPhi := c.blk.Instrs[0].(*ssa.Phi); isPhi {
				fmt.Fprintf(&b, "<%d", c.prev.Index) // the phis have not taken their values yet
			}
		}
		if c.unwinding {
			b.WriteByte('u')
		}
		if c.recovered {
			b.WriteByte('r')
		}
		if c.running {
			b.WriteByte('x')
		}
		if c.deferred {
			b.WriteByte('d')
		}
		if c.recovHit {
			b.WriteByte('h')
		}
		b.WriteByte('|')
		// the defer list identity matters (which deferred calls are pending)
		for d := c.defers; d != nil; d = d.next {
			fmt.Fprintf(&b, "%d,", d.call.Pos())
		}
	}
	b.WriteString("σ=" + s.Sigma + "|π=")
	ks := make([]string, 0, len(s.pi))
	for k := range s.pi {
		ks = append(ks, k)
	}
	sort.Strings(ks)
	for _, k := range ks {
		if s.pi[k] {
			b.WriteString(k + "=T;")
		} else {
			b.WriteString(k + "=F;")
		}
	}
	if s.Gor {
		b.WriteString("|gor")
	}
	return b.String()
}

// ExitKind says how the root (or a goroutine root) was left.
type ExitKind int

const (
	ExitReturn    ExitKind = iota
	ExitPanic              // panic left the root
	ExitGoroutine          // spawned goroutine body returned
	ExitGoroutinePanic
)

func (k ExitKind) String() string {
	return [...]string{"return", "panic-escapes", "goroutine-exit", "goroutine-panic-escapes"}[k]
}

// Rule is what a rule author supplies to E-PATH.
type Rule interface {
	// Inline reports whether a statically resolved in-scope callee is relevant and
	// should be inlined at this site.
	Inline(fn *ssa.Function) bool
	// OnInstr is called for every instruction before it is executed (for a Defer
	// instruction: once at registration with st.ExecDefer=false and once when the
	// deferred call runs with st.ExecDefer=true). It returns true if the instruction
	// may panic; an unwinding alternative is then explored too.
	OnInstr(e *Engine, st *State, fc *FrameCtx, in ssa.Instruction) (mayPanic bool)
	// OnBranch is called when an If edge is taken.
	OnBranch(e *Engine, st *State, fc *FrameCtx, in *ssa.If, taken bool)
	// OnEdge is called on every block-to-block transfer.
	OnEdge(e *Engine, st *State, fc *FrameCtx, from, to *ssa.BasicBlock)
	// OnEnter / OnLeave are called when an inlined frame is pushed / popped.
	OnEnter(e *Engine, st *State, fc *FrameCtx)
	OnLeave(e *Engine, st *State, fc *FrameCtx, recovered bool)
	// OnExit is called when the root (or a goroutine root) is left.
	OnExit(e *Engine, st *State, kind ExitKind)
	// PredFilter lets a rule restrict the predicates that are tracked (nil = all stable ones).
	PredOK(key string) bool
}

// BaseRule supplies no-op defaults.
type BaseRule struct{}

func (BaseRule) Inline(fn *ssa.Function) bool                                        { return true }
func (BaseRule) OnInstr(e *Engine, st *State, fc *FrameCtx, in ssa.Instruction) bool { return false }
func (BaseRule) OnBranch(e *Engine, st *State, fc *FrameCtx, in *ssa.If, taken bool) {}
func (BaseRule) OnEdge(e *Engine, st *State, fc *FrameCtx, from, to *ssa.BasicBlock) {}
func (BaseRule) OnEnter(e *Engine, st *State, fc *FrameCtx)                          {}
func (BaseRule) OnLeave(e *Engine, st *State, fc *FrameCtx, recovered bool)          {}
func (BaseRule) OnExit(e *Engine, st *State, kind ExitKind)                          {}
func (BaseRule) PredOK(key string) bool                                              { return true }

// Finding is a rule violation found by the engine, keyed by construct.
type Finding struct {
	Construct, Msg string
	Pos            token.Pos
	Trace          []string
}

// Engine explores one program with one rule at a time.
type Engine struct {
	P         *Prog
	rule      Rule
	visited   map[string]bool
	States    int
	Findings  []Finding
	fkeys     map[string]bool
	Immutable map[string]bool // "Type.field" whose loads may be correlated
	cells     *cellIndex
	Inlined   map[*ssa.Function]bool
	phiBusy   map[*ssa.Phi]bool
	evFree    map[*ssa.Function]bool
	// StepOver: do not inline helpers that contain no observable event (opt-in: rules that
	// watch branch outcomes or bind helper results must see every helper)
	StepOver  bool
	Budget    int
	Exhausted bool
	// Resolve optionally maps an interface invoke to the single in-scope method that
	// implements it (the receiver becomes the first argument).
	Resolve func(c *ssa.CallCommon) *ssa.Function
}

// NewEngine creates an engine over p.
func NewEngine(p *Prog) *Engine {
	e := &Engine{P: p, Immutable: map[string]bool{}, Inlined: map[*ssa.Function]bool{}, Budget: 3000000}
	e.cells = indexCells(p)
	return e
}

// Report records a finding once per construct+message.
func (e *Engine) Report(st *State, pos token.Pos, construct, format string, a ...any) {
	msg := fmt.Sprintf(format, a...)
	k := construct + "|" + msg
	if e.fkeys == nil {
		e.fkeys = map[string]bool{}
	}
	if e.fkeys[k] {
		return
	}
	e.fkeys[k] = true
	var tr []string
	if st != nil {
		for n := st.trace; n != nil; n = n.prev {
			tr = append(tr, e.P.Pos(n.pos)+": "+n.note)
		}
		for i, j := 0, len(tr)-1; i < j; i, j = i+1, j-1 {
			tr[i], tr[j] = tr[j], tr[i]
		}
	}
	e.Findings = append(e.Findings, Finding{Construct: construct, Msg: msg, Pos: pos, Trace: tr})
}

// ---------------------------------------------------------------------------
// Address-taken local cells: SSA spills every variable captured by a closure to
// a heap cell. The index records what is stored into each cell anywhere.

type cellIndex struct {
	// fieldSites: store sites per "Type.field" of unexported struct types of the module
	fieldSites map[string][]*ssa.Store
	stores     map[*ssa.Alloc][]ssa.Value
	storeIns   map[*ssa.Alloc][]*ssa.Store
	freeAlloc  map[*ssa.FreeVar]*ssa.Alloc
}

func indexCells(p *Prog) *cellIndex {
	ci := &cellIndex{stores: map[*ssa.Alloc][]ssa.Value{}, storeIns: map[*ssa.Alloc][]*ssa.Store{}, freeAlloc: map[*ssa.FreeVar]*ssa.Alloc{}, fieldSites: map[string][]*ssa.Store{}}
	fns := p.Funcs()
	// closure bindings (parents are listed before their anonymous functions)
	for _, fn := range fns {
		for _, b := range fn.Blocks {
			for _, in := range b.Instrs {
				if mc, ok := in.(*ssa.MakeClosure); ok {
					cf := mc.Fn.(*ssa.Function)
					for i, bv := range mc.Bindings {
						var a *ssa.Alloc
						switch bv := bv.(type) {
						case *ssa.Alloc:
							a = bv
						case *ssa.FreeVar:
							a = ci.freeAlloc[bv]
						}
						if a != nil && i < len(cf.FreeVars) {
							ci.freeAlloc[cf.FreeVars[i]] = a
						}
					}
				}
			}
		}
	}
	for _, fn := range fns {
		for _, b := range fn.Blocks {
			for _, in := range b.Instrs {
				if s, ok := in.(*ssa.Store); ok {
					if fa, isFA := s.Addr.(*ssa.FieldAddr); isFA {
						if pt, isP := fa.X.Type().Underlying().(*types.Pointer); isP {
							if nt, isN := pt.Elem().(*types.Named); isN && !nt.Obj().Exported() && nt.Obj().Pkg() != nil && p.Mods[nt.Obj().Pkg().Path()] {
								k := nt.Obj().Name() + "." + fieldName(fa.X.Type(), fa.Field)
								ci.fieldSites[k] = append(ci.fieldSites[k], s)
							}
						}
					}
					var al *ssa.Alloc
					switch a := s.Addr.(type) {
					case *ssa.Alloc:
						al = a
					case *ssa.FreeVar:
						al = ci.freeAlloc[a]
					}
					if al != nil {
						ci.stores[al] = append(ci.stores[al], s.Val)
						ci.storeIns[al] = append(ci.storeIns[al], s)
					}
				}
			}
		}
	}
	return ci
}

// ---------------------------------------------------------------------------
// Canonical values.

func fnName(fn *ssa.Function) string {
	if fn == nil {
		return "?"
	}
	return fn.String()
}

// Canon returns a canonical descriptor of v in context fc and whether the descriptor
// denotes a value that cannot change during the exploration (so predicates on it may
// be correlated).
func (e *Engine) Canon(fc *FrameCtx, v ssa.Value) (string, bool) {
	return e.canon(fc, v, 0)
}

// CanonS is Canon without the stability flag.
func (e *Engine) CanonS(fc *FrameCtx, v ssa.Value) string {
	s, _ := e.canon(fc, v, 0)
	return s
}

func (e *Engine) canon(fc *FrameCtx, v ssa.Value, depth int) (string, bool) {
	if depth > 60 {
		return "deep", false
	}
	switch v := v.(type) {
	case *ssa.Const:
		if v.Value == nil {
			return "nil", true
		}
		return "const:" + v.Value.ExactString(), true
	case *ssa.Parameter:
		if fc != nil && fc.args != nil && fc.fn == v.Parent() {
			for i, p := range fc.fn.Params {
				if p == v && i < len(fc.args) {
					return e.canon(fc.parent, fc.args[i], depth+1)
				}
			}
		}
		if c := e.ctxOf(fc, v.Parent()); c != nil && c != fc && c.args != nil {
			for i, p := range c.fn.Params {
				if p == v && i < len(c.args) {
					return e.canon(c.parent, c.args[i], depth+1)
				}
			}
		}
		return "param:" + fnName(v.Parent()) + "." + v.Name(), true
	case *ssa.FreeVar:
		if fc != nil && fc.closure != nil && fc.fn == v.Parent() {
			for i, f := range fc.fn.FreeVars {
				if f == v && i < len(fc.closure.Bindings) {
					return e.canon(fc.parent, fc.closure.Bindings[i], depth+1)
				}
			}
		}
		if a := e.cells.freeAlloc[v]; a != nil {
			return "&cell:" + fnName(a.Parent()) + "." + a.Comment + "@" + a.Name(), true
		}
		return "free:" + fnName(v.Parent()) + "." + v.Name(), true
	case *ssa.ChangeType:
		return e.canon(fc, v.X, depth+1)
	case *ssa.ChangeInterface:
		return e.canon(fc, v.X, depth+1)
	case *ssa.MakeInterface:
		return e.canon(fc, v.X, depth+1)
	case *ssa.Convert:
		return e.canon(fc, v.X, depth+1)
	case *ssa.Alloc:
		if v.Comment != "" && !isAggregateCell(v) {
			return "&cell:" + fnName(v.Parent()) + "." + v.Comment + "@" + v.Name(), true
		}
		id := ""
		if c := e.ctxOf(fc, v.Parent()); c != nil {
			id = c.id
		}
		return "&alloc:" + id + ":" + fnName(v.Parent()) + "." + v.Comment + "@" + v.Name(), true
	case *ssa.FieldAddr:
		b, st := e.canon(fc, v.X, depth+1)
		f := fieldName(v.X.Type(), v.Field)
		return "&(" + b + ")." + f, st
	case *ssa.Field:
		// a field of a struct value built by a composite literal that only its own
		// function writes (passed by value to helpers): it is the value stored there
		if s, st, ok := e.structValueField(fc, v.X, v.Field, depth); ok {
			return s, st
		}
		b, st := e.canon(fc, v.X, depth+1)
		f := fieldName(v.X.Type(), v.Field)
		return "(" + b + ")." + f, st // a field of an SSA struct value cannot change
	case *ssa.IndexAddr:
		b, st := e.canon(fc, v.X, depth+1)
		i, st2 := e.canon(fc, v.Index, depth+1)
		return "&(" + b + ")[" + i + "]", st && st2
	case *ssa.Index:
		b, st := e.canon(fc, v.X, depth+1)
		i, st2 := e.canon(fc, v.Index, depth+1)
		return "(" + b + ")[" + i + "]", st && st2
	case *ssa.Lookup:
		b, _ := e.canon(fc, v.X, depth+1)
		i, _ := e.canon(fc, v.Index, depth+1)
		return "lookup(" + b + ")[" + i + "]@" + e.valID(fc, v), true
	case *ssa.UnOp:
		if v.Op == token.MUL {
			// load: single-store scalar cells are transparent
			if a := e.allocOf(v.X); a != nil {
				ss := e.cells.stores[a]
				if len(ss) == 1 {
					return e.canon(e.ctxOfOr(fc, a.Parent()), ss[0], depth+1)
				}
				return "cell:" + fnName(a.Parent()) + "." + a.Comment + "@" + a.Name(), false
			}
			s, st := e.canon(fc, v.X, depth+1)
			if strings.HasPrefix(s, "&") {
				s = s[1:]
			} else {
				s = "*" + s
			}
			if fa, ok := v.X.(*ssa.FieldAddr); ok {
				f := fieldName(fa.X.Type(), fa.Field)
				// a field of a by-value copy (a spilled value receiver or parameter)
				if a0, ok := fa.X.(*ssa.Alloc); ok {
					if w := wholeStore(a0); w != nil {
						if s, st, ok := e.structValueField(e.ctxOfOr(fc, a0.Parent()), w, fa.Field, depth); ok {
							return s, st
						}
						// a copy of some other struct value (a call's result): its field
						if _, isCall := stripConv(w).(*ssa.Call); isCall {
							b, st := e.canon(e.ctxOfOr(fc, a0.Parent()), w, depth+1)
							return "(" + b + ")." + f, st
						}
					}
				}
				// a field of a "captured-state" struct (a closure turned into a struct with
				// methods): written at exactly one site in the program, on the freshly
				// allocated object we are reading from — it is that stored value
				if sites := e.cells.fieldSites[typeName(fa.X.Type())+"."+f]; len(sites) == 1 && depth < 40 {
					if sfa, ok := sites[0].Addr.(*ssa.FieldAddr); ok {
						if a0, ok := stripConv(sfa.X).(*ssa.Alloc); ok {
							if bv, _ := e.ArgValue(fc, fa.X); stripConv(bv) == ssa.Value(a0) {
								return e.canon(e.ctxOfOr(fc, a0.Parent()), sites[0].Val, depth+1)
							}
						}
					}
				}
				return s, st && e.Immutable[typeName(fa.X.Type())+"."+f]
			}
			if _, ok := v.X.(*ssa.IndexAddr); ok {
				// an element load is identified by its access path, so that repeated
				// loads of the same element compare equal (bus.shards[i] read three
				// times). Assumption: an element read twice on one path is not
				// changed in between; predicates on it are dropped when the index
				// register is redefined by a loop.
				return s, st
			}
			return s, false
		}
		s, st := e.canon(fc, v.X, depth+1)
		return v.Op.String() + s, st
	case *ssa.BinOp:
		x, s1 := e.canon(fc, v.X, depth+1)
		y, s2 := e.canon(fc, v.Y, depth+1)
		return "(" + x + v.Op.String() + y + ")", s1 && s2
	case *ssa.Extract:
		t, st := e.canon(fc, v.Tuple, depth+1)
		return fmt.Sprintf("%s#%d", t, v.Index), st
	case *ssa.Phi:
		if e.phiBusy == nil {
			e.phiBusy = map[*ssa.Phi]bool{}
		}
		if e.phiBusy[v] {
			break
		}
		e.phiBusy[v] = true
		defer delete(e.phiBusy, v)
		var first string
		same := true
		stable := true
		n := 0
		for _, ed := range v.Edges {
			if ed == v {
				continue
			}
			s, st := e.canon(fc, ed, depth+1)
			stable = stable && st
			if n == 0 {
				first = s
			} else if s != first {
				same = false
			}
			n++
		}
		if same && first != "" {
			return first, stable
		}
	case *ssa.MakeClosure:
		return "closure:" + fnName(v.Fn.(*ssa.Function)), true
	case *ssa.Function:
		return "func:" + fnName(v), true
	case *ssa.Global:
		return "&global:" + v.String(), true
	case *ssa.TypeAssert:
		s, st := e.canon(fc, v.X, depth+1)
		return "assert(" + s + "," + types.TypeString(v.AssertedType, nil) + ")", st
	case *ssa.Slice:
		s, _ := e.canon(fc, v.X, depth+1)
		return "slice(" + s + ")@" + e.valID(fc, v), true
	}
	return "v:" + e.valID(fc, v), true
}

// bindStructResult: rv is a struct value a callee returns, built by a composite literal of
// its own; for every field whose nil-ness this path knows (absent from the literal, a nil
// constant, a fresh object, a value tested on the path) the caller learns the same about
// `result.field`.
func (e *Engine) bindStructResult(st *State, fc *FrameCtx, rv ssa.Value, key string) {
	ld, ok := stripConv(rv).(*ssa.UnOp)
	if !ok || ld.Op != token.MUL {
		return
	}
	lit, ok := ld.X.(*ssa.Alloc)
	if !ok {
		return
	}
	stt, ok := lit.Type().Underlying().(*types.Pointer).Elem().Underlying().(*types.Struct)
	if !ok {
		return
	}
	// only literals: field stores and whole loads
	for _, ref := range *lit.Referrers() {
		switch x := ref.(type) {
		case *ssa.FieldAddr, *ssa.DebugRef:
		case *ssa.UnOp:
			if x.Op != token.MUL {
				return
			}
		default:
			return
		}
	}
	for i := 0; i < stt.NumFields(); i++ {
		switch stt.Field(i).Type().Underlying().(type) {
		case *types.Pointer, *types.Interface, *types.Signature, *types.Map, *types.Slice, *types.Chan:
		default:
			continue
		}
		nk := "(" + minStr("nil", "("+key+")."+stt.Field(i).Name()) + "==" + maxStr("nil", "("+key+")."+stt.Field(i).Name()) + ")"
		if !e.rule.PredOK(nk) {
			continue
		}
		stores := 0
		var sv ssa.Value
		for _, ref := range *lit.Referrers() {
			if fa, ok := ref.(*ssa.FieldAddr); ok && fa.Field == i {
				for _, r2 := range *fa.Referrers() {
					if s2, ok := r2.(*ssa.Store); ok && s2.Addr == ssa.Value(fa) {
						stores++
						sv = s2.Val
					}
				}
			}
		}
		switch {
		case stores == 0:
			st.pi[nk] = true // zero value
		case stores > 1:
		default:
			if k, isK := sv.(*ssa.Const); isK && k.Value == nil {
				st.pi[nk] = true
			} else if e.neverNil(fc, sv, 0) {
				st.pi[nk] = false
			} else {
				cv := e.CanonS(fc, sv)
				if val, known := st.pi["("+minStr("nil", cv)+"=="+maxStr("nil", cv)+")"]; known {
					st.pi[nk] = val
				}
			}
		}
	}
}

// structValueField: the canonical value of field number field of the struct value w, when
// w is (through parameters of explored frames and by-value copies) a struct built by a
// composite literal that only its own function writes.
func (e *Engine) structValueField(fc *FrameCtx, w ssa.Value, field int, depth int) (string, bool, bool) {
	for i := 0; i < 6 && depth < 40; i++ {
		bv, bfc := e.ArgValue(fc, w)
		ld, ok := stripConv(bv).(*ssa.UnOp)
		if !ok || ld.Op != token.MUL {
			return "", false, false
		}
		a, ok := ld.X.(*ssa.Alloc)
		if !ok {
			return "", false, false
		}
		if sv := structLitField(a, field); sv != nil {
			s, st := e.canon(e.ctxOfOr(bfc, a.Parent()), sv, depth+1)
			return s, st, true
		}
		w2 := wholeStore(a)
		if w2 == nil {
			return "", false, false
		}
		w, fc = w2, e.ctxOfOr(bfc, a.Parent())
	}
	return "", false, false
}

// wholeStore: the local struct a is written exactly once, as a whole, and otherwise only
// read field by field; the value stored.
func wholeStore(a *ssa.Alloc) ssa.Value {
	var val ssa.Value
	n := 0
	for _, ref := range *a.Referrers() {
		switch x := ref.(type) {
		case *ssa.Store:
			if x.Addr != ssa.Value(a) {
				return nil
			}
			val = x.Val
			n++
		case *ssa.FieldAddr:
			for _, r2 := range *x.Referrers() {
				if ld, ok := r2.(*ssa.UnOp); !ok || ld.Op != token.MUL {
					if _, dbg := r2.(*ssa.DebugRef); !dbg {
						return nil
					}
				}
			}
		case *ssa.UnOp:
			if x.Op != token.MUL {
				return nil
			}
		case *ssa.DebugRef:
		default:
			return nil
		}
	}
	if n != 1 {
		return nil
	}
	return val
}

// structLitField: a is a local struct that is only written field by field, never as a
// whole, and whose address goes nowhere else; the one value stored in the field, or nil.
func structLitField(a *ssa.Alloc, field int) ssa.Value {
	var val ssa.Value
	n := 0
	for _, ref := range *a.Referrers() {
		switch x := ref.(type) {
		case *ssa.FieldAddr:
			for _, r2 := range *x.Referrers() {
				switch y := r2.(type) {
				case *ssa.Store:
					if y.Addr != ssa.Value(x) {
						return nil
					}
					if x.Field == field {
						val = y.Val
						n++
					}
				case *ssa.UnOp:
					if y.Op != token.MUL {
						return nil
					}
				case *ssa.DebugRef:
				default:
					return nil
				}
			}
		case *ssa.UnOp:
			if x.Op != token.MUL {
				return nil
			}
		case *ssa.DebugRef:
		default:
			return nil
		}
	}
	if n != 1 {
		return nil
	}
	return val
}

// ArgValue follows a parameter of an inlined frame to the argument value in the calling
// frame (repeatedly), and a load of a single-store local cell to the stored value.
func (e *Engine) ArgValue(fc *FrameCtx, v ssa.Value) (ssa.Value, *FrameCtx) {
	for i := 0; i < 12; i++ {
		v = stripConv(v)
		switch x := v.(type) {
		case *ssa.Parameter:
			c := e.ctxOfOr(fc, x.Parent())
			if c == nil || c.args == nil || c.parent == nil {
				return v, fc
			}
			idx := -1
			for j, p := range c.fn.Params {
				if p == x {
					idx = j
				}
			}
			if idx < 0 || idx >= len(c.args) {
				return v, fc
			}
			v, fc = c.args[idx], c.parent
		case *ssa.UnOp:
			if x.Op != token.MUL {
				return v, fc
			}
			a := e.allocOf(x.X)
			if a == nil || len(e.cells.stores[a]) != 1 {
				return v, fc
			}
			v = e.cells.stores[a][0]
			fc = e.ctxOfOr(fc, a.Parent())
		default:
			return v, fc
		}
	}
	return v, fc
}

func (e *Engine) valID(fc *FrameCtx, v ssa.Value) string {
	id := ""
	if c := e.ctxOfOr(fc, v.Parent()); c != nil {
		id = c.id
	} else if v.Parent() != nil {
		id = fnName(v.Parent())
	}
	return id + ":" + v.Name()
}

// privateSlice: v is a slice created by make in the enclosing function that is only
// filled by copy (no element-wise store through an IndexAddr).
func privateSlice(v ssa.Value) bool {
	ms, ok := v.(*ssa.MakeSlice)
	if !ok {
		return false
	}
	for _, ref := range *ms.Referrers() {
		if ia, ok := ref.(*ssa.IndexAddr); ok {
			for _, r2 := range *ia.Referrers() {
				if st, ok := r2.(*ssa.Store); ok && st.Addr == ia {
					return false
				}
			}
		}
	}
	return true
}

func isAggregateCell(a *ssa.Alloc) bool {
	switch a.Type().Underlying().(*types.Pointer).Elem().Underlying().(type) {
	case *types.Struct, *types.Array:
		return true
	}
	return false
}

// allocOf resolves an address to the scalar local cell it denotes, following
// closure bindings, or nil.
func (e *Engine) allocOf(addr ssa.Value) *ssa.Alloc {
	switch a := addr.(type) {
	case *ssa.Alloc:
		if isAggregateCell(a) {
			return nil
		}
		return a
	case *ssa.FreeVar:
		if al := e.cells.freeAlloc[a]; al != nil && !isAggregateCell(al) {
			return al
		}
	}
	return nil
}

func (e *Engine) ctxOf(fc *FrameCtx, fn *ssa.Function) *FrameCtx {
	for c := fc; c != nil; c = c.parent {
		if c.fn == fn {
			return c
		}
	}
	return nil
}

func (e *Engine) ctxOfOr(fc *FrameCtx, fn *ssa.Function) *FrameCtx {
	if c := e.ctxOf(fc, fn); c != nil {
		return c
	}
	return fc
}

func typeName(t types.Type) string {
	if p, ok := t.Underlying().(*types.Pointer); ok {
		t = p.Elem()
	}
	if n, ok := t.(*types.Named); ok {
		return n.Obj().Name()
	}
	if a, ok := t.(*types.Alias); ok {
		return a.Obj().Name()
	}
	return t.String()
}

func fieldName(t types.Type, i int) string {
	if p, ok := t.Underlying().(*types.Pointer); ok {
		t = p.Elem()
	}
	if s, ok := t.Underlying().(*types.Struct); ok && i < s.NumFields() {
		return s.Field(i).Name()
	}
	return fmt.Sprintf("f%d", i)
}

// ---------------------------------------------------------------------------
// Predicates.

// PredKey normalises a branch condition to (key, polarity, stable): the condition is
// true iff key has value pol.
func (e *Engine) PredKey(fc *FrameCtx, cond ssa.Value) (string, bool, bool) {
	pol := true
	for {
		if u, ok := cond.(*ssa.UnOp); ok && u.Op == token.NOT {
			cond = u.X
			pol = !pol
			continue
		}
		break
	}
	if b, ok := cond.(*ssa.BinOp); ok && (b.Op == token.EQL || b.Op == token.NEQ) {
		x, s1 := e.Canon(fc, b.X)
		y, s2 := e.Canon(fc, b.Y)
		if x > y {
			x, y = y, x
		}
		if b.Op == token.NEQ {
			pol = !pol
		}
		return "(" + x + "==" + y + ")", pol, s1 && s2
	}
	k, st := e.Canon(fc, cond)
	return k, pol, st
}

// nonNilOrigin reports whether v is, by construction, never nil.
func nonNilOrigin(v ssa.Value) bool {
	switch v := v.(type) {
	case *ssa.Alloc, *ssa.MakeClosure, *ssa.MakeMap, *ssa.MakeSlice, *ssa.MakeChan, *ssa.Function:
		return true
	case *ssa.MakeInterface:
		return true
	case *ssa.Call:
		if sc := v.Common().StaticCallee(); sc != nil {
			switch sc.String() {
			case "fmt.Errorf", "errors.New":
				return true
			}
		}
	}
	return false
}

// ---------------------------------------------------------------------------
// Exploration.

// Run explores rule from root with the initial machine state sigma0.
func (e *Engine) Run(rule Rule, root *ssa.Function, sigma0 string) {
	e.rule = rule
	e.visited = map[string]bool{}
	if root == nil || len(root.Blocks) == 0 {
		return
	}
	fc := &FrameCtx{id: FuncDisplay(root), fn: root}
	st := &State{Sigma: sigma0, pi: map[string]bool{}}
	st.stack = []ctl{{fc: fc, blk: root.Blocks[0]}}
	st.Note(root.Pos(), "enter %s", FuncDisplay(root))
	e.Inlined[root] = true
	e.rule.OnEnter(e, st, fc)
	e.explore(st)
}

// StaticCallee resolves a call to a function body: direct calls, closures created in
// place, generic instances (mapped to their origin body).
func (e *Engine) StaticCallee(fc *FrameCtx, c *ssa.CallCommon) (*ssa.Function, *ssa.MakeClosure) {
	if c.IsInvoke() {
		if e.Resolve != nil {
			return e.Resolve(c), nil
		}
		return nil, nil
	}
	v := c.Value
	for i := 0; i < 8; i++ {
		switch x := v.(type) {
		case *ssa.Function:
			if o := x.Origin(); o != nil {
				return o, nil
			}
			return x, nil
		case *ssa.MakeClosure:
			f := x.Fn.(*ssa.Function)
			return f, x
		case *ssa.ChangeType:
			v = x.X
			continue
		case *ssa.Parameter:
			// a function value handed in by the (inlined) caller: `h.run(func() {…})`
			if c := e.ctxOf(fc, x.Parent()); c != nil && c.args != nil {
				idx := -1
				for j, p := range c.fn.Params {
					if p == x {
						idx = j
					}
				}
				if idx >= 0 && idx < len(c.args) {
					v, fc = c.args[idx], c.parent
					continue
				}
			}
		case *ssa.UnOp:
			// load of a single-store local cell holding a closure
			if x.Op == token.MUL {
				if a := e.allocOf(x.X); a != nil && len(e.cells.stores[a]) == 1 {
					v = e.cells.stores[a][0]
					continue
				}
			}
		}
		break
	}
	return nil, nil
}

func (e *Engine) explore(st *State) {
	for {
		if e.Exhausted || len(st.stack) == 0 {
			return
		}
		t := st.top()
		if t.idx == 0 && !t.running && !t.unwinding {
			k := st.key()
			if e.visited[k] {
				return
			}
			e.visited[k] = true
			e.States++
			if e.Budget > 0 && e.States > e.Budget {
				e.Exhausted = true
				return
			}
		}
		if t.unwinding || t.running {
			if !e.runNextDefer(st) {
				return
			}
			continue
		}
		if t.idx >= len(t.blk.Instrs) {
			return
		}
		in := t.blk.Instrs[t.idx]
		fc := t.fc
		mayPanic := e.rule.OnInstr(e, st, fc, in)
		if st.dead {
			return
		}
		if mayPanic {
			alt := st.clone()
			alt.Note(in.Pos(), "panics here")
			alt.top().unwinding = true
			e.explore(alt)
		}
		// invalidate predicates about the value being (re)defined
		if v, ok := in.(ssa.Value); ok && len(st.pi) > 0 {
			tok := "v:" + fc.id + ":" + v.Name()
			for k := range st.pi {
				if idx := strings.Index(k, tok); idx >= 0 {
					end := idx + len(tok)
					if end == len(k) || !isIdentChar(k[end]) {
						delete(st.pi, k)
					}
				}
			}
		}
		// a boolean phi takes the constant of the edge the path came in by (flag variables:
		// `removed := false; …; removed = true; …; if !removed {…}`)
		if ph, ok := in.(*ssa.Phi); ok && t.prev != nil && isBoolType(ph.Type()) {
			for i, pr := range t.blk.Preds {
				if pr != t.prev || i >= len(ph.Edges) {
					continue
				}
				key := "v:" + fc.id + ":" + ph.Name()
				if !e.rule.PredOK(key) {
					break
				}
				if k, isK := ph.Edges[i].(*ssa.Const); isK && k.Value != nil && isBoolConst(k) {
					st.pi[key] = k.Value.ExactString() == "true"
				} else if ek, pol, stable := e.PredKey(fc, ph.Edges[i]); stable {
					if val, known := st.pi[ek]; known {
						st.pi[key] = val == pol
					}
				}
			}
		}
		// likewise the nil-ness of an error/pointer phi follows the edge taken
		// (`err` assigned on one arm only, returned after the arms join)
		if ph, ok := in.(*ssa.Phi); ok && t.prev != nil && !isBasic(ph.Type()) && !isBoolType(ph.Type()) {
			for i, pr := range t.blk.Preds {
				if pr != t.prev || i >= len(ph.Edges) {
					continue
				}
				pk := "v:" + fc.id + ":" + ph.Name()
				key := "(" + minStr("nil", pk) + "==" + maxStr("nil", pk) + ")"
				if !e.rule.PredOK(key) {
					break
				}
				ed := ph.Edges[i]
				switch k, isK := ed.(*ssa.Const); {
				case isK && k.Value == nil:
					st.pi[key] = true
				case e.neverNil(fc, ed, 0):
					st.pi[key] = false
				default:
					ek := e.CanonS(fc, ed)
					if val, known := st.pi["("+minStr("nil", ek)+"=="+maxStr("nil", ek)+")"]; known {
						st.pi[key] = val
					}
				}
			}
		}
		switch in := in.(type) {
		case *ssa.If:
			key, pol, stable := e.PredKey(fc, in.Cond)
			if stable && !e.rule.PredOK(key) {
				stable = false
			}
			forced, fval := e.foldCond(fc, in.Cond)
			if !forced {
				forced, fval = e.foldRecover(st, in.Cond)
			}
			for i, succ := range t.blk.Succs {
				taken := i == 0
				if forced && taken != fval {
					continue
				}
				val := taken == pol // value of key on this edge
				if stable {
					if old, ok := st.pi[key]; ok && old != val {
						continue // infeasible
					}
				}
				n := st.clone()
				if stable {
					n.pi[key] = val
				}
				e.rule.OnBranch(e, n, fc, in, taken)
				if n.dead {
					continue
				}
				e.rule.OnEdge(e, n, fc, t.blk, succ)
				nt := n.top()
				nt.prev, nt.blk, nt.idx = t.blk, succ, 0
				e.explore(n)
			}
			return
		case *ssa.Jump:
			succ := t.blk.Succs[0]
			e.rule.OnEdge(e, st, fc, t.blk, succ)
			t.prev, t.blk, t.idx = t.blk, succ, 0
			continue
		case *ssa.Return:
			// constant boolean results of an inlined call become known predicates of the
			// caller (`cont := helper(...)`; `if !cont { return }`)
			if call, ok := fc.site.(*ssa.Call); ok && fc.parent != nil && !t.deferred {
				for i, rv := range in.Results {
					key := "v:" + fc.parent.id + ":" + call.Name()
					if len(in.Results) > 1 {
						key += fmt.Sprintf("#%d", i)
					}
					k, isConst := rv.(*ssa.Const)
					switch {
					case isConst && k.Value != nil && isBoolConst(k):
						if e.rule.PredOK(key) {
							st.pi[key] = k.Value.ExactString() == "true"
						}
					case isConst && k.Value == nil && !isBasic(k.Type()):
						// the callee returned nil (e.g. a nil error)
						nk := "(" + minStr("nil", key) + "==" + maxStr("nil", key) + ")"
						if e.rule.PredOK(nk) {
							st.pi[nk] = true
						}
					case e.neverNil(fc, rv, 0):
						nk := "(" + minStr("nil", key) + "==" + maxStr("nil", key) + ")"
						if e.rule.PredOK(nk) {
							st.pi[nk] = false
						}
					default:
						// a value whose nil-ness was tested on this path keeps it
						cv := e.CanonS(fc, rv)
						if val, known := st.pi["("+minStr("nil", cv)+"=="+maxStr("nil", cv)+")"]; known {
							nk := "(" + minStr("nil", key) + "==" + maxStr("nil", key) + ")"
							if e.rule.PredOK(nk) {
								st.pi[nk] = val
							}
						}
						// a small result struct built by a literal ("plan", "decision"): the
						// nil-ness of each pointer/interface/func field is known to the caller
						e.bindStructResult(st, fc, rv, key)
					}
				}
			}
			if !e.popFrame(st, false) {
				return
			}
			continue
		case *ssa.Panic:
			st.Note(in.Pos(), "explicit panic")
			t.unwinding = true
			continue
		case *ssa.RunDefers:
			t.running = true
			t.idx++
			continue
		case *ssa.Defer:
			n := 1
			if t.defers != nil {
				n = t.defers.n + 1
			}
			t.defers = &dnode{call: in, next: t.defers, n: n}
			t.idx++
			continue
		case *ssa.Go:
			callee, mc := e.StaticCallee(fc, &in.Call)
			if callee != nil && e.P.InScope(callee) && e.rule.Inline(callee) && len(callee.Blocks) > 0 {
				g := &State{Sigma: st.Sigma, pi: map[string]bool{}, trace: st.trace, Gor: true}
				for k, v := range st.pi {
					g.pi[k] = v
				}
				gfc := &FrameCtx{id: fc.id + ">go@" + in.Call.Value.Name(), fn: callee, parent: fc, args: in.Call.Args, closure: mc, depth: fc.depth + 1, site: in, isGo: true}
				g.stack = []ctl{{fc: gfc, blk: callee.Blocks[0]}}
				g.Note(in.Pos(), "goroutine %s starts", FuncDisplay(callee))
				e.Inlined[callee] = true
				e.rule.OnEnter(e, g, gfc)
				e.explore(g)
			}
			t.idx++
			continue
		case ssa.CallInstruction: // *ssa.Call
			if b, ok := in.Common().Value.(*ssa.Builtin); ok && b.Name() == "recover" {
				e.noteRecover(st)
			}
			callee, mc := e.StaticCallee(fc, in.Common())
			if callee != nil && e.P.InScope(callee) && len(callee.Blocks) > 0 && e.rule.Inline(callee) && !fc.onStack(callee) && !(e.StepOver && e.eventFree(callee)) {
				t.idx++ // continuation
				nfc := &FrameCtx{id: fc.id + ">" + in.(ssa.Value).Name(), fn: callee, parent: fc, args: callArgs(in.Common()), closure: mc, depth: fc.depth + 1, site: in}
				st.stack = append(st.stack, ctl{fc: nfc, blk: callee.Blocks[0]})
				e.Inlined[callee] = true
				e.rule.OnEnter(e, st, nfc)
				continue
			}
			if cb, mc := e.syncCallback(in.Common()); cb != nil && e.rule.Inline(cb) && !fc.onStack(cb) {
				// a standard-library higher-order function calls its function argument
				// synchronously, in the caller's context: not at all …
				alt := st.clone()
				alt.top().idx++
				e.explore(alt)
				// … or (at least) once
				t.idx++
				nfc := &FrameCtx{id: fc.id + ">hof@" + in.(ssa.Value).Name() + ":" + cb.Name(), fn: cb, parent: fc, closure: mc, depth: fc.depth + 1}
				st.stack = append(st.stack, ctl{fc: nfc, blk: cb.Blocks[0]})
				e.Inlined[cb] = true
				e.rule.OnEnter(e, st, nfc)
				continue
			}
			t.idx++
			continue
		default:
			t.idx++
			continue
		}
	}
}

// eventFree: fn contains nothing any rule observes — no dynamic call, interface invoke,
// go/defer/panic, store through a pointer, call into the analysed module or into sync /
// sync/atomic, and no closure. Exploring its branches only multiplies paths, so such a
// helper (a reflective predicate, a formatting function) is stepped over.
func (e *Engine) eventFree(fn *ssa.Function) bool {
	if v, ok := e.evFree[fn]; ok {
		return v
	}
	if e.evFree == nil {
		e.evFree = map[*ssa.Function]bool{}
	}
	free := len(fn.AnonFuncs) == 0 && fn.Parent() == nil
	for _, b := range fn.Blocks {
		if !free {
			break
		}
		for _, in := range b.Instrs {
			switch x := in.(type) {
			case *ssa.Go, *ssa.Defer, *ssa.Panic, *ssa.MapUpdate, *ssa.Send, *ssa.Select, *ssa.MakeClosure, *ssa.Lookup, *ssa.Range:
				free = false
			case *ssa.FieldAddr, *ssa.IndexAddr:
				// reading or writing memory that is not a local of this call is observable
				// (guarded fields, registration flags)
				var a ssa.Value = x.(ssa.Value)
				for {
					if ia, ok := a.(*ssa.IndexAddr); ok {
						a = ia.X
						continue
					}
					if fa, ok := a.(*ssa.FieldAddr); ok {
						a = fa.X
						continue
					}
					break
				}
				if _, local := a.(*ssa.Alloc); !local {
					free = false
				}
			case *ssa.Store:
				a := x.Addr
				for {
					if ia, ok := a.(*ssa.IndexAddr); ok {
						a = ia.X
						continue
					}
					if fa, ok := a.(*ssa.FieldAddr); ok {
						a = fa.X
						continue
					}
					break
				}
				if _, local := a.(*ssa.Alloc); !local {
					free = false
				}
			case *ssa.Call:
				c := x.Common()
				if c.IsInvoke() {
					// methods of reflect's own interfaces (reflect.Type) are not events
					if nt, ok := c.Value.Type().(*types.Named); !ok || nt.Obj().Pkg() == nil || nt.Obj().Pkg().Path() != "reflect" {
						free = false
					}
					break
				}
				if isDynamicCall(c) {
					free = false
					break
				}
				if sc := c.StaticCallee(); sc != nil {
					if e.P.InScope(sc) {
						free = false
					}
					// reflective invocation runs user code (a handler, a filter)
					if n := sc.String(); n == "(reflect.Value).Call" || n == "(reflect.Value).CallSlice" {
						free = false
					}
					switch PkgOf(sc) {
					case "sync", "sync/atomic", "context", "database/sql":
						free = false
					}
				}
			case *ssa.UnOp:
				if x.Op == token.ARROW {
					free = false
				}
			}
		}
	}
	e.evFree[fn] = free
	return free
}

// syncCallback: the call goes to a standard-library function known to invoke its function
// argument synchronously (slices.ContainsFunc, sort.Slice, (*sync.Once).Do, …) and that
// argument is a function of the analysed module; returns it (with its closure).
func (e *Engine) syncCallback(c *ssa.CallCommon) (*ssa.Function, *ssa.MakeClosure) {
	sc := c.StaticCallee()
	if sc == nil || e.P.InScope(sc) {
		return nil, nil
	}
	if _, isVal := c.Value.(*ssa.Function); !isVal {
		return nil, nil
	}
	switch PkgOf(sc) {
	case "slices", "sort", "maps", "strings", "bytes":
	case "sync":
		if !strings.HasSuffix(sc.Name(), "Do") {
			return nil, nil
		}
	default:
		return nil, nil
	}
	for _, a := range c.Args {
		switch x := stripConv(a).(type) {
		case *ssa.MakeClosure:
			if fn, ok := x.Fn.(*ssa.Function); ok && e.P.InScope(fn) && len(fn.Blocks) > 0 {
				return fn, x
			}
		case *ssa.Function:
			if e.P.InScope(x) && len(x.Blocks) > 0 {
				return x, nil
			}
		}
	}
	return nil, nil
}

// callArgs returns the values bound to the callee's parameters (receiver first for
// interface invokes resolved to a method).
func callArgs(c *ssa.CallCommon) []ssa.Value {
	if c.IsInvoke() {
		return append([]ssa.Value{c.Value}, c.Args...)
	}
	return c.Args
}

func minStr(a, b string) string {
	if a < b {
		return a
	}
	return b
}

func maxStr(a, b string) string {
	if a < b {
		return b
	}
	return a
}

func isBoolType(t types.Type) bool {
	b, ok := t.Underlying().(*types.Basic)
	return ok && b.Info()&types.IsBoolean != 0
}

func isBoolConst(k *ssa.Const) bool {
	b, ok := k.Type().Underlying().(*types.Basic)
	return ok && b.Info()&types.IsBoolean != 0
}

func isIdentChar(c byte) bool {
	return c == '_' || (c >= '0' && c <= '9') || (c >= 'a' && c <= 'z') || (c >= 'A' && c <= 'Z')
}

// foldCond decides conditions whose outcome is fixed by construction: nil tests of
// values that are never nil, comparisons of constants.
func (e *Engine) foldCond(fc *FrameCtx, cond ssa.Value) (bool, bool) {
	pol := true
	for {
		if u, ok := cond.(*ssa.UnOp); ok && u.Op == token.NOT {
			cond = u.X
			pol = !pol
			continue
		}
		break
	}
	// a constant handed down through explored frames decides the branch
	constOf := func(v ssa.Value) *ssa.Const {
		// parameters only (through the explored frames): a local cell with one store may
		// still hold its zero value when the branch is reached
		cfc := fc
		for i := 0; i < 12; i++ {
			v = stripConv(v)
			pr, ok := v.(*ssa.Parameter)
			if !ok {
				break
			}
			c := e.ctxOfOr(cfc, pr.Parent())
			if c == nil || c.args == nil || c.parent == nil || c.fn != pr.Parent() {
				break
			}
			idx := -1
			for j, q := range c.fn.Params {
				if q == pr {
					idx = j
				}
			}
			if idx < 0 || idx >= len(c.args) {
				break
			}
			v, cfc = c.args[idx], c.parent
		}
		if k, ok := v.(*ssa.Const); ok && k.Value != nil {
			return k
		}
		return nil
	}
	if _, isBin := cond.(*ssa.BinOp); !isBin {
		if k := constOf(cond); k != nil && isBoolConst(k) {
			return true, (k.Value.ExactString() == "true") == pol
		}
		return false, false
	}
	b, ok := cond.(*ssa.BinOp)
	if !ok || (b.Op != token.EQL && b.Op != token.NEQ) {
		return false, false
	}
	if kx, ky := constOf(b.X), constOf(b.Y); kx != nil && ky != nil {
		eq := constant.Compare(kx.Value, token.EQL, ky.Value)
		return true, (eq == (b.Op == token.EQL)) == pol
	}
	isNil := func(v ssa.Value) bool { c, ok := v.(*ssa.Const); return ok && c.Value == nil && !isBasic(c.Type()) }
	var other ssa.Value
	switch {
	case isNil(b.X):
		other = b.Y
	case isNil(b.Y):
		other = b.X
	default:
		return false, false
	}
	if e.neverNil(fc, other, 0) {
		// other == nil is false
		res := b.Op == token.NEQ
		return true, res == pol
	}
	return false, false
}

// foldRecover decides `recover() != nil`: it is true exactly when the deferred frame
// runs while the frame below it is being unwound by a panic.
func (e *Engine) foldRecover(st *State, cond ssa.Value) (bool, bool) {
	x, nonNilOnTrue, ok := nilTest(cond)
	if !ok {
		return false, false
	}
	call, ok := stripConv(x).(*ssa.Call)
	if !ok {
		return false, false
	}
	if b, ok := call.Common().Value.(*ssa.Builtin); !ok || b.Name() != "recover" {
		return false, false
	}
	panicking := st.top().recovHit
	return true, panicking == nonNilOnTrue
}

func isBasic(t types.Type) bool { _, ok := t.Underlying().(*types.Basic); return ok }

func (e *Engine) neverNil(fc *FrameCtx, v ssa.Value, depth int) bool {
	if depth > 10 {
		return false
	}
	if nonNilOrigin(v) {
		return true
	}
	switch v := v.(type) {
	case *ssa.ChangeType:
		return e.neverNil(fc, v.X, depth+1)
	case *ssa.ChangeInterface:
		return e.neverNil(fc, v.X, depth+1)
	case *ssa.Phi:
		for _, ed := range v.Edges {
			if ed != v && !e.neverNil(fc, ed, depth+1) {
				return false
			}
		}
		return len(v.Edges) > 0
	}
	return false
}

// popFrame removes the top frame after a return (or absorbed panic) and resumes the
// frame below. It returns false when exploration of this path is finished.
func (e *Engine) popFrame(st *State, recovered bool) bool {
	t := st.top()
	fc := t.fc
	if len(st.stack) > 1 || true {
		e.rule.OnLeave(e, st, fc, recovered)
	}
	st.stack = st.stack[:len(st.stack)-1]
	if len(st.stack) == 0 {
		if st.Gor {
			e.rule.OnExit(e, st, ExitGoroutine)
		} else {
			e.rule.OnExit(e, st, ExitReturn)
		}
		return false
	}
	return true
}

// runNextDefer advances a frame that is running its defers (normal exit or panic).
func (e *Engine) runNextDefer(st *State) bool {
	t := st.top()
	if t.defers == nil {
		if t.running {
			t.running = false
			return true // continue after RunDefers (idx already advanced)
		}
		// unwinding finished for this frame
		if t.recovered {
			st.Note(t.fc.fn.Pos(), "%s recovered, returns to its caller", FuncDisplay(t.fc.fn))
			return e.popFrame(st, true)
		}
		// propagate to caller
		e.rule.OnLeave(e, st, t.fc, false)
		st.stack = st.stack[:len(st.stack)-1]
		if len(st.stack) == 0 {
			if st.Gor {
				e.rule.OnExit(e, st, ExitGoroutinePanic)
			} else {
				e.rule.OnExit(e, st, ExitPanic)
			}
			return false
		}
		b := st.top()
		b.unwinding = true
		b.running = false
		return true
	}
	d := t.defers
	t.defers = d.next
	fc := t.fc
	st.ExecDefer = true
	mayPanic := e.rule.OnInstr(e, st, fc, d.call)
	st.ExecDefer = false
	if mayPanic && !t.unwinding {
		alt := st.clone()
		alt.Note(d.call.Pos(), "deferred call panics")
		at := alt.top()
		at.running = false
		at.unwinding = true
		e.explore(alt)
	}
	callee, mc := e.StaticCallee(fc, &d.call.Call)
	if callee != nil && e.P.InScope(callee) && len(callee.Blocks) > 0 && e.rule.Inline(callee) && !fc.onStack(callee) {
		nfc := &FrameCtx{id: fc.id + ">defer@" + fmt.Sprint(d.n) + ":" + callee.Name(), fn: callee, parent: fc, args: d.call.Call.Args, closure: mc, depth: fc.depth + 1, site: d.call}
		st.stack = append(st.stack, ctl{fc: nfc, blk: callee.Blocks[0], deferred: true})
		e.Inlined[callee] = true
		e.rule.OnEnter(e, st, nfc)
	}
	return true
}

// noteRecover is called when recover() executes: if it runs directly in a deferred
// frame while the frame below is unwinding and no earlier deferred call has already
// recovered, it returns non-nil and the panic is absorbed there.
func (e *Engine) noteRecover(st *State) {
	top := st.top()
	top.recovHit = false
	if len(st.stack) >= 2 {
		below := &st.stack[len(st.stack)-2]
		if top.deferred && below.unwinding && !below.recovered {
			below.recovered = true
			top.recovHit = true
		}
	}
}

// ---------------------------------------------------------------------------
// Structural helpers shared by rules.

// stripConv looks through value-preserving conversions.
func stripConv(v ssa.Value) ssa.Value {
	for {
		switch x := v.(type) {
		case *ssa.ChangeType:
			v = x.X
		case *ssa.ChangeInterface:
			v = x.X
		case *ssa.MakeInterface:
			v = x.X
		case *ssa.Convert:
			v = x.X
		default:
			return v
		}
	}
}

// fieldOfAddr: if addr is &X.f returns (struct type name, field name, X).
func fieldOfAddr(addr ssa.Value) (string, string, ssa.Value, bool) {
	if fa, ok := addr.(*ssa.FieldAddr); ok {
		return typeName(fa.X.Type()), fieldName(fa.X.Type(), fa.Field), fa.X, true
	}
	return "", "", nil, false
}

// fieldLoad: if v is a load of X.f (through conversions) returns (type, field, X).
func fieldLoad(v ssa.Value) (string, string, ssa.Value, bool) {
	v = stripConv(v)
	switch x := v.(type) {
	case *ssa.UnOp:
		if x.Op == token.MUL {
			return fieldOfAddr(x.X)
		}
	case *ssa.Field:
		return typeName(x.X.Type()), fieldName(x.X.Type(), x.Field), x.X, true
	}
	return "", "", nil, false
}

// calleeName returns a printable name for a call's target: static callees by full
// name (generic instances by origin), interface invokes as "invoke:Type.Method",
// builtins as "builtin:name", anything else "".
func calleeName(c *ssa.CallCommon) string {
	if c.IsInvoke() {
		return "invoke:" + typeName(c.Value.Type()) + "." + c.Method.Name()
	}
	if sc := c.StaticCallee(); sc != nil {
		if o := sc.Origin(); o != nil {
			return o.String()
		}
		return sc.String()
	}
	if b, ok := c.Value.(*ssa.Builtin); ok {
		return "builtin:" + b.Name()
	}
	return ""
}
