package main

// Anchor resolution (DESIGN.md §3.0): exported API by name, private constructs by
// role — discovered from the exported API through types and value flow — with a
// short table of private fallback names consulted only when discovery finds nothing.

import (
	"go/token"
	"go/types"
	"strings"

	"golang.org/x/tools/go/ssa"
)

// BusRoles are the role-named constructs of package ebu.
type BusRoles struct {
	P *Prog

	BusT   *types.Named // EventBus
	ShardT *types.Named // struct{ RWMutex; map[reflect.Type][]*Reg }
	RegT   *types.Named // registration struct ("internalHandler")
	UpRegT *types.Named // upcast registry struct

	// field names (actual names in the source) by role
	ShardMu, ShardMap                              string
	RegMu, RegClaim, RegHandler, RegHandlerType    string
	RegOnce, RegAsync, RegSeq, RegFilter           string
	BusShards, BusWG, BusStore, BusSubStore        string
	BusLastOffset, BusStoreMu, BusObs, BusPanicH   string
	BusPersistErrH, BusTimeout, BusBatch           string
	BusBefore, BusAfter, BusBeforeCtx, BusAfterCtx string
	BusUpReg                                       string
	UpMap, UpMu, UpErrH                            string

	ShardFn    *ssa.Function // (*EventBus).getShard
	DispatchFn *ssa.Function // callHandlerWithContext (generic body)
	LoopFn     *ssa.Function // the function holding the dispatch loop (PublishContext or a helper it calls)
	PersistFn  *ssa.Function // (*EventBus).persistEvent
	PublishFn  *ssa.Function // PublishContext (generic body)
	NameFn     *ssa.Function // EventType
	RegisterFn *ssa.Function // (*upcastRegistry).register
	ApplyFn    *ssa.Function // (*upcastRegistry).apply

	// FilterHelpers: functions of the package that are handed a registration's filter and
	// answer with a bool (the reflective filter fallback): one event for the automata
	FilterHelpers map[*ssa.Function]bool

	Missing []string
}

func structOf(t types.Type) *types.Struct {
	if t == nil {
		return nil
	}
	if p, ok := t.Underlying().(*types.Pointer); ok {
		t = p.Elem()
	}
	s, _ := t.Underlying().(*types.Struct)
	return s
}

func isNamed(t types.Type, pkg, name string) bool {
	if a, ok := t.(*types.Alias); ok {
		t = types.Unalias(a)
	}
	n, ok := t.(*types.Named)
	if !ok {
		return false
	}
	o := n.Obj()
	if o.Name() != name {
		return false
	}
	if o.Pkg() == nil {
		return pkg == ""
	}
	return o.Pkg().Path() == pkg
}

func fieldsWhere(s *types.Struct, pred func(*types.Var) bool) []string {
	var out []string
	if s == nil {
		return nil
	}
	for i := 0; i < s.NumFields(); i++ {
		if pred(s.Field(i)) {
			out = append(out, s.Field(i).Name())
		}
	}
	return out
}

func hasField(s *types.Struct, name string) bool {
	if s == nil {
		return false
	}
	for i := 0; i < s.NumFields(); i++ {
		if s.Field(i).Name() == name {
			return true
		}
	}
	return false
}

// fieldWrittenBy returns the fields of struct type tn stored to inside fn or its
// anonymous functions.
func fieldsWrittenBy(fn *ssa.Function, tn string) []string {
	var out []string
	var walk func(f *ssa.Function)
	walk = func(f *ssa.Function) {
		if f == nil {
			return
		}
		for _, b := range f.Blocks {
			for _, in := range b.Instrs {
				if s, ok := in.(*ssa.Store); ok {
					if t, fld, _, ok := fieldOfAddr(s.Addr); ok && t == tn {
						out = append(out, fld)
					}
				}
			}
		}
		for _, a := range f.AnonFuncs {
			walk(a)
		}
	}
	walk(fn)
	return out
}

func one(xs []string) string {
	if len(xs) == 1 {
		return xs[0]
	}
	return ""
}

// DiscoverBus resolves the roles of package ebu in p.
func DiscoverBus(p *Prog) *BusRoles {
	r := &BusRoles{P: p}
	sp := p.SPkgs[PkgBus]
	if sp == nil {
		r.Missing = append(r.Missing, "package "+PkgBus)
		return r
	}
	need := func(ok bool, what string) {
		if !ok {
			r.Missing = append(r.Missing, what)
		}
	}
	pick := func(found string, fallback string, s *types.Struct) string {
		if found != "" {
			return found
		}
		if hasField(s, fallback) {
			return fallback
		}
		return ""
	}
	if t := sp.Type("EventBus"); t != nil {
		r.BusT, _ = t.Type().(*types.Named)
	}
	need(r.BusT != nil, "type EventBus")
	if r.BusT == nil {
		return r
	}
	// shard type: struct with an RWMutex and a map[reflect.Type][]*Reg
	for _, m := range sp.Members {
		tm, ok := m.(*ssa.Type)
		if !ok {
			continue
		}
		st := structOf(tm.Type())
		if st == nil {
			continue
		}
		var mu, mp string
		var reg *types.Named
		for i := 0; i < st.NumFields(); i++ {
			f := st.Field(i)
			if isNamed(f.Type(), "sync", "RWMutex") {
				mu = f.Name()
			}
			if mt, ok := f.Type().Underlying().(*types.Map); ok && isNamed(mt.Key(), "reflect", "Type") {
				if sl, ok := mt.Elem().Underlying().(*types.Slice); ok {
					if pt, ok := sl.Elem().(*types.Pointer); ok {
						if n, ok := pt.Elem().(*types.Named); ok {
							mp, reg = f.Name(), n
						}
					}
				}
			}
		}
		if mu != "" && mp != "" {
			r.ShardT, _ = tm.Type().(*types.Named)
			r.ShardMu, r.ShardMap, r.RegT = mu, mp, reg
		}
	}
	need(r.ShardT != nil, "role shard type (struct with sync.RWMutex and map[reflect.Type][]*registration)")
	bs := structOf(r.BusT)
	byType := func(pkg, name string) string {
		return one(fieldsWhere(bs, func(v *types.Var) bool { return isNamed(v.Type(), pkg, name) }))
	}
	r.BusWG = pick(byType("sync", "WaitGroup"), "wg", bs)
	r.BusStore = pick(byType(PkgBus, "EventStore"), "store", bs)
	r.BusSubStore = pick(byType(PkgBus, "SubscriptionStore"), "subscriptionStore", bs)
	r.BusLastOffset = pick(byType(PkgBus, "Offset"), "lastOffset", bs)
	r.BusStoreMu = pick(byType("sync", "RWMutex"), "storeMu", bs)
	r.BusObs = pick(byType(PkgBus, "Observability"), "observability", bs)
	r.BusPanicH = pick(byType(PkgBus, "PanicHandler"), "panicHandler", bs)
	r.BusPersistErrH = pick(byType(PkgBus, "PersistenceErrorHandler"), "persistenceErrorHandler", bs)
	r.BusTimeout = pick(byType("time", "Duration"), "persistenceTimeout", bs)
	r.BusShards = pick(one(fieldsWhere(bs, func(v *types.Var) bool {
		a, ok := v.Type().Underlying().(*types.Array)
		if !ok {
			return false
		}
		pt, ok := a.Elem().(*types.Pointer)
		return ok && r.ShardT != nil && types.Identical(pt.Elem(), r.ShardT)
	})), "shards", bs)
	optField := func(opt, fallback string) string {
		f := sp.Func(opt)
		var got []string
		seen := map[string]bool{}
		for _, x := range fieldsWrittenBy(f, "EventBus") {
			if !seen[x] {
				seen[x] = true
				got = append(got, x)
			}
		}
		return pick(one(got), fallback, bs)
	}
	r.BusBefore = optField("WithBeforePublish", "beforePublish")
	r.BusAfter = optField("WithAfterPublish", "afterPublish")
	r.BusBeforeCtx = optField("WithBeforePublishContext", "beforePublishCtx")
	r.BusAfterCtx = optField("WithAfterPublishContext", "afterPublishCtx")
	r.BusBatch = optField("WithReplayBatchSize", "replayBatchSize")
	for name, v := range map[string]string{"wait group": r.BusWG, "store": r.BusStore, "lastOffset": r.BusLastOffset, "store lock": r.BusStoreMu,
		"observability": r.BusObs, "panic handler": r.BusPanicH, "persistence error handler": r.BusPersistErrH, "shards": r.BusShards,
		"before hook": r.BusBefore, "after hook": r.BusAfter, "before ctx hook": r.BusBeforeCtx, "after ctx hook": r.BusAfterCtx} {
		need(v != "", "EventBus field with role "+name)
	}
	// upcast registry
	for i := 0; i < bs.NumFields(); i++ {
		f := bs.Field(i)
		if pt, ok := f.Type().(*types.Pointer); ok {
			if n, ok := pt.Elem().(*types.Named); ok {
				if st := structOf(n); st != nil {
					for j := 0; j < st.NumFields(); j++ {
						if mt, ok := st.Field(j).Type().Underlying().(*types.Map); ok {
							if sl, ok := mt.Elem().Underlying().(*types.Slice); ok && isNamed(sl.Elem(), PkgBus, "Upcaster") {
								r.BusUpReg, r.UpRegT, r.UpMap = f.Name(), n, st.Field(j).Name()
							}
						}
					}
				}
			}
		}
	}
	need(r.UpRegT != nil, "role upcast registry (struct with map[string][]Upcaster)")
	if us := structOf(r.UpRegT); us != nil {
		r.UpMu = pick(one(fieldsWhere(us, func(v *types.Var) bool { return isNamed(v.Type(), "sync", "RWMutex") })), "mu", us)
		r.UpErrH = pick(one(fieldsWhere(us, func(v *types.Var) bool { return isNamed(v.Type(), PkgBus, "UpcastErrorHandler") })), "errorHandler", us)
	}
	// registration struct fields
	if r.RegT != nil {
		rs := structOf(r.RegT)
		rn := r.RegT.Obj().Name()
		r.RegMu = pick(one(fieldsWhere(rs, func(v *types.Var) bool { return isNamed(v.Type(), "sync", "Mutex") })), "mu", rs)
		subOpt := func(opt, fallback string) string {
			return pick(one(uniq(fieldsWrittenBy(sp.Func(opt), rn))), fallback, rs)
		}
		r.RegOnce = subOpt("Once", "once")
		r.RegAsync = subOpt("Async", "async")
		r.RegSeq = subOpt("Sequential", "sequential")
		r.RegFilter = subOpt("WithFilter", "filter")
		// claim word: the field passed to sync/atomic functions
		claims := map[string]bool{}
		for _, f := range p.FuncsIn(PkgBus) {
			for _, b := range f.Blocks {
				for _, in := range b.Instrs {
					if ci, ok := in.(ssa.CallInstruction); ok {
						if sc := ci.Common().StaticCallee(); sc != nil && sc.Pkg != nil && sc.Pkg.Pkg.Path() == "sync/atomic" && len(ci.Common().Args) > 0 {
							if t, fld, _, ok := fieldOfAddr(ci.Common().Args[0]); ok && t == rn {
								claims[fld] = true
							}
						}
					}
				}
			}
		}
		var cl []string
		for k := range claims {
			cl = append(cl, k)
		}
		r.RegClaim = pick(one(cl), "executed", rs)
		// handler / handlerType: fields filled in Subscribe from the handler parameter
		if sub := sp.Func("Subscribe"); sub != nil {
			for _, b := range sub.Blocks {
				for _, in := range b.Instrs {
					if s, ok := in.(*ssa.Store); ok {
						if t, fld, _, ok := fieldOfAddr(s.Addr); ok && t == rn {
							v := s.Val
							if mi, ok := v.(*ssa.MakeInterface); ok {
								if base := stripConv(mi.X); isParamNamed(base, "handler") {
									r.RegHandler = fld
								}
							}
							if c, ok := v.(*ssa.Call); ok && calleeName(c.Common()) == "reflect.TypeOf" && len(c.Common().Args) == 1 {
								if isParamNamed(stripConv(c.Common().Args[0]), "handler") {
									r.RegHandlerType = fld
								}
							}
						}
					}
				}
			}
		}
		r.RegHandler = pick(r.RegHandler, "handler", rs)
		r.RegHandlerType = pick(r.RegHandlerType, "handlerType", rs)
		for name, v := range map[string]string{"sequential lock": r.RegMu, "once flag": r.RegOnce, "async flag": r.RegAsync, "sequential flag": r.RegSeq,
			"filter": r.RegFilter, "claim word": r.RegClaim, "handler": r.RegHandler, "handler type": r.RegHandlerType} {
			need(v != "", "registration field with role "+name)
		}
	}
	// functions
	r.PublishFn = sp.Func("PublishContext")
	r.NameFn = sp.Func("EventType")
	need(r.PublishFn != nil, "func PublishContext")
	need(r.NameFn != nil, "func EventType")
	var invoker *ssa.Function
	// persist function: the method of *EventBus whose body (or a closure of it)
	// invokes EventStore.Append
	for _, f := range p.FuncsIn(PkgBus) {
		for _, b := range f.Blocks {
			for _, in := range b.Instrs {
				if ci, ok := in.(ssa.CallInstruction); ok {
					c := ci.Common()
					if c.IsInvoke() && c.Method.Name() == "Append" && isNamed(c.Value.Type(), PkgBus, "EventStore") {
						if o := outermost(f); recvTypeName(o) == "EventBus" {
							r.PersistFn = o
						}
					}
				}
			}
		}
	}
	for _, f := range p.FuncsIn(PkgBus) {
		if f.Parent() != nil {
			continue
		}
		// shard function: method on *EventBus returning *shard
		if f.Signature.Recv() != nil && recvTypeName(f) == "EventBus" && f.Signature.Results().Len() == 1 && r.ShardT != nil {
			if pt, ok := f.Signature.Results().At(0).Type().(*types.Pointer); ok && types.Identical(pt.Elem(), r.ShardT) {
				r.ShardFn = f
			}
		}
		for _, b := range f.Blocks {
			for _, in := range b.Instrs {
				switch in := in.(type) {
				case *ssa.TypeAssert:
					// invoker: type-switches on the handler field
					if t, fld, _, ok := fieldLoad(in.X); ok && r.RegT != nil && t == r.RegT.Obj().Name() && fld == r.RegHandler {
						if _, isFn := in.AssertedType.Underlying().(*types.Signature); isFn {
							invoker = f
						}
					}
				case ssa.CallInstruction:
					c := in.Common()
					if c.IsInvoke() && c.Method.Name() == "Append" && isNamed(c.Value.Type(), PkgBus, "EventStore") && recvTypeName(f) == "EventBus" {
						r.PersistFn = f
					}
				}
			}
		}
	}
	// dispatch function: the function called from PublishContext (or its closures)
	// whose static call tree contains the invoker; this is the frame that owns the
	// recover scope, the sequential lock and the observability pairing.
	if invoker != nil && r.PublishFn != nil {
		reach := map[*ssa.Function]bool{}
		var reaches func(f *ssa.Function, d int) bool
		reaches = func(f *ssa.Function, d int) bool {
			if f == invoker {
				return true
			}
			if d > 6 || f == nil {
				return false
			}
			if v, ok := reach[f]; ok {
				return v
			}
			reach[f] = false
			res := false
			var walk func(g *ssa.Function)
			walk = func(g *ssa.Function) {
				for _, b := range g.Blocks {
					for _, in := range b.Instrs {
						if ci, ok := in.(ssa.CallInstruction); ok {
							if sc := ci.Common().StaticCallee(); sc != nil {
								if o := sc.Origin(); o != nil {
									sc = o
								}
								if PkgOf(sc) == PkgBus && sc != f && reaches(sc, d+1) {
									res = true
								}
							}
						}
					}
				}
				for _, a := range g.AnonFuncs {
					walk(a)
				}
			}
			walk(f)
			reach[f] = res
			return res
		}
		// The dispatch function is the one called from inside the dispatch loop; the loop
		// sits in PublishContext or in a helper PublishContext hands the snapshot to.
		// find(g): look at g's calls that lead to the invoker; a call made inside a loop of g
		// (directly, or in a closure/goroutine created inside the loop) is the dispatch call
		// and g holds the loop; otherwise descend into the callee.
		var find func(g *ssa.Function, d int) bool
		find = func(g *ssa.Function, d int) bool {
			if d > 4 {
				return false
			}
			li := loopsOf(g)
			var descend []*ssa.Function
			found := false
			var look func(h *ssa.Function, inLoopByParent bool)
			look = func(h *ssa.Function, inLoopByParent bool) {
				for _, b := range h.Blocks {
					for _, in := range b.Instrs {
						inLoop := inLoopByParent || (h == g && li.headerOf[b] != nil)
						if mc, ok := in.(*ssa.MakeClosure); ok {
							look(mc.Fn.(*ssa.Function), inLoop)
							continue
						}
						ci, ok := in.(ssa.CallInstruction)
						if !ok {
							continue
						}
						sc := ci.Common().StaticCallee()
						if sc == nil {
							continue
						}
						if o := sc.Origin(); o != nil {
							sc = o
						}
						if PkgOf(sc) != PkgBus || sc.Parent() != nil || !reaches(sc, 0) {
							continue
						}
						if inLoop {
							r.DispatchFn, r.LoopFn = sc, g
							found = true
						} else {
							descend = append(descend, sc)
						}
					}
				}
			}
			look(g, false)
			if found {
				return true
			}
			for _, sc := range descend {
				if find(sc, d+1) {
					return true
				}
			}
			return false
		}
		find(r.PublishFn, 0)
		if r.DispatchFn == nil {
			r.DispatchFn = invoker
		}
		if r.LoopFn == nil {
			r.LoopFn = r.PublishFn
		}
	}
	// persist function, by role: the function PublishContext calls whose static call tree
	// (in the package) contains the EventStore.Append invocation — so extracting the
	// append into a helper does not move the role
	if r.PublishFn != nil {
		hasAppend := func(g *ssa.Function) bool {
			for _, b := range g.Blocks {
				for _, in := range b.Instrs {
					if ci, ok := in.(ssa.CallInstruction); ok {
						c := ci.Common()
						if c.IsInvoke() && c.Method.Name() == "Append" && isNamed(c.Value.Type(), PkgBus, "EventStore") {
							return true
						}
					}
				}
			}
			return false
		}
		for _, b := range r.PublishFn.Blocks {
			for _, in := range b.Instrs {
				ci, ok := in.(ssa.CallInstruction)
				if !ok {
					continue
				}
				sc := ci.Common().StaticCallee()
				if sc == nil {
					continue
				}
				if o := sc.Origin(); o != nil {
					sc = o
				}
				if PkgOf(sc) != PkgBus || sc.Parent() != nil {
					continue
				}
				tree := reachFuncs(p, sc, PkgBus)
				for _, g := range tree {
					if hasAppend(g) {
						r.PersistFn = sc
					}
				}
				// a pipeline stage that merely calls the persist function is not it: descend to
				// the deepest function whose call tree still contains the append, the
				// marshalling of the record and the persistence error handler
				if r.PersistFn == sc {
					has := func(root *ssa.Function) (app, marsh, errh bool) {
						for _, g := range reachFuncs(p, root, PkgBus) {
							if hasAppend(g) {
								app = true
							}
							for _, b := range g.Blocks {
								for _, in := range b.Instrs {
									if call, ok := in.(*ssa.Call); ok && calleeName(call.Common()) == "encoding/json.Marshal" {
										marsh = true
									}
									if ld, ok := in.(*ssa.UnOp); ok {
										if tn, fld, _, ok := fieldLoad(ld); ok && tn == "EventBus" && fld == r.BusPersistErrH {
											errh = true
										}
									}
								}
							}
						}
						return
					}
					for changed := true; changed; {
						changed = false
						for _, b := range r.PersistFn.Blocks {
							for _, in := range b.Instrs {
								ci, ok := in.(ssa.CallInstruction)
								if !ok {
									continue
								}
								c2 := ci.Common().StaticCallee()
								if c2 == nil {
									continue
								}
								if o := c2.Origin(); o != nil {
									c2 = o
								}
								if PkgOf(c2) != PkgBus || c2.Parent() != nil || c2 == r.PersistFn {
									continue
								}
								if a, m, h := has(c2); a && m && h {
									r.PersistFn = c2
									changed = true
								}
							}
						}
					}
				}
			}
		}
	}
	if r.UpRegT != nil {
		un := r.UpRegT.Obj().Name()
		for _, f := range p.FuncsIn(PkgBus) {
			if f.Parent() != nil || recvTypeName(f) != un {
				continue
			}
			sig := f.Signature
			// register: (string, string, UpcastFunc) error ; apply: (RawMessage, string) (RawMessage, string, error)
			if sig.Params().Len() == 3 && sig.Results().Len() == 1 && isNamed(sig.Params().At(2).Type(), PkgBus, "UpcastFunc") {
				r.RegisterFn = f
			}
			if sig.Params().Len() == 2 && sig.Results().Len() == 3 {
				r.ApplyFn = f
			}
		}
	}
	r.FilterHelpers = map[*ssa.Function]bool{}
	if r.RegT != nil && r.RegFilter != "" {
		for _, f := range p.FuncsIn(PkgBus) {
			for _, b := range f.Blocks {
				for _, in := range b.Instrs {
					call, ok := in.(*ssa.Call)
					if !ok {
						continue
					}
					sc := call.Common().StaticCallee()
					if sc == nil || PkgOf(sc) != PkgBus {
						continue
					}
					if rs := sc.Signature.Results(); rs.Len() != 1 || !isBasicKind(rs.At(0).Type(), types.Bool) {
						continue
					}
					for _, a := range call.Common().Args {
						if tn, fld, _, ok := fieldLoad(a); ok && tn == r.RegT.Obj().Name() && fld == r.RegFilter {
							if o := sc.Origin(); o != nil {
								sc = o
							}
							r.FilterHelpers[sc] = true
						}
					}
				}
			}
		}
	}
	// … and helpers that are handed the registration itself and evaluate its filter
	// (passesFilter(h, event) bool)
	if r.RegT != nil && r.RegFilter != "" {
		for _, f := range p.FuncsIn(PkgBus) {
			if f.Parent() != nil || f == r.PublishFn {
				continue
			}
			if rs := f.Signature.Results(); rs.Len() != 1 || !isBasicKind(rs.At(0).Type(), types.Bool) {
				continue
			}
			var regParam *ssa.Parameter
			for _, prm := range f.Params {
				if pt, ok := prm.Type().Underlying().(*types.Pointer); ok && types.Identical(pt.Elem(), r.RegT) {
					regParam = prm
				}
			}
			if regParam == nil {
				continue
			}
			callsFilter := false
			for _, b := range f.Blocks {
				for _, in := range b.Instrs {
					call, ok := in.(*ssa.Call)
					if !ok {
						continue
					}
					v := call.Common().Value
					if x, ok := throughAssert(v); ok {
						v = x
					}
					if isDynamicCall(call.Common()) {
						if tn, fld, base, ok := fieldLoad(v); ok && tn == r.RegT.Obj().Name() && fld == r.RegFilter && stripConv(base) == ssa.Value(regParam) {
							callsFilter = true
						}
					}
					// or hands the filter to the reflective fallback
					if sc := call.Common().StaticCallee(); sc != nil && r.FilterHelpers[sc] {
						callsFilter = true
					}
				}
			}
			if callsFilter {
				r.FilterHelpers[f] = true
			}
		}
	}
	need(r.ShardFn != nil, "role shard function (method of *EventBus returning *shard)")
	need(r.DispatchFn != nil, "role dispatch function (type-switches on the handler field)")
	need(r.PersistFn != nil, "role persist function (method of *EventBus invoking EventStore.Append)")
	need(r.RegisterFn != nil, "role upcast register function")
	need(r.ApplyFn != nil, "role upcast apply function")
	return r
}

func uniq(xs []string) []string {
	seen := map[string]bool{}
	var out []string
	for _, x := range xs {
		if !seen[x] {
			seen[x] = true
			out = append(out, x)
		}
	}
	return out
}

func isParamNamed(v ssa.Value, name string) bool {
	p, ok := v.(*ssa.Parameter)
	return ok && p.Name() == name
}

// RegName is the name of the registration struct type.
func (r *BusRoles) RegName() string {
	if r.RegT == nil {
		return ""
	}
	return r.RegT.Obj().Name()
}

// IsRegField reports whether (tn, fld) is the given registration field.
func (r *BusRoles) IsRegField(tn, fld, role string) bool {
	return r.RegT != nil && tn == r.RegName() && fld == role && role != ""
}

// IsBusField reports whether (tn, fld) is the given EventBus field.
func (r *BusRoles) IsBusField(tn, fld, role string) bool {
	return tn == "EventBus" && fld == role && role != ""
}

// Unresolved reports missing anchors into c under the given rule.
func (r *BusRoles) Report(c *Ctx, rule string) bool {
	for _, m := range r.Missing {
		c.Unresolved(rule, "UNRESOLVED-ANCHOR/"+m, "anchor not found: "+m)
	}
	return len(r.Missing) == 0
}

// ---------------------------------------------------------------------------
// Generic instruction classifiers used by several rules.

// atomicOp: a call into sync/atomic (function or method); returns the op name and the
// address operand.
func atomicOp(in ssa.Instruction) (string, ssa.Value, bool) {
	ci, ok := in.(ssa.CallInstruction)
	if !ok {
		return "", nil, false
	}
	sc := ci.Common().StaticCallee()
	if sc == nil || len(ci.Common().Args) == 0 {
		return "", nil, false
	}
	pkg := ""
	if sc.Pkg != nil {
		pkg = sc.Pkg.Pkg.Path()
	} else if sc.Object() != nil && sc.Object().Pkg() != nil {
		pkg = sc.Object().Pkg().Path()
	}
	if pkg != "sync/atomic" {
		return "", nil, false
	}
	return sc.Name(), ci.Common().Args[0], true
}

// mutexOp classifies calls of sync.Mutex / sync.RWMutex methods.
// kind: "Lock","Unlock","RLock","RUnlock","TryLock","TryRLock"
func mutexOp(c *ssa.CallCommon) (kind string, mu ssa.Value, ok bool) {
	sc := c.StaticCallee()
	if sc == nil || len(c.Args) == 0 {
		return "", nil, false
	}
	switch sc.String() {
	case "(*sync.RWMutex).Lock", "(*sync.Mutex).Lock":
		return "Lock", c.Args[0], true
	case "(*sync.RWMutex).Unlock", "(*sync.Mutex).Unlock":
		return "Unlock", c.Args[0], true
	case "(*sync.RWMutex).RLock":
		return "RLock", c.Args[0], true
	case "(*sync.RWMutex).RUnlock":
		return "RUnlock", c.Args[0], true
	case "(*sync.RWMutex).TryLock", "(*sync.Mutex).TryLock":
		return "TryLock", c.Args[0], true
	case "(*sync.RWMutex).TryRLock":
		return "TryRLock", c.Args[0], true
	}
	return "", nil, false
}

// wgOp classifies calls of sync.WaitGroup methods ("Add","Done","Wait","Go").
func wgOp(c *ssa.CallCommon) (kind string, wg ssa.Value, ok bool) {
	sc := c.StaticCallee()
	if sc == nil || len(c.Args) == 0 {
		return "", nil, false
	}
	s := sc.String()
	if strings.HasPrefix(s, "(*sync.WaitGroup).") {
		return strings.TrimPrefix(s, "(*sync.WaitGroup)."), c.Args[0], true
	}
	return "", nil, false
}

// ctxDonePoll: in is a `select` whose cases include a receive from <ctx>.Done();
// returns the Select, the index of that case and the context value.
func ctxDoneSelect(in ssa.Instruction) (*ssa.Select, int, ssa.Value, bool) {
	sel, ok := in.(*ssa.Select)
	if !ok {
		return nil, 0, nil, false
	}
	for i, st := range sel.States {
		if st.Dir != types.RecvOnly {
			continue
		}
		if c, ok := st.Chan.(*ssa.Call); ok && c.Common().IsInvoke() && c.Common().Method.Name() == "Done" && isNamed(c.Common().Value.Type(), "context", "Context") {
			return sel, i, c.Common().Value, true
		}
	}
	return nil, 0, nil, false
}

// selectArm: if cond is `extract(select)#0 == k` returns the select and k.
func selectArm(cond ssa.Value) (*ssa.Select, int, bool) {
	b, ok := cond.(*ssa.BinOp)
	if !ok || b.Op != token.EQL {
		return nil, 0, false
	}
	ex, ok := b.X.(*ssa.Extract)
	if !ok || ex.Index != 0 {
		return nil, 0, false
	}
	sel, ok := ex.Tuple.(*ssa.Select)
	if !ok {
		return nil, 0, false
	}
	k, ok := b.Y.(*ssa.Const)
	if !ok {
		return nil, 0, false
	}
	return sel, int(k.Int64()), true
}

// isDynamicCall reports a call through a function value (not static, not builtin,
// not an interface invoke).
func isDynamicCall(c *ssa.CallCommon) bool {
	if c.IsInvoke() || c.StaticCallee() != nil {
		return false
	}
	if _, ok := c.Value.(*ssa.Builtin); ok {
		return false
	}
	return true
}
