package main

import "strings"

// deliveryRuleOf maps a construct reported by the delivery automaton to its rule id.
func deliveryRuleOf(construct string) string {
	has := func(s string) bool { return strings.Contains(construct, s) }
	switch {
	case has("panic-escapes"), has("outside-dispatch-fn"):
		return "C05.R1"
	case has("/context-gate"):
		return "C08.R1"
	case has("claim/after-filter"), has("claim/after-context-gate"), has("filter-before-claim"):
		return "C04.R3"
	case has("claim-wasted"), has("invokes-handler"):
		return "C04.R2"
	case has("claim-not-retired"), has("retirement-region"):
		return "C04.R4"
	case has("/once-test"), has("/claim"), has("claim/"):
		return "C04.R1"
	case has("async-goroutine/silent-skip"):
		return "C06.R0"
	default:
		return "C01.R4"
	}
}

func busRoles(c *Ctx, rule string) (*Prog, *BusRoles) {
	p := c.Prog(ModRoot)
	if p == nil {
		return nil, nil
	}
	R := DiscoverBus(p)
	if !R.Report(c, rule) {
		return p, nil
	}
	return p, R
}

func init() {
	register("C04", &PropDef{
		Explain: "Structural necessary conditions of 'a Once handler fires at most once, and exactly once when eligible', decided for all paths of PublishContext, its async goroutine and the dispatch function by exploring the product of a delivery automaton with the inlined SSA control-flow graph: (R1) every dispatch of a once registration is control-dependent on the success edge of an atomic compare-and-swap 0→1 on that registration's claim word, which has no other writer and is never reset after a dispatch; (R2) from the success edge every path to the end of the delivery (iteration end / goroutine exit) dispatches and invokes the handler; (R3) filter verdict and a live poll of the publish context precede the claim, so a rejected or cancelled publish cannot use the handler up; (R4) every won claim is queued for removal and the removal region runs before return. Not decided: 'exactly once when eligible' across concurrent publishers beyond R1∧R2.",
		Run: func(c *Ctx) {
			c.Rule("C04.R1", "dispatch of a once registration only on the success edge of CAS(&claim,0,1); claim word atomic-only, never reset after dispatch")
			c.Rule("C04.R2", "a won claim is never wasted: every path from the CAS success edge dispatches and invokes")
			c.Rule("C04.R3", "filter verdict and live context poll precede the claim")
			c.Rule("C04.R4", "every won claim is queued for retirement; the retirement region runs before PublishContext returns")
			p, R := busRoles(c, "C04.R1")
			if R == nil {
				return
			}
			runDelivery(c, p, R, deliveryRuleOf, map[string]bool{"C04.R1": true, "C04.R2": true, "C04.R3": true, "C04.R4": true})
			claimWordDiscipline(c, p, R, "C04.R1")
			c.Floor("C04.R1", "claim sites", c.Stats["claim_sites"], 1)
			c.Floor("C04.R2", "handler invocation sites", c.Stats["handler_invocation_sites"], 7)
			c.Assume = append(c.Assume, "sync/atomic CompareAndSwap semantics; each Subscribe call allocates a fresh registration (checked under C01.R5)", "Subscribe's typing guarantees the reflective fallback only sees func kinds with 1 or 2 inputs")
		},
	})
}
