package main

import (
	"strings"

	"golang.org/x/tools/go/ssa"
)

// deliveryRuleOf maps a construct reported by the delivery automaton to its rule id.
func deliveryRuleOf(construct string) string {
	has := func(s string) bool { return strings.Contains(construct, s) }
	switch {
	case has("panic-escapes"), has("outside-dispatch-fn"):
		return "C05.R1"
	case has("/context-gate"):
		return "C08.R1"
	case has("claim/after-filter"), has("claim/after-context-gate"), has("filter-before-claim"):
		return "C04.R3"
	case has("claim-wasted"), has("invokes-handler"), has("released-after-queued"):
		return "C04.R2"
	case has("claim-not-retired"), has("retirement-region"):
		return "C04.R4"
	case has("/once-test"), has("/claim"), has("claim/"):
		return "C04.R1"
	case has("async-goroutine/silent-skip"):
		return "C06.R0"
	default:
		return "C01.R4"
	}
}

func busRoles(c *Ctx, rule string) (*Prog, *BusRoles) {
	p := c.Prog(ModRoot)
	if p == nil {
		return nil, nil
	}
	R := DiscoverBus(p)
	if !R.Report(c, rule) {
		return p, nil
	}
	return p, R
}

func init() {
	register("C04", &PropDef{
		Explain: "Structural necessary conditions of 'a Once handler fires at most once, and exactly once when eligible', decided for all paths of PublishContext, its async goroutine and the dispatch function by exploring the product of a delivery automaton with the inlined SSA control-flow graph: (R1) every dispatch of a once registration is control-dependent on the success edge of an atomic compare-and-swap 0→1 on that registration's claim word, which has no other writer and is never reset after a dispatch; (R2) from the success edge every path to the end of the delivery (iteration end / goroutine exit) dispatches and invokes the handler; (R3) filter verdict and a live poll of the publish context precede the claim, so a rejected or cancelled publish cannot use the handler up; (R4) every won claim is queued for removal and the removal region runs before return. Not decided: 'exactly once when eligible' across concurrent publishers beyond R1∧R2. R3 also covers the bundled otel observer (the context it hands back keeps the publish context's cancellation) and treats a filter that was not evaluated as not having accepted; R4 also requires retirement to remove by identity only (no bare re-slice) under the same dynamic-type key.",
		Run: func(c *Ctx) {
			c.Rule("C04.R1", "dispatch of a once registration only on the success edge of CAS(&claim,0,1); claim word atomic-only, never reset after dispatch")
			c.Rule("C04.R2", "a won claim is never wasted: every path from the CAS success edge dispatches and invokes")
			c.Rule("C04.R3", "filter verdict and live context poll precede the claim")
			c.Rule("C04.R4", "every won claim is queued for retirement; the retirement region runs before PublishContext returns")
			p, R := busRoles(c, "C04.R1")
			if R == nil {
				return
			}
			runDelivery(c, p, R, deliveryRuleOf, map[string]string{"C04.R1": "C04.R1", "C04.R2": "C04.R2", "C04.R3": "C04.R3", "C04.R4": "C04.R4"})
			claimWordDiscipline(c, p, R, "C04.R1")
			// retirement must remove exactly the claimed registrations from the current
			// list (by pointer identity), never rewrite the list from stale knowledge
			c4 := NewCtx(c.Prop, c.Tier, c.Repo)
			checkWriteBacks(c4, p, R, "C04.R4")
			checkRegistryEdits(c4, p, R, "C04.R4")
			for _, o := range c4.Obls {
				if strings.HasPrefix(o.Construct, "PublishContext/") {
					c.add(o)
				}
			}
			checkPublishKeyConsistency(c, p, R, "C04.R4")
			// R3 polls the context PublishContext continues with, which is the one the
			// observability returned from OnPublishStart: the bundled otel observer must hand back
			// a context that keeps the publish context's cancellation
			if po := c.Prog(ModOtel); po != nil {
				c.Borrow("C04.R3", func(k string) bool {
					return strings.Contains(k, "OnPublishStart") && (strings.Contains(k, "span-parent-is-the-given-context") || strings.Contains(k, "returns-the-span-context"))
				}, func(c2 *Ctx) { checkOtel(c2, po, "X") })
			}
			c.Floor("C04.R1", "claim sites", c.Stats["claim_sites"], 1)
			c.Floor("C04.R2", "handler invocation sites", c.Stats["handler_invocation_sites"], 7)
			c.Assume = append(c.Assume, "sync/atomic CompareAndSwap semantics; each Subscribe call allocates a fresh registration (checked under C01.R5)", "Subscribe's typing guarantees the reflective fallback only sees func kinds with 1 or 2 inputs")
		},
	})
}

func init() {
	register("C05", &PropDef{
		Explain: "Structural necessary conditions of 'a panicking handler never harms the publisher or the other handlers', decided on all paths (including panic edges and deferred calls) of PublishContext, its async goroutine, the dispatch function and its deferred closure: (R1) every invocation of the handler value happens inside the dispatch function and its panic edge is absorbed by a deferred closure of the same frame that calls recover() — a panic escaping to the publisher or the goroutine top is unreachable, so the dispatch loop continues with the next registration; (R2) the panic handler is called exactly once iff a panic was recovered and the handler is set, with (published event, registration's handler type, recover() value); (R3) on the panic edge the sequential lock is released and the wait-group Done calls are executed; (R4) the once claim word is never reset after a dispatch, so a panicking Once handler stays retired. Not decided: panics in filters, hooks or the panic handler itself. R2 also requires the handler type recorded in a registration to be reflect.TypeOf of the handler it stores.",
		Run: func(c *Ctx) {
			c.Rule("C05.R1", "every handler invocation is inside a recover scope of its own dispatch frame; PanicEscapes unreachable")
			c.Rule("C05.R2", "panic handler exactly once iff recovered and set, with (event, handlerType, recovered value)")
			c.Rule("C05.R3", "sequential lock released and wait-group counts balanced on the panic edge")
			c.Rule("C05.R4", "the claim word is never reset after a dispatch (a panicking Once handler stays retired)")
			p, R := busRoles(c, "C05.R1")
			if R == nil {
				return
			}
			runDelivery(c, p, R, func(k string) string {
				if strings.Contains(k, "claim/reset") {
					return "C05.R4"
				}
				return deliveryRuleOf(k)
			}, map[string]string{"C05.R1": "C05.R1", "C05.R4": "C05.R4"})
			runFrames(c, p, R, map[string]string{"C05.R2": "C05.R2", "C05.R3": "C05.R3", "C06.R2": "C05.R3"})
			c.Discharge("C05.R4", "claim-word/no-reset-after-dispatch", "", "no store/CAS-back on the claim word is reachable after a dispatch")
			c.Rule("C05.R5", "the other handlers still receive the event: dispatch ranges over a private snapshot (a panic handler may unsubscribe the faulty handler mid-publish)")
			checkSnapshot(c, p, R, "C05.R5")
			// no bus lock is leaked when the user's handler panics (the panic is recovered
			// further up; a lock taken around the call without defer stays held)
			res := runLocksPanic(p, busGuards(R), map[string]bool{PkgBus: true}, busImmutable(R), func(cc *ssa.CallCommon) bool { return isUserHandlerCall(R, cc) })
			c.Stats["product_states"] += res.States
			leaked := false
			for _, f := range res.Misc {
				if strings.Contains(f.Construct, "lock-leaked-on-panic") || strings.Contains(f.Construct, "exit-with-lock") {
					leaked = true
					c.Violate("C05.R3", "locking/"+f.Construct, p.Pos(f.Pos), f.Msg, f.Trace)
				}
			}
			if !leaked {
				c.Discharge("C05.R3", "locks/none-leaked-when-a-handler-panics", "", "on the panic edge of every user-handler call, every lock taken around it is released by a deferred unlock")
			}
			c.Floor("C05.R1", "handler invocation sites", c.Stats["handler_invocation_sites"], 7)
			checkRecordedHandlerType(c, p, R, "C05.R2")
			c.Floor("C05.R2", "panic handler call sites", c.Stats["panic_handler_call_sites"], 1)
			c.Assume = append(c.Assume, "recover() returns non-nil exactly when called directly by a deferred function during panicking (Go spec)", "panic(nil) is a *runtime.PanicNilError since Go 1.21")
		},
	})
	register("C06", &PropDef{
		Explain: "Structural necessary conditions of 'Wait and Shutdown return only after all asynchronous work has finished': (R1) for each go statement whose body calls Done on the bus wait group, exactly one Add(1) on that wait group happens in the publisher between the previous spawn and this one, never inside the spawned body, and no Add is left unbalanced on a path that does not spawn — this holds or fails for every schedule at once; (R2) Done is executed exactly once on every exit of the goroutine body, including the context-skip return and panic edges; (R3) Wait waits on the same wait-group field; (R4) Shutdown: the store is closed only on the arm selected by the completion of Wait, nil is returned only there, the context arm returns the context's error and closes nothing, and a Close error is returned. Not decided: real-time claims. R4 also requires the completion channel to be made by the Shutdown call itself; (R6) async deliveries start from a private snapshot.",
		Run: func(c *Ctx) {
			c.Rule("C06.R1", "Add(1) exactly once in the publisher before each spawn, never in the goroutine, never unbalanced")
			c.Rule("C06.R2", "Done exactly once on every exit of the async goroutine (return, skip, panic)")
			c.Rule("C06.R3", "Wait() waits on the same wait-group field the publisher counts on")
			c.Rule("C06.R4", "Shutdown typestate: close(done) after Wait; Close and nil only on the done arm; ctx arm returns ctx.Err() and closes nothing")
			p, R := busRoles(c, "C06.R1")
			if R == nil {
				return
			}
			c.Rule("C06.R5", "no delivery can block forever on a sequential lock leaked by an earlier (panicking) delivery")
			runFrames(c, p, R, map[string]string{"C06.R1": "C06.R1", "C06.R2": "C06.R2", "C05.R3": "C06.R5"})
			runDelivery(c, p, R, func(k string) string {
				if strings.Contains(k, "async-goroutine/silent-skip") {
					return "C06.R2"
				}
				return deliveryRuleOf(k)
			}, map[string]string{"C06.R2": "C06.R2"})
			checkPublishCtxNotNarrowed(c, p, R, "C06.R2")
			c.Floor("C06.R1", "spawn sites", c.Stats["spawn_sites"], 1)
			c.Floor("C06.R1", "Add sites", c.Stats["wg_add_sites"], 1)
			c.Floor("C06.R2", "Done sites", c.Stats["wg_done_sites"], 1)
			checkWaitAndShutdown(c, p, R)
			// "every delivery to an Async handler ... runs exactly once": the dispatch loop walks
			// a private snapshot (an aliased list shifted by a concurrent retirement delivers a
			// registration twice or not at all)
			c.Rule("C06.R6", "async deliveries are started from a private snapshot of the registrations")
			checkSnapshot(c, p, R, "C06.R6")
			c.Assume = append(c.Assume, "sync.WaitGroup semantics", "handlers return (a handler that never returns keeps Wait blocked by design)")
		},
	})
}

func init() {
	register("C07", &PropDef{
		Explain: "Structural necessary conditions of 'Sequential handlers never overlap and process events in publish order': (R1) at every invocation site of the handler value, on every path on which the registration's sequential flag is set, that registration's own mutex (same base object) is held, the flag is tested on every path to an invocation, and the mutex is released only after the invocation (also on the panic edge) — with sync.Mutex semantics this gives non-overlap under every schedule; (R2) exactly-once delivery per publish (the C01.R4 automaton); (R3) necessary condition for order of Async+Sequential: the publisher must record the publish order in shared state before Publish returns (a sequencing effect other than WaitGroup.Add on the async dispatch path). R3 decides only that a mechanism is present, not that it is correct.",
		Run: func(c *Ctx) {
			c.Rule("C07.R1", "sequential flag set ⇒ the registration's own mutex is held at every invocation, released after it on every exit")
			c.Rule("C07.R2", "each registration is dispatched at most once per publish (over a private snapshot) and skipped only for filter/context/claim")
			c.Rule("C07.R3", "async dispatch of a sequential registration has a publisher-side sequencing effect (necessary for publish order)")
			p, R := busRoles(c, "C07.R1")
			if R == nil {
				return
			}
			runFrames(c, p, R, map[string]string{"C07.R1": "C07.R1", "C05.R3": "C07.R1"})
			runDelivery(c, p, R, deliveryRuleOf, map[string]string{"C01.R4": "C07.R2", "C05.R1": "C07.R2"})
			checkSnapshot(c, p, R, "C07.R2")
			c.Floor("C07.R1", "handler invocation sites", c.Stats["handler_invocation_sites"], 7)
			c.Floor("C07.R1", "sequential lock sites", c.Stats["seq_lock_sites"], 2)
			checkAsyncSequencing(c, p, R)
			// the only other place the user's handler is called: SubscribeWithReplay's
			// replay phase, which must be over before the (possibly Sequential) live
			// registration exists
			c7 := NewCtx(c.Prop, c.Tier, c.Repo)
			checkResume(c7, p, R)
			for _, o := range c7.Obls {
				if strings.Contains(o.Construct, "live-registration-after-replay") {
					o.Rule = "C07.R1"
					c.add(o)
				}
			}
			c.Assume = append(c.Assume, "sync.Mutex provides mutual exclusion; it is not FIFO")
		},
	})
	register("C08", &PropDef{
		Explain: "Structural necessary conditions of 'cancellation, context propagation and publish hooks behave predictably', decided on all paths of PublishContext and what it inlines: (R1) on every path from the start of a delivery to a handler start there is a non-blocking poll of the publish context's Done() in that delivery whose done arm skips the invocation; for synchronous handlers the poll is in the publisher after the previous handler returned; (R2) the context handed to context-aware handler arms originates only from PublishContext's ctx parameter, possibly passed through Observability.OnPublishStart/OnHandlerStart — never context.Background()/TODO(); (R3) each of the four publish hooks, when set, is invoked exactly once on every path from entry to return with (reflect.TypeOf(event), event) (ctx hooks with the publish ctx); before-hooks precede the handler snapshot, after-hooks follow the dispatch loop, and no return separates them (so it holds with no handlers and with a cancelled context alike). Not decided: that user hooks return; what observability implementations do with the context. R2 also requires context values to be stored under keys of unexported module types (bus and otel observer); (R4) no delivery can block forever on a leaked sequential lock.",
		Run: func(c *Ctx) {
			c.Rule("C08.R1", "context gate: a live poll of the publish context precedes every handler start in the same delivery")
			c.Rule("C08.R2", "context provenance: handlers receive the publish ctx (through observability only)")
			c.Rule("C08.R3", "hook automaton: each hook exactly once per publish, in its phase, with the right arguments")
			p, R := busRoles(c, "C08.R1")
			if R == nil {
				return
			}
			runDelivery(c, p, R, deliveryRuleOf, map[string]string{"C08.R1": "C08.R1"})
			runFrames(c, p, R, map[string]string{"C08.R3": "C08.R3"})
			c.Floor("C08.R1", "context poll sites", c.Stats["context_poll_sites"], 1)
			c.Floor("C08.R3", "hook call sites", c.Stats["hook_call_sites"], 4)
			checkHookSlotWriters(c, p, R, "C08.R3")
			checkHandlerCtxProvenance(c, p, R)
			// "each after-publish hook exactly once for every publish": a publish whose delivery
			// blocks forever on a sequential lock leaked by an earlier panicking delivery never
			// reaches its after hooks
			c.Rule("C08.R4", "no delivery can block forever on a sequential lock that an earlier delivery leaked")
			if c.Borrow("C08.R4", func(k string) bool {
				return strings.Contains(k, "sequential-lock-released") || strings.Contains(k, "sequential-unlock")
			}, func(c2 *Ctx) {
				runFrames(c2, p, R, map[string]string{"C05.R3": "X"})
				c.Stats["sequential_lock_sites"] = c2.Stats["sequential_lock_sites"]
			}) == 0 {
				c.Discharge("C08.R4", "dispatch-fn/sequential-lock-released", "", "every exit of the dispatch function (return, recovered panic) releases the sequential lock it took")
			}
			checkContextKeys(c, p, []string{PkgBus, PkgState}, "C08.R2")
			// the bundled observability must hand back a context derived from the one it got
			if po := c.Prog(ModOtel); po != nil {
				nk := checkContextKeys(c, po, []string{PkgOtel}, "C08.R2")
				c.Floor("C08.R2", "context values set by the otel observer", nk, 1)
				c2 := NewCtx(c.Prop, c.Tier, c.Repo)
				checkOtel(c2, po, "C08.R2")
				for _, o := range c2.Obls {
					if strings.Contains(o.Construct, "span-parent-is-the-given-context") || strings.Contains(o.Construct, "returns-the-span-context") || o.Status == Unresolved {
						c.add(o)
					}
				}
			}
			c.Assume = append(c.Assume, "user hooks return", "an Observability implementation derives the context it returns from the one it is given (checked for the bundled otel implementation under C20)")
		},
	})
}

// isUserHandlerCall: a dynamic call of the subscribed handler (a value of the named
// Handler / ContextHandler func types, or the registration's handler field).
func isUserHandlerCall(R *BusRoles, c *ssa.CallCommon) bool {
	if !isDynamicCall(c) {
		return false
	}
	v := c.Value
	if x, ok := throughAssert(v); ok {
		v = x
	}
	if tn, fld, _, ok := fieldLoad(v); ok && tn == R.RegName() && fld == R.RegHandler {
		return true
	}
	t := c.Value.Type()
	if n := typeName(t); n == "Handler" || n == "ContextHandler" {
		return true
	}
	return false
}
