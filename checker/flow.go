package main

// E-FLOW: value provenance. origins(v) walks SSA def-use chains backwards and
// returns a set of origin descriptors (DESIGN.md §3.3).

import (
	"fmt"
	"go/token"
	"go/types"
	"sort"
	"strings"

	"golang.org/x/tools/go/ssa"
)

// Flow computes origins over one program.
type Flow struct {
	p     *Prog
	cells *cellIndex
	// Through lists functions whose call results are replaced by the origins of the
	// listed argument indices (-1 = all arguments).
	Through map[string][]int
	// Inter: follow calls to in-scope functions into the origins of their returned values
	// (parameters are mapped back to the call's arguments).
	Inter bool
	// Callers: follow an unbound parameter of an in-scope, unexported function to the
	// arguments at its static call sites (helper extraction).
	Callers *ipIndex
	// Opaque functions are never entered (their call is an origin of its own); exported
	// functions are always opaque (API boundaries such as EventType).
	Opaque map[*ssa.Function]bool
	// ctor: fields of "captured-state" structs — unexported struct types of the module all
	// of whose field stores initialise a freshly allocated object (a closure converted into
	// a struct with methods). A load of such a field has the origins of the stored values.
	ctor map[string][]ssa.Value
}

func NewFlow(p *Prog, cells *cellIndex) *Flow {
	return &Flow{p: p, cells: cells, Inter: true, Callers: newIPIndex(p), Through: map[string][]int{
		"context.WithValue": {0}, "context.WithTimeout": {0}, "context.WithCancel": {0}, "context.WithDeadline": {0},

		"fmt.Errorf": {-1}, "fmt.Sprintf": {-1}, "fmt.Sprint": {-1},
	}}
}

// ctorFields computes Flow.ctor on first use.
func (f *Flow) ctorFields() map[string][]ssa.Value {
	if f.ctor != nil {
		return f.ctor
	}
	f.ctor = map[string][]ssa.Value{}
	stores := map[string][]ssa.Value{}
	dirty := map[string]bool{} // type names with a store into an object that is not fresh
	for _, fn := range f.p.Funcs() {
		if !f.p.InScope(fn) {
			continue
		}
		for _, b := range fn.Blocks {
			for _, in := range b.Instrs {
				st, ok := in.(*ssa.Store)
				if !ok {
					continue
				}
				fa, ok := st.Addr.(*ssa.FieldAddr)
				if !ok {
					continue
				}
				pt, ok := fa.X.Type().Underlying().(*types.Pointer)
				if !ok {
					continue
				}
				nt, ok := pt.Elem().(*types.Named)
				if !ok || nt.Obj().Exported() || nt.Obj().Pkg() == nil || !f.p.Mods[nt.Obj().Pkg().Path()] {
					continue
				}
				tn := nt.Obj().Name()
				if _, fresh := stripConv(fa.X).(*ssa.Alloc); !fresh {
					dirty[tn] = true
					continue
				}
				key := tn + "." + fieldName(fa.X.Type(), fa.Field)
				stores[key] = append(stores[key], st.Val)
			}
		}
	}
	for k, vs := range stores {
		if !dirty[k[:strings.Index(k, ".")]] {
			f.ctor[k] = vs
		}
	}
	return f.ctor
}

type flowRun struct {
	f    *Flow
	seen map[ssa.Value]bool
	out  map[string]bool
	// binding of parameters of functions entered interprocedurally
	bind  map[*ssa.Parameter]ssa.Value
	depth int
}

// Origins returns the sorted origin descriptors of v.
func (f *Flow) Origins(v ssa.Value) []string {
	r := &flowRun{f: f, seen: map[ssa.Value]bool{}, out: map[string]bool{}, bind: map[*ssa.Parameter]ssa.Value{}}
	r.walk(v)
	var out []string
	for k := range r.out {
		out = append(out, k)
	}
	sort.Strings(out)
	return out
}

// Has reports whether any origin has the given prefix.
func hasOrigin(os []string, prefix string) bool {
	for _, o := range os {
		if strings.HasPrefix(o, prefix) {
			return true
		}
	}
	return false
}

func onlyOrigins(os []string, allowed ...string) (bool, string) {
	for _, o := range os {
		ok := false
		for _, a := range allowed {
			if strings.HasPrefix(o, a) {
				ok = true
			}
		}
		if !ok {
			return false, o
		}
	}
	return true, ""
}

func (r *flowRun) walk(v ssa.Value) {
	if v == nil || r.seen[v] {
		return
	}
	r.seen[v] = true
	switch v := v.(type) {
	case *ssa.Const:
		if v.Value == nil {
			r.out["nil"] = true
		} else {
			r.out["const:"+v.Value.ExactString()] = true
		}
	case *ssa.Parameter:
		if b, ok := r.bind[v]; ok {
			r.walk(b)
			return
		}
		if ix := r.f.Callers; ix != nil && r.depth < 4 {
			f := v.Parent()
			exported := f.Object() != nil && f.Object().Exported() && f.Signature.Recv() == nil
			if args := ix.argFor(v); len(args) > 0 && len(args) <= 3 && !exported && f.Parent() == nil {
				r.depth++
				for _, a := range args {
					r.walk(a)
				}
				r.depth--
				return
			}
		}
		r.out["param:"+FuncDisplay(v.Parent())+"."+v.Name()] = true
	case *ssa.FreeVar:
		if a := r.f.cells.freeAlloc[v]; a != nil {
			r.walk(a)
		} else {
			r.out["free:"+FuncDisplay(v.Parent())+"."+v.Name()] = true
		}
	case *ssa.Alloc:
		ss := r.f.cells.stores[v]
		n := len(ss)
		for _, s := range ss {
			r.walk(s)
		}
		// aggregate locals (varargs arrays, composite literals): what is stored into
		// their elements / fields
		if v.Referrers() != nil {
			for _, ref := range *v.Referrers() {
				switch a := ref.(type) {
				case *ssa.IndexAddr:
					for _, r2 := range *a.Referrers() {
						if st, ok := r2.(*ssa.Store); ok && st.Addr == a {
							n++
							r.walk(st.Val)
						}
					}
				}
			}
		}
		if n == 0 {
			r.out["alloc:"+FuncDisplay(v.Parent())+"."+v.Comment] = true
		}
	case *ssa.Phi:
		for _, e := range v.Edges {
			r.walk(e)
		}
	case *ssa.ChangeType:
		r.walk(v.X)
	case *ssa.ChangeInterface:
		r.walk(v.X)
	case *ssa.MakeInterface:
		r.walk(v.X)
	case *ssa.Convert:
		r.walk(v.X)
	case *ssa.TypeAssert:
		r.walk(v.X)
	case *ssa.Extract:
		if c, ok := v.Tuple.(*ssa.Call); ok {
			r.call(c, v.Index)
		} else if ta, ok := v.Tuple.(*ssa.TypeAssert); ok && v.Index == 0 {
			r.walk(ta.X)
		} else if lk, ok := v.Tuple.(*ssa.Lookup); ok && v.Index == 0 {
			r.walk(lk)
		} else if un, ok := v.Tuple.(*ssa.UnOp); ok && un.Op == token.ARROW {
			r.out["recv"] = true
		} else if nx, ok := v.Tuple.(*ssa.Next); ok {
			r.out[fmt.Sprintf("range-elem#%d", v.Index)] = true
			r.walk(nx.Iter)
		} else {
			r.out[fmt.Sprintf("extract:%T#%d", v.Tuple, v.Index)] = true
		}
	case *ssa.Range:
		r.walk(v.X)
	case *ssa.Call:
		r.call(v, 0)
	case *ssa.UnOp:
		if v.Op == token.MUL {
			switch a := v.X.(type) {
			case *ssa.Alloc:
				r.walk(a)
			case *ssa.FreeVar:
				r.walk(a)
			case *ssa.FieldAddr:
				key := typeName(a.X.Type()) + "." + fieldName(a.X.Type(), a.Field)
				if vs, ok := r.f.ctorFields()[key]; ok && len(vs) > 0 {
					for _, sv := range vs {
						r.walk(sv)
					}
					return
				}
				r.out["field:"+key] = true
			case *ssa.IndexAddr:
				r.out["elem"] = true
				r.walk(a.X)
			case *ssa.Global:
				r.out["global:"+a.String()] = true
			default:
				r.out["load"] = true
				r.walk(v.X)
			}
			return
		}
		r.walk(v.X)
	case *ssa.Field:
		r.out["field:"+typeName(v.X.Type())+"."+fieldName(v.X.Type(), v.Field)] = true
	case *ssa.FieldAddr:
		r.out["&field:"+typeName(v.X.Type())+"."+fieldName(v.X.Type(), v.Field)] = true
	case *ssa.Lookup:
		r.out["lookup"] = true
		r.walk(v.X)
	case *ssa.Index:
		r.out["elem"] = true
		r.walk(v.X)
	case *ssa.IndexAddr:
		r.out["&elem"] = true
		r.walk(v.X)
	case *ssa.BinOp:
		r.walk(v.X)
		r.walk(v.Y)
	case *ssa.Slice:
		r.walk(v.X)
	case *ssa.MakeClosure:
		r.out["closure:"+FuncDisplay(v.Fn.(*ssa.Function))] = true
	case *ssa.Function:
		r.out["func:"+FuncDisplay(v)] = true
	case *ssa.Global:
		r.out["&global:"+v.String()] = true
	case *ssa.MakeSlice:
		r.out["makeslice"] = true
	case *ssa.MakeMap:
		r.out["makemap"] = true
	case *ssa.MakeChan:
		r.out["makechan"] = true
	default:
		r.out[fmt.Sprintf("%T", v)] = true
	}
}

func flowCalleeName(cc *ssa.CallCommon) string {
	if cc.IsInvoke() {
		return "invoke:" + typeName(cc.Value.Type()) + "." + cc.Method.Name()
	}
	if sc := cc.StaticCallee(); sc != nil {
		if o := sc.Origin(); o != nil {
			return FuncDisplay(o)
		}
		return FuncDisplay(sc)
	}
	if b, ok := cc.Value.(*ssa.Builtin); ok {
		return "builtin:" + b.Name()
	}
	return "dyncall"
}

func (r *flowRun) call(c *ssa.Call, idx int) {
	if prm := nilCtxDefault(c); prm != nil {
		// `if ctx == nil { ctx = context.Background() }`: the default stands for the parameter
		r.walk(prm)
		return
	}
	cc := c.Common()
	name := flowCalleeName(cc)
	if name == "builtin:append" {
		for _, a := range cc.Args {
			r.walk(a)
		}
		return
	}
	if pt, ok := r.f.Through[name]; ok {
		for _, i := range pt {
			if i == -1 {
				for _, a := range cc.Args {
					r.walk(a)
				}
			} else if i < len(cc.Args) {
				r.walk(cc.Args[i])
			}
		}
		return
	}
	if name == "dyncall" {
		// a call of a function value: say which value
		if tn, fn, _, ok := fieldLoad(cc.Value); ok {
			name = "dyncall:" + tn + "." + fn
		} else if p, ok := cc.Value.(*ssa.Parameter); ok {
			name = "dyncall:param:" + p.Name()
		}
	}
	// a helper of the analysed modules that is entered below is transparent: the value has
	// the origins of what the helper returns, not the helper's call as an origin of its own
	followed := false
	if r.f.Inter && !cc.IsInvoke() && r.depth < 4 {
		if sc := cc.StaticCallee(); sc != nil {
			fn := sc
			if o := sc.Origin(); o != nil {
				fn = o
			}
			exported := fn.Object() != nil && fn.Object().Exported()
			followed = r.f.p.InScope(fn) && len(fn.Blocks) > 0 && !exported && !r.f.Opaque[fn]
		}
	}
	if !followed {
		r.out[fmt.Sprintf("call:%s#%d", name, idx)] = true
	}
	if r.f.Inter && !cc.IsInvoke() && r.depth < 4 {
		if sc := cc.StaticCallee(); sc != nil {
			fn := sc
			if o := sc.Origin(); o != nil {
				fn = o
			}
			exported := fn.Object() != nil && fn.Object().Exported()
			if r.f.p.InScope(fn) && len(fn.Blocks) > 0 && !exported && !r.f.Opaque[fn] {
				for i, p := range fn.Params {
					if i < len(cc.Args) {
						r.bind[p] = cc.Args[i]
					}
				}
				r.depth++
				for _, b := range fn.Blocks {
					if ret, ok := b.Instrs[len(b.Instrs)-1].(*ssa.Return); ok && idx < len(ret.Results) {
						r.walk(ret.Results[idx])
					}
				}
				r.depth--
			}
		}
	}
	if cc.IsInvoke() && (cc.Method.Name() == "String" || cc.Method.Name() == "Elem") {
		// keep the receiver chain (reflect.Type.String / Elem)
		r.walk(cc.Value)
	}
}

// typeParamOf returns the name of the type parameter a reflect.TypeOf((*T)(nil))
// expression is built from, if v has that shape.
func typeParamOfTypeOf(v ssa.Value) (string, bool) {
	v = stripConv(v)
	c, ok := v.(*ssa.Call)
	if !ok {
		return "", false
	}
	if calleeName(c.Common()) != "reflect.TypeOf" || len(c.Common().Args) != 1 {
		return "", false
	}
	a := c.Common().Args[0]
	var t types.Type
	switch x := a.(type) {
	case *ssa.MakeInterface:
		t = x.X.Type()
	case *ssa.ChangeType:
		t = x.X.Type()
	default:
		return "", false
	}
	if p, ok := t.(*types.Pointer); ok {
		if tp, ok := p.Elem().(*types.TypeParam); ok {
			return tp.Obj().Name(), true
		}
	}
	if tp, ok := t.(*types.TypeParam); ok {
		return tp.Obj().Name(), true
	}
	return "", false
}

// nilCtxDefault: call is context.Background() / context.TODO() on the branch on which a
// context parameter of the same function was found nil (a nil-context guard): the
// parameter it replaces, else nil.
func nilCtxDefault(call *ssa.Call) *ssa.Parameter {
	n := calleeName(call.Common())
	if n != "context.Background" && n != "context.TODO" {
		return nil
	}
	cond, onTrue := guardingCond(call.Block())
	if cond == nil {
		return nil
	}
	x, nonNilOnTrue, ok := nilTest(cond)
	if !ok || onTrue == nonNilOnTrue {
		return nil
	}
	prm, ok := stripConv(x).(*ssa.Parameter)
	if !ok {
		// the parameter spilled to a cell (captured by closures): `*cell == nil` tested in the
		// entry block, where the cell still holds the parameter
		if ld, isLd := stripConv(x).(*ssa.UnOp); isLd && ld.Op == token.MUL && ld.Block() != nil && ld.Block().Index == 0 {
			if al, isAl := ld.X.(*ssa.Alloc); isAl {
				for _, ref := range *al.Referrers() {
					if st, isSt := ref.(*ssa.Store); isSt && st.Addr == ssa.Value(al) && st.Block().Index == 0 {
						if p2, isP := stripConv(st.Val).(*ssa.Parameter); isP {
							prm, ok = p2, true
						}
					}
				}
			}
		}
	}
	if !ok || prm.Parent() != call.Parent() || !isNamed(prm.Type(), "context", "Context") {
		return nil
	}
	return prm
}

// entryParam: v is a parameter, or the load — in the entry block — of the cell a parameter
// was spilled to (captured by closures), where the cell still holds the parameter.
func entryParam(v ssa.Value) *ssa.Parameter {
	v = stripConv(v)
	if p, ok := v.(*ssa.Parameter); ok {
		return p
	}
	ld, ok := v.(*ssa.UnOp)
	if !ok || ld.Op != token.MUL || ld.Block() == nil || ld.Block().Index != 0 {
		return nil
	}
	al, ok := ld.X.(*ssa.Alloc)
	if !ok {
		return nil
	}
	for _, ref := range *al.Referrers() {
		if st, ok := ref.(*ssa.Store); ok && st.Addr == ssa.Value(al) && st.Block().Index == 0 {
			if p, ok := stripConv(st.Val).(*ssa.Parameter); ok {
				return p
			}
		}
	}
	return nil
}
