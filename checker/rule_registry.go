package main

// Structural rules on the handler registry of package ebu (C01.R1–R3, R5; C02.R2).

import (
	"fmt"
	"go/constant"
	"go/token"
	"go/types"
	"strings"

	"golang.org/x/tools/go/ssa"
)

// ---------------------------------------------------------------------------
// CFG helpers.

func instrIndex(in ssa.Instruction) int {
	for i, x := range in.Block().Instrs {
		if x == in {
			return i
		}
	}
	return -1
}

// reaches reports whether control can flow from just after `from` to `to` (same function).
func reaches(from, to ssa.Instruction) bool {
	if from.Parent() != to.Parent() {
		return false
	}
	if from.Block() == to.Block() && instrIndex(from) < instrIndex(to) {
		return true
	}
	seen := map[*ssa.BasicBlock]bool{}
	stack := append([]*ssa.BasicBlock(nil), from.Block().Succs...)
	for len(stack) > 0 {
		b := stack[len(stack)-1]
		stack = stack[:len(stack)-1]
		if seen[b] {
			continue
		}
		seen[b] = true
		if b == to.Block() {
			return true
		}
		stack = append(stack, b.Succs...)
	}
	return false
}

// ---------------------------------------------------------------------------
// Registry access inventory.

type regAccess struct {
	Fn     *ssa.Function
	In     ssa.Instruction
	Kind   string          // lookup, update, delete, replace (store to the map field), range, len
	Map    ssa.Value       // the loaded map value (nil for replace)
	Key    ssa.Value       // map key (nil for replace/range)
	Shard  ssa.Value       // the shard value the map belongs to
	Val    ssa.Value       // stored value for update/replace
	Via    string          // helper function the access physically sits in ("" = in Fn itself)
	Home   *ssa.Function   // function the access physically sits in
	HomeIn ssa.Instruction // the access instruction itself
	SKind  string          // how the shard was selected: fn / array / alloc / ""
	SKey   ssa.Value       // key the shard function was applied to
	SIdx   ssa.Value       // index into the shard array
}

func (R *BusRoles) isRegistryMapLoad(v ssa.Value) (shard ssa.Value, ok bool) {
	tn, fld, base, ok := fieldLoad(v)
	if !ok || R.ShardT == nil || tn != R.ShardT.Obj().Name() || fld != R.ShardMap {
		return nil, false
	}
	return base, true
}

// registryAccesses lists every access to a registry map. An access made in a helper
// whose shard or key is (derived from) a parameter is lifted to each static call site of
// the helper, with the parameter replaced by the call's argument, until no parameter is
// left; Home/HomeIn keep the function and instruction the access physically sits in.
func registryAccesses(p *Prog, R *BusRoles) []regAccess {
	raw := registryAccessesRaw(p, R)
	ix := newIPIndex(p)
	var out []regAccess
	isParamOf := func(v ssa.Value, f *ssa.Function) (*ssa.Parameter, bool) {
		if v == nil {
			return nil, false
		}
		pv, ok := stripConv(v).(*ssa.Parameter)
		return pv, ok && pv.Parent() == f
	}
	var lift func(a regAccess, depth int)
	lift = func(a regAccess, depth int) {
		_, p1 := isParamOf(a.Shard, a.Fn)
		_, p2 := isParamOf(a.Key, a.Fn)
		_, p3 := isParamOf(a.SKey, a.Fn)
		callers := ix.callers[a.Fn]
		if !(p1 || p2 || p3) || depth > 3 || len(callers) == 0 {
			out = append(out, a)
			return
		}
		for _, ci := range callers {
			na := a
			na.Fn = ci.Parent()
			na.In = ci
			args := callArgs(ci.Common())
			bind := func(v ssa.Value) ssa.Value {
				if pv, ok := isParamOf(v, a.Fn); ok {
					for i, fp := range a.Fn.Params {
						if fp == pv && i < len(args) {
							return args[i]
						}
					}
				}
				return v
			}
			if p1 {
				na.Shard = bind(a.Shard)
				na.SKind, na.SKey, na.SIdx = R.shardOrigin(na.Shard)
			}
			if a.Key != nil {
				na.Key = bind(a.Key)
			}
			if a.SKey != nil && !p1 {
				na.SKey = bind(a.SKey)
			}
			if na.Via == "" {
				na.Via = FuncDisplay(a.Fn)
			}
			lift(na, depth+1)
		}
	}
	for _, a := range raw {
		a.Home, a.HomeIn = a.Fn, a.In
		a.SKind, a.SKey, a.SIdx = R.shardOrigin(a.Shard)
		lift(a, 0)
	}
	// a key read back from the registration (h.eventType) is classified by what that
	// field is assigned anywhere in the package
	regKeyField = func(typ, field string) string {
		if R.RegT == nil || typ == "" {
			return ""
		}
		res := ""
		saved := regKeyField
		regKeyField = nil // no recursion through the field itself
		defer func() { regKeyField = saved }()
		n := 0
		for _, f := range p.FuncsIn(PkgBus) {
			for _, b := range f.Blocks {
				for _, in := range b.Instrs {
					st, ok := in.(*ssa.Store)
					if !ok {
						continue
					}
					if tn, fld, _, ok := fieldOfAddr(st.Addr); !ok || tn != typ || fld != field {
						continue
					}
					n++
					vals := []ssa.Value{st.Val}
					if pv, ok := stripConv(st.Val).(*ssa.Parameter); ok {
						vals = ix.argFor(pv)
					}
					for _, v := range vals {
						o := typeKeyOrigin(v)
						if i := strings.Index(o, ":"); i >= 0 {
							o = o[:i]
						}
						switch {
						case o == "":
							return ""
						case res == "":
							res = o
						case res != o:
							return ""
						}
					}
				}
			}
		}
		if n == 0 || res == "" {
			return ""
		}
		return res + ":registration-field"
	}
	// an access that could not be lifted out of a helper (its key is read from an object,
	// not a parameter) is attributed to every exported API function that reaches the helper
	apiReach := map[*ssa.Function][]*ssa.Function{}
	for _, f := range p.FuncsIn(PkgBus) {
		if f.Parent() != nil || f.Object() == nil || !f.Object().Exported() || f.Signature.Recv() != nil && !f.Object().Exported() {
			continue
		}
		for _, g := range reachFuncs(p, f, PkgBus) {
			if g != f {
				apiReach[g] = append(apiReach[g], f)
			}
		}
	}
	var extra []regAccess
	for _, a := range out {
		if a.Fn.Parent() != nil {
			continue
		}
		for _, api := range apiReach[a.Fn] {
			na := a
			if na.Via == "" {
				na.Via = FuncDisplay(a.Fn)
			}
			na.Fn = api
			extra = append(extra, na)
		}
	}
	return append(out, extra...)
}

func registryAccessesRaw(p *Prog, R *BusRoles) []regAccess {
	var out []regAccess
	for _, f := range p.FuncsIn(PkgBus) {
		for _, b := range f.Blocks {
			for _, in := range b.Instrs {
				switch x := in.(type) {
				case *ssa.Lookup:
					if sh, ok := R.isRegistryMapLoad(x.X); ok {
						out = append(out, regAccess{Fn: f, In: in, Kind: "lookup", Map: x.X, Key: x.Index, Shard: sh})
					}
				case *ssa.MapUpdate:
					if sh, ok := R.isRegistryMapLoad(x.Map); ok {
						out = append(out, regAccess{Fn: f, In: in, Kind: "update", Map: x.Map, Key: x.Key, Shard: sh, Val: x.Value})
					}
				case *ssa.Range:
					if sh, ok := R.isRegistryMapLoad(x.X); ok {
						out = append(out, regAccess{Fn: f, In: in, Kind: "range", Map: x.X, Shard: sh})
					}
				case *ssa.Store:
					if tn, fld, base, ok := fieldOfAddr(x.Addr); ok && R.ShardT != nil && tn == R.ShardT.Obj().Name() && fld == R.ShardMap {
						out = append(out, regAccess{Fn: f, In: in, Kind: "replace", Shard: base, Val: x.Val})
					}
				case *ssa.Call:
					if bi, ok := x.Common().Value.(*ssa.Builtin); ok && len(x.Common().Args) > 0 {
						if sh, ok := R.isRegistryMapLoad(x.Common().Args[0]); ok {
							switch bi.Name() {
							case "delete":
								out = append(out, regAccess{Fn: f, In: in, Kind: "delete", Map: x.Common().Args[0], Key: x.Common().Args[1], Shard: sh})
							case "len":
								out = append(out, regAccess{Fn: f, In: in, Kind: "len", Map: x.Common().Args[0], Shard: sh})
							case "clear":
								out = append(out, regAccess{Fn: f, In: in, Kind: "clearmap", Map: x.Common().Args[0], Shard: sh})
							}
						}
					}
				}
			}
		}
	}
	return out
}

// typeKeyOrigin classifies how a reflect.Type key was produced: "static:T" for
// reflect.TypeOf((*T)(nil)).Elem(), "dynamic:T" for reflect.TypeOf(x) with x of type
// parameter type T, "param" for a reflect.Type parameter, "" otherwise.
// regKeyField, when set (by registryAccesses), names the registration struct type and
// classifies a reflect.Type-typed field of it: a key read back from the registration is as
// good as the values that field is ever assigned.
var regKeyField func(typ, field string) string

func typeKeyOrigin(v ssa.Value) string {
	v = stripConv(v)
	if tn, fld, _, ok := fieldLoad(v); ok && regKeyField != nil && isNamed(v.Type(), "reflect", "Type") {
		if o := regKeyField(tn, fld); o != "" {
			return o
		}
	}
	switch x := v.(type) {
	case *ssa.Parameter:
		if isNamed(x.Type(), "reflect", "Type") {
			return "param:" + x.Name()
		}
	case *ssa.Call:
		c := x.Common()
		if c.IsInvoke() && c.Method.Name() == "Elem" {
			if tp, ok := typeParamOfTypeOf(c.Value); ok {
				return "static:" + tp
			}
		}
		if tp, ok := typeParamOfTypeOf(x); ok {
			// reflect.TypeOf(x) with x T-typed (dynamic type of the event)
			return "dynamic:" + tp
		}
	case *ssa.UnOp:
		if x.Op == token.MUL {
			if a, ok := x.X.(*ssa.Alloc); ok {
				// single-store local
				var stored ssa.Value
				n := 0
				for _, ref := range *a.Referrers() {
					if st, ok := ref.(*ssa.Store); ok && st.Addr == a {
						stored = st.Val
						n++
					}
				}
				if n == 1 {
					return typeKeyOrigin(stored)
				}
			}
		}
	}
	return ""
}

// shardOrigin: how the shard value was selected: "fn(<key>)" via the shard function,
// "array[i]" element of the shard array, "alloc" a shard under construction.
func (R *BusRoles) shardOrigin(v ssa.Value) (kind string, key ssa.Value, idx ssa.Value) {
	v = stripConv(v)
	switch x := v.(type) {
	case *ssa.Call:
		if sc := x.Common().StaticCallee(); sc != nil && (sc == R.ShardFn || sc.Origin() == R.ShardFn) && len(x.Common().Args) == 2 {
			return "fn", x.Common().Args[1], nil
		}
	case *ssa.UnOp:
		if x.Op == token.MUL {
			if ia, ok := x.X.(*ssa.IndexAddr); ok {
				arr := ia.X
				// the whole array re-sliced (bus.shards[:]) indexes the same elements
				if sl, ok := arr.(*ssa.Slice); ok && sl.Low == nil && sl.High == nil && sl.Max == nil {
					arr = sl.X
				}
				if tn, fld, _, ok := fieldOfAddr(arr); ok && tn == "EventBus" && fld == R.BusShards {
					return "array", nil, ia.Index
				}
			}
		}
	case *ssa.Alloc:
		return "alloc", nil, nil
	}
	return "", nil, nil
}

func sameValue(a, b ssa.Value) bool {
	a, b = stripConv(a), stripConv(b)
	if a == b {
		return true
	}
	// the same field of the same (immutable) struct value
	if fa, ok := a.(*ssa.Field); ok {
		if fb, ok := b.(*ssa.Field); ok && fa.Field == fb.Field && sameValue(fa.X, fb.X) {
			return true
		}
	}
	// two loads of the same field of a local copy that is written once, as a whole
	la, ok1 := a.(*ssa.UnOp)
	lb, ok2 := b.(*ssa.UnOp)
	if ok1 && ok2 && la.Op == token.MUL && lb.Op == token.MUL {
		fa, ok1 := la.X.(*ssa.FieldAddr)
		fb, ok2 := lb.X.(*ssa.FieldAddr)
		if ok1 && ok2 && fa.Field == fb.Field && fa.X == fb.X {
			if al, ok := fa.X.(*ssa.Alloc); ok && wholeStore(al) != nil {
				return true
			}
		}
	}
	return false
}

// ---------------------------------------------------------------------------
// C01.R1 key agreement.

func checkKeyAgreement(c *Ctx, p *Prog, R *BusRoles, rule string) {
	acc := registryAccesses(p, R)
	perFn := map[string]int{}
	for _, a := range acc {
		fn := FuncDisplay(a.Fn)
		perFn[fn]++
		construct := fmt.Sprintf("%s/registry-%s#%d", fn, a.Kind, perFn[fn])
		pos := p.Pos(a.In.Pos())
		kind, skey, idx := a.SKind, a.SKey, a.SIdx
		switch kind {
		case "fn":
			if a.Key != nil && !sameValue(a.Key, skey) {
				c.Violate(rule, construct, pos, "the map is keyed by a different value than the one the shard was selected with: handlers of a type could be looked up in the wrong shard", nil)
				continue
			}
			o := typeKeyOrigin(skey)
			if o == "" {
				c.Violate(rule, construct, pos, "the shard/map key is not derived from reflect.TypeOf of the event type (static (*T)(nil) element type or the published value)", nil)
				continue
			}
			if a.Kind == "replace" || a.Kind == "range" || a.Kind == "clearmap" {
				c.Violate(rule, construct, pos, "a whole-map operation ("+a.Kind+") on a shard selected for one event type affects every type routed to that shard", nil)
				continue
			}
			c.Discharge(rule, construct, pos, "shard = shardFn(k), map key = the same k, k = "+o)
		case "array":
			if a.Kind == "replace" || a.Kind == "clearmap" {
				if ok, why := fullArrayLoop(a.In, idx, R); ok {
					c.Discharge(rule, construct, pos, "whole-map replacement inside a loop over every shard index ("+why+")")
				} else {
					c.Violate(rule, construct, pos, "whole-map replacement on a shard array element outside a loop that provably covers every shard: "+why, nil)
				}
			} else if a.Kind == "range" {
				// iterating over everything one shard holds concerns no particular key
				c.Discharge(rule, construct, pos, "read-only iteration over a shard picked by array index")
			} else {
				c.Violate(rule, construct, pos, "keyed registry access on a shard picked by array index rather than by the shard function", nil)
			}
		case "alloc":
			c.Discharge(rule, construct, pos, "shard under construction")
		default:
			c.Violate(rule, construct, pos, "cannot tell which shard this registry access uses (shard value is neither shardFn(k) nor an element of the shard array)", nil)
		}
	}
	c.Stats["registry_accesses"] = len(acc)
	// every registry-touching API function reaches at least one access
	for _, api := range []string{"Subscribe", "SubscribeContext", "Unsubscribe", "PublishContext", "Clear", "ClearAll", "HasHandlers", "HandlerCount"} {
		if perFn[api] == 0 {
			c.Unresolved(rule, "floor/registry-access-in/"+api, "no registry access found in "+api)
		}
	}
}

// fullArrayLoop: in sits in a loop whose index idx runs 0..N-1 with N the shard array length.
func fullArrayLoop(in ssa.Instruction, idx ssa.Value, R *BusRoles) (bool, string) {
	arrLen := int64(-1)
	if bs := structOf(R.BusT); bs != nil {
		for i := 0; i < bs.NumFields(); i++ {
			if bs.Field(i).Name() == R.BusShards {
				if a, ok := bs.Field(i).Type().Underlying().(*types.Array); ok {
					arrLen = a.Len()
				}
			}
		}
	}
	if arrLen < 0 {
		return false, "shard array length unknown"
	}
	phi, ok := idx.(*ssa.Phi)
	if !ok {
		// range over array: index is "t + 1" of a phi starting at -1
		if bo, ok := idx.(*ssa.BinOp); ok && bo.Op == token.ADD {
			if ph, ok := bo.X.(*ssa.Phi); ok {
				return rangeLoopFull(ph, bo, arrLen)
			}
		}
		return false, "index is not a loop induction variable"
	}
	// for i := 0; i < N; i++
	start, step := false, false
	for _, ed := range phi.Edges {
		if k, ok := ed.(*ssa.Const); ok && k.Value != nil && k.Int64() == 0 {
			start = true
		}
		if bo, ok := ed.(*ssa.BinOp); ok && bo.Op == token.ADD && bo.X == phi {
			if k, ok := bo.Y.(*ssa.Const); ok && k.Value != nil && k.Int64() == 1 {
				step = true
			}
		}
	}
	if !start || !step {
		return false, "induction variable does not start at 0 and step by 1"
	}
	// loop condition in the phi's block
	blk := phi.Block()
	iff, ok := blk.Instrs[len(blk.Instrs)-1].(*ssa.If)
	if !ok {
		return false, "loop header has no condition"
	}
	bo, ok := iff.Cond.(*ssa.BinOp)
	if ok && bo.X != ssa.Value(phi) {
		// rotated loop (`for i := range N`): the test sits at the end of the body, on i+1
		if next, isNext := bo.X.(*ssa.BinOp); isNext && next.Op == token.ADD && next.X == ssa.Value(phi) {
			if one, isK := next.Y.(*ssa.Const); isK && one.Value != nil && one.Int64() == 1 && bo.Op == token.LSS {
				if k, isK := bo.Y.(*ssa.Const); isK && k.Value != nil && k.Int64() == arrLen && arrLen >= 1 {
					return true, fmt.Sprintf("for i := range %d with %d shards", k.Int64(), arrLen)
				}
			}
		}
	}
	if !ok || bo.X != phi {
		return false, "loop condition is not on the induction variable"
	}
	k, ok := bo.Y.(*ssa.Const)
	if !ok || k.Value == nil {
		// len(array)
		if call, ok := bo.Y.(*ssa.Call); ok {
			if bi, ok := call.Common().Value.(*ssa.Builtin); ok && bi.Name() == "len" && bo.Op == token.LSS {
				return true, "i < len(shards)"
			}
		}
		return false, "loop bound is not a constant"
	}
	switch bo.Op {
	case token.LSS:
		if k.Int64() == arrLen {
			return true, fmt.Sprintf("i = 0; i < %d; i++ with %d shards", k.Int64(), arrLen)
		}
	case token.LEQ:
		if k.Int64() == arrLen-1 {
			return true, fmt.Sprintf("i = 0; i <= %d; i++ with %d shards", k.Int64(), arrLen)
		}
	}
	return false, fmt.Sprintf("loop bound %s %d does not cover all %d shards", bo.Op, k.Int64(), arrLen)
}

func rangeLoopFull(ph *ssa.Phi, inc *ssa.BinOp, arrLen int64) (bool, string) {
	start := false
	for _, ed := range ph.Edges {
		if k, ok := ed.(*ssa.Const); ok && k.Value != nil && k.Int64() == -1 {
			start = true
		}
	}
	if !start {
		return false, "range index does not start at -1"
	}
	blk := ph.Block()
	iff, ok := blk.Instrs[len(blk.Instrs)-1].(*ssa.If)
	if !ok {
		return false, "range header has no condition"
	}
	bo, ok := iff.Cond.(*ssa.BinOp)
	if !ok || bo.X != inc || bo.Op != token.LSS {
		return false, "range condition not recognised"
	}
	if k, ok := bo.Y.(*ssa.Const); ok && k.Value != nil && k.Int64() == arrLen {
		return true, "range over the shard array"
	}
	if call, ok := bo.Y.(*ssa.Call); ok {
		if bi, ok := call.Common().Value.(*ssa.Builtin); ok && bi.Name() == "len" {
			return true, "range over the shard array"
		}
	}
	return false, "range bound not recognised"
}

// ---------------------------------------------------------------------------
// C01.R2 shard function.

func checkShardFunction(c *Ctx, p *Prog, R *BusRoles, rule string) {
	f := R.ShardFn
	pos := p.Pos(f.Pos())
	pure := map[string]bool{
		"hash/fnv.New32a": true, "hash/fnv.New32": true, "hash/fnv.New64a": true, "hash/fnv.New64": true,
		"invoke:Hash32.Write": true, "invoke:Hash32.Sum32": true, "invoke:Hash64.Write": true, "invoke:Hash64.Sum64": true,
		"invoke:Type.String": true, "invoke:Type.PkgPath": true, "invoke:Type.Name": true,
		"hash/maphash.String": true, "hash/maphash.Bytes": true,
	}
	ok := true
	var idxExpr ssa.Value
	loads := 0
	scanned := map[*ssa.Function]bool{}
	var scanFn func(g *ssa.Function, depth int)
	scanFn = func(g *ssa.Function, depth int) {
		if scanned[g] || depth > 3 {
			return
		}
		scanned[g] = true
		for _, b := range g.Blocks {
			for _, in := range b.Instrs {
				switch x := in.(type) {
				case *ssa.Call:
					n := calleeName(x.Common())
					if _, isB := x.Common().Value.(*ssa.Builtin); isB {
						continue
					}
					// a helper of the package (the hash moved into its own function) is held
					// to the same purity rules
					if sc := x.Common().StaticCallee(); sc != nil && PkgOf(sc) == PkgBus && len(sc.Blocks) > 0 && !x.Common().IsInvoke() {
						scanFn(sc, depth+1)
						continue
					}
					if !pure[n] {
						ok = false
						c.Violate(rule, "shard-fn/effects/"+n, p.Pos(in.Pos()), "the shard function calls "+n+", which is not in the table of pure hashing helpers: the same type might not always map to the same shard", nil)
					}
					if x.Common().IsInvoke() && strings.HasPrefix(n, "invoke:Type.") {
						if _, isParam := stripConv(x.Common().Value).(*ssa.Parameter); !isParam {
							ok = false
							c.Violate(rule, "shard-fn/hash-input", p.Pos(in.Pos()), "the hashed name is not taken from the event type parameter", nil)
						}
					}
				case *ssa.IndexAddr:
					if tn, fld, _, okf := fieldOfAddr(x.X); okf && tn == "EventBus" && fld == R.BusShards {
						idxExpr = x.Index
						loads++
					} else if _, isAlloc := x.X.(*ssa.Alloc); !isAlloc {
						ok = false
						c.Violate(rule, "shard-fn/effects/index", p.Pos(in.Pos()), "the shard function indexes something other than the shard array", nil)
					}
				case *ssa.UnOp:
					if x.Op == token.MUL {
						if g, isG := x.X.(*ssa.Global); isG {
							ok = false
							c.Violate(rule, "shard-fn/effects/global", p.Pos(in.Pos()), "the shard function reads package-level state "+g.Name(), nil)
						}
						if tn, fld, _, okf := fieldOfAddr(x.X); okf && !(tn == "EventBus" && fld == R.BusShards) {
							ok = false
							c.Violate(rule, "shard-fn/effects/field", p.Pos(in.Pos()), "the shard function reads mutable state "+tn+"."+fld, nil)
						}
					}
				case *ssa.Store, *ssa.MapUpdate, *ssa.Go, *ssa.Defer, *ssa.Send:
					if st, isSt := in.(*ssa.Store); isSt {
						if _, isAlloc := st.Addr.(*ssa.Alloc); isAlloc {
							continue
						}
						if ia, isIA := st.Addr.(*ssa.IndexAddr); isIA {
							if _, isAlloc := ia.X.(*ssa.Alloc); isAlloc {
								continue
							}
						}
					}
					ok = false
					c.Violate(rule, "shard-fn/effects/write", p.Pos(in.Pos()), "the shard function has a side effect ("+in.String()+")", nil)
				}
			}
		}
	}
	scanFn(f, 0)
	if loads != 1 {
		ok = false
		c.Violate(rule, "shard-fn/one-array-load", pos, fmt.Sprintf("the shard function indexes the shard array %d times (want exactly once)", loads), nil)
	}
	// index in range: mask with N-1 (N power of two == array length) or % N
	arrLen := int64(-1)
	if bs := structOf(R.BusT); bs != nil {
		for i := 0; i < bs.NumFields(); i++ {
			if bs.Field(i).Name() == R.BusShards {
				if a, isA := bs.Field(i).Type().Underlying().(*types.Array); isA {
					arrLen = a.Len()
				}
			}
		}
	}
	// the index may be computed by a helper of the package: look at what it returns
	if call, isCall := stripConv(idxExpr).(*ssa.Call); isCall && idxExpr != nil {
		if sc := call.Common().StaticCallee(); sc != nil && PkgOf(sc) == PkgBus {
			rets := returnsOf(sc)
			if len(rets) == 1 && len(rets[0].Results) == 1 {
				idxExpr = rets[0].Results[0]
			}
		}
	}
	if idxExpr != nil {
		inRange, why := indexInRange(idxExpr, arrLen)
		if !inRange {
			ok = false
			c.Violate(rule, "shard-fn/index-in-range", pos, why, nil)
		} else {
			c.Discharge(rule, "shard-fn/index-in-range", pos, why)
		}
	}
	if ok {
		c.Discharge(rule, "shard-fn/pure-function-of-type", pos, "only pure hashing helpers on the type's name and one load of a shard array element; no other shared state is read or written")
	}
	// the shard array elements are written only while the bus is constructed (the bus is an
	// object allocated by the writing function, or by every caller of the writing helper)
	n := 0
	ixShard := newIPIndex(p)
	for _, g := range p.FuncsIn(PkgBus) {
		for _, b := range g.Blocks {
			for _, in := range b.Instrs {
				st, isSt := in.(*ssa.Store)
				if !isSt {
					continue
				}
				ia, isIA := st.Addr.(*ssa.IndexAddr)
				if !isIA {
					continue
				}
				if tn, fld, base, okf := fieldOfAddr(ia.X); okf && tn == "EventBus" && fld == R.BusShards {
					n++
					if freshRegistration(ixShard, base, 0) {
						c.Discharge(rule, "shard-array/writer/"+FuncDisplay(g), p.Pos(in.Pos()), "shard array element written during construction only")
					} else {
						c.Violate(rule, "shard-array/writer/"+FuncDisplay(g), p.Pos(in.Pos()), "a shard array element is replaced outside the constructor: registrations in the old shard are lost and concurrent readers race", nil)
					}
				}
			}
		}
	}
	c.Floor(rule, "shard array writers", n, 1)
}

func indexInRange(idx ssa.Value, arrLen int64) (bool, string) {
	v := stripConv(idx)
	bo, ok := v.(*ssa.BinOp)
	if !ok {
		return false, "the shard index is not a masked / reduced hash value"
	}
	k, ok := bo.Y.(*ssa.Const)
	if !ok || k.Value == nil {
		return false, "the shard index is not reduced by a constant"
	}
	kv, _ := constant.Int64Val(constant.ToInt(k.Value))
	switch bo.Op {
	case token.AND:
		if arrLen > 0 && arrLen&(arrLen-1) == 0 && kv == arrLen-1 {
			return true, fmt.Sprintf("index = hash & %d with %d shards (power of two)", kv, arrLen)
		}
		return false, fmt.Sprintf("index = hash & %d does not match %d shards: some shards unreachable or index out of range", kv, arrLen)
	case token.REM:
		if kv == arrLen {
			return true, fmt.Sprintf("index = hash %% %d", kv)
		}
		return false, fmt.Sprintf("index = hash %% %d does not match %d shards", kv, arrLen)
	}
	return false, "unrecognised index reduction"
}

// ---------------------------------------------------------------------------
// C01.R3 snapshot isolation.

func checkSnapshot(c *Ctx, p *Prog, R *BusRoles, rule string) {
	f := R.LoopFn
	header := dispatchLoopHeader(R)
	if header == nil {
		c.Unresolved(rule, "UNRESOLVED-ANCHOR/dispatch-loop", "no dispatch loop in PublishContext")
		return
	}
	li := loopsOf(f)
	body := li.body[header]
	// the slice the loop indexes
	var ranged ssa.Value
	for b := range body {
		for _, in := range b.Instrs {
			if ia, ok := in.(*ssa.IndexAddr); ok && typeName(elemType(ia.X.Type())) == R.RegName() {
				if ranged == nil {
					ranged = ia.X
				}
			}
		}
	}
	// range-over-slice may also be lowered through a Range/Next (not for slices) — only IndexAddr here
	if ranged == nil {
		c.Unresolved(rule, "UNRESOLVED-ANCHOR/dispatch-loop/ranged-slice", "cannot find the slice the dispatch loop iterates over")
		return
	}
	pos := p.Pos(header.Instrs[0].Pos())
	ix := newIPIndex(p)
	// the loop may sit in a helper that is handed the snapshot: continue at the call site
	if prm, isPrm := stripConv(ranged).(*ssa.Parameter); isPrm {
		if up := ix.Up(prm); up != ssa.Value(prm) {
			ranged = up
			if in, ok := up.(ssa.Instruction); ok {
				f = in.Parent()
			}
		}
	}
	// the snapshot may be taken by a helper: continue inside it on what it returns
	if rets := ix.Returned(ranged, 0); len(rets) == 1 {
		if call, ok := stripConv(ranged).(*ssa.Call); ok {
			f = call.Common().StaticCallee()
			if o := f.Origin(); o != nil {
				f = o
			}
			ranged = rets[0]
		}
	}
	src, how := freshCopyOf(ranged)
	if src == nil && privateBuilt(ranged, R, 0, map[ssa.Value]bool{}) {
		c.Discharge(rule, "PublishContext/dispatch-loop/snapshot", pos, "the loop ranges over a slice built by this publish from nil/make through appends (never aliasing the registry list)")
		return
	}
	if src == nil {
		detail := "the dispatch loop iterates over " + describeValue(ranged) + ", which is not a private copy made by this publish: handlers run while other goroutines (or re-entrant calls) edit the same backing array"
		if _, ok := R.isRegistryLookup(ranged); ok {
			detail = "the dispatch loop iterates over the live registry slice instead of a private snapshot: an Unsubscribe or once-removal that shifts the backing array makes the loop skip or repeat registrations"
		}
		c.Violate(rule, "PublishContext/dispatch-loop/snapshot", pos, detail, nil)
		return
	}
	lk, ok := R.isRegistryLookup(src)
	if !ok {
		c.Violate(rule, "PublishContext/dispatch-loop/snapshot-source", pos, "the snapshot is copied from "+describeValue(src)+", not from a registry lookup", nil)
		return
	}
	c.Discharge(rule, "PublishContext/dispatch-loop/snapshot", pos, "the loop ranges over a fresh slice ("+how+") filled from the registry lookup")
	// the looked-up (live) slice has no use after the read lock is released
	var unlocks []ssa.Instruction
	for _, b := range f.Blocks {
		for _, in := range b.Instrs {
			if call, ok := in.(ssa.CallInstruction); ok {
				if kind, mu, ok := mutexOp(call.Common()); ok && (kind == "RUnlock" || kind == "Unlock") {
					if tn, fld, _, ok := fieldOfAddr(mu); ok && R.ShardT != nil && tn == R.ShardT.Obj().Name() && fld == R.ShardMu {
						if _, isDefer := in.(*ssa.Defer); !isDefer {
							unlocks = append(unlocks, in)
						}
					}
				}
			}
		}
	}
	okEscape := true
	for _, ref := range *lk.Referrers() {
		for _, u := range unlocks {
			if reaches(u, ref) && !reaches(ref, u) {
				okEscape = false
				c.Violate(rule, "PublishContext/snapshot/live-slice-escapes", p.Pos(ref.Pos()), "the live registry slice is still used after the shard lock was released ("+ref.String()+")", nil)
			}
		}
	}
	if okEscape {
		c.Discharge(rule, "PublishContext/snapshot/live-slice-escapes", p.Pos(lk.Pos()), fmt.Sprintf("none of the %d uses of the looked-up slice is reachable after the lock release", len(*lk.Referrers())))
	}
	// the copy covers the whole lookup: make(len(lookup)) + copy
	if ms, ok := stripConv(ranged).(*ssa.MakeSlice); ok {
		full := false
		if call, ok := ms.Len.(*ssa.Call); ok {
			if bi, ok := call.Common().Value.(*ssa.Builtin); ok && bi.Name() == "len" && sameValue(call.Common().Args[0], src) {
				full = true
			}
		}
		c.Check(full, rule, "PublishContext/snapshot/full-length", p.Pos(ms.Pos()), "snapshot length is len(lookup)", "the snapshot is not made with the length of the looked-up slice: registrations are dropped from (or nil entries added to) the publish")
	}
}

func (R *BusRoles) isRegistryLookup(v ssa.Value) (*ssa.Lookup, bool) {
	lk, ok := stripConv(v).(*ssa.Lookup)
	if !ok {
		return nil, false
	}
	if _, ok := R.isRegistryMapLoad(lk.X); !ok {
		return nil, false
	}
	return lk, true
}

// freshCopyOf: v is a slice freshly allocated in this function and filled from src.
func freshCopyOf(v ssa.Value) (src ssa.Value, how string) {
	switch x := stripConv(v).(type) {
	case *ssa.MakeSlice:
		for _, ref := range *x.Referrers() {
			if call, ok := ref.(*ssa.Call); ok {
				if bi, ok := call.Common().Value.(*ssa.Builtin); ok && bi.Name() == "copy" && call.Common().Args[0] == x {
					return call.Common().Args[1], "make + copy"
				}
			}
		}
	case *ssa.Call:
		n := calleeName(x.Common())
		if n == "slices.Clone" && len(x.Common().Args) == 1 {
			return x.Common().Args[0], "slices.Clone"
		}
		if bi, ok := x.Common().Value.(*ssa.Builtin); ok && bi.Name() == "append" && len(x.Common().Args) == 2 {
			if k, ok := x.Common().Args[0].(*ssa.Const); ok && k.Value == nil {
				return x.Common().Args[1], "append(nil, src...)"
			}
			if ms, ok := x.Common().Args[0].(*ssa.MakeSlice); ok {
				if k, ok := ms.Len.(*ssa.Const); ok && k.Value != nil && k.Int64() == 0 {
					return x.Common().Args[1], "append(make(0,n), src...)"
				}
			}
		}
	}
	return nil, ""
}

func describeValue(v ssa.Value) string {
	switch x := stripConv(v).(type) {
	case *ssa.Lookup:
		return "a map lookup result"
	case *ssa.Phi:
		return "a merged value (" + x.Comment + ")"
	case *ssa.Parameter:
		return "parameter " + x.Name()
	}
	return v.Name() + " (" + v.String() + ")"
}

// ---------------------------------------------------------------------------
// C02.R2 / C01.R5 registry write-backs.

// derivation classifies where a written-back slice value comes from.
type derivation struct {
	lookups []*ssa.Lookup
	fresh   []ssa.Value // freshly allocated registrations appended
	other   []ssa.Value // anything else (constants, parameters, unrelated values)
}

func deriveSlice(v ssa.Value, R *BusRoles, d *derivation, seen map[ssa.Value]bool) {
	v = stripConv(v)
	if v == nil || seen[v] {
		return
	}
	seen[v] = true
	switch x := v.(type) {
	case *ssa.Lookup:
		if _, ok := R.isRegistryMapLoad(x.X); ok {
			d.lookups = append(d.lookups, x)
		} else {
			d.other = append(d.other, x)
		}
	case *ssa.Phi:
		for _, e := range x.Edges {
			deriveSlice(e, R, d, seen)
		}
	case *ssa.Slice:
		// slicing a varargs array holding a registration, or a sub-slice of a lookup
		if a, ok := x.X.(*ssa.Alloc); ok {
			for _, ref := range *a.Referrers() {
				if ia, ok := ref.(*ssa.IndexAddr); ok {
					for _, r2 := range *ia.Referrers() {
						if st, ok := r2.(*ssa.Store); ok && st.Addr == ia {
							d.fresh = append(d.fresh, st.Val)
						}
					}
				}
			}
			return
		}
		deriveSlice(x.X, R, d, seen)
	case *ssa.Call:
		if bi, ok := x.Common().Value.(*ssa.Builtin); ok && bi.Name() == "append" {
			for _, a := range x.Common().Args {
				deriveSlice(a, R, d, seen)
			}
			return
		}
		if n := calleeName(x.Common()); n == "slices.Delete" || n == "slices.Clone" || n == "slices.Insert" {
			deriveSlice(x.Common().Args[0], R, d, seen)
			return
		}
		d.other = append(d.other, x)
	case *ssa.MakeSlice:
		// a fresh slice: where is it filled from?
		if src, _ := freshCopyOf(x); src != nil {
			deriveSlice(src, R, d, seen)
			return
		}
		d.other = append(d.other, x)
	default:
		d.other = append(d.other, v)
	}
}

func checkWriteBacks(c *Ctx, p *Prog, R *BusRoles, rule string) {
	n := 0
	for _, a := range registryAccesses(p, R) {
		if a.Kind != "update" {
			continue
		}
		n++
		fn := FuncDisplay(a.Fn)
		construct := fn + "/registry-write-back"
		pos := p.Pos(a.HomeIn.Pos())
		homeUp, _ := a.HomeIn.(*ssa.MapUpdate)
		if homeUp == nil {
			continue
		}
		d := &derivation{}
		deriveSlice(a.Val, R, d, map[ssa.Value]bool{})
		if len(d.other) > 0 {
			c.Violate(rule, construct+"/derivation", pos, fmt.Sprintf("the list written back to the registry is (partly) %s rather than the current list looked up under the write lock: registrations added or removed by others in the meantime are lost", describeValue(d.other[0])), nil)
			continue
		}
		if len(d.lookups) == 0 {
			c.Violate(rule, construct+"/derivation", pos, "the list written back to the registry is not derived from a registry lookup", nil)
			continue
		}
		ok := true
		for _, lk := range d.lookups {
			if !sameValue(lk.Index, homeUp.Key) || !sameMapField(lk.X, homeUp.Map) {
				ok = false
				c.Violate(rule, construct+"/same-key", pos, "the list written back was looked up under a different key or in a different shard", nil)
			}
			// no release of the shard lock between lookup and write-back, and the
			// lookup happens with the write lock taken
			for _, rel := range lockReleasesOf(a.Home, R) {
				if reaches(lk, rel) && reaches(rel, a.HomeIn) {
					ok = false
					c.Violate(rule, construct+"/one-critical-section", p.Pos(rel.Pos()), "the shard lock is released between the lookup and the write-back of the registry list (check-then-act): a concurrent edit in the window is overwritten or an unrelated registration removed", nil)
				}
			}
			if !dominatedByWriteLock(lk, a.Home, R) {
				ok = false
				c.Violate(rule, construct+"/lookup-under-write-lock", p.Pos(lk.Pos()), "the list that is written back is looked up before the write lock is taken", nil)
			}
		}
		if ok {
			c.Discharge(rule, construct, pos, fmt.Sprintf("written-back list derives only from %d lookup(s) of the same key made inside the same write-locked region (+%d fresh registration(s))", len(d.lookups), len(d.fresh)))
		}
	}
	c.Floor(rule, "registry write-backs", n, 4)
}

func sameMapField(a, b ssa.Value) bool {
	ta, fa, ba, ok1 := fieldLoad(a)
	tb, fb, bb, ok2 := fieldLoad(b)
	return ok1 && ok2 && ta == tb && fa == fb && stripConv(ba) == stripConv(bb)
}

func lockReleasesOf(f *ssa.Function, R *BusRoles) []ssa.Instruction {
	var out []ssa.Instruction
	for _, b := range f.Blocks {
		for _, in := range b.Instrs {
			if _, isDefer := in.(*ssa.Defer); isDefer {
				continue
			}
			if call, ok := in.(ssa.CallInstruction); ok {
				if kind, mu, ok := mutexOp(call.Common()); ok && (kind == "RUnlock" || kind == "Unlock") {
					if tn, fld, _, ok := fieldOfAddr(mu); ok && R.ShardT != nil && tn == R.ShardT.Obj().Name() && fld == R.ShardMu {
						out = append(out, in)
					}
				}
			}
		}
	}
	return out
}

func dominatedByWriteLock(in ssa.Instruction, f *ssa.Function, R *BusRoles) bool {
	for _, b := range f.Blocks {
		for _, x := range b.Instrs {
			if _, isDefer := x.(*ssa.Defer); isDefer {
				continue
			}
			if call, ok := x.(ssa.CallInstruction); ok {
				if kind, mu, ok := mutexOp(call.Common()); ok && kind == "Lock" {
					if tn, fld, _, ok := fieldOfAddr(mu); ok && R.ShardT != nil && tn == R.ShardT.Obj().Name() && fld == R.ShardMu {
						if b == in.Block() && instrIndex(x) < instrIndex(in) || (b != in.Block() && b.Dominates(in.Block())) {
							return true
						}
					}
				}
			}
		}
	}
	return false
}

// privateBuilt: v is built inside this function from nil / make through appends whose
// first operand is itself privately built (so it never aliases a registry list).
func privateBuilt(v ssa.Value, R *BusRoles, d int, seen map[ssa.Value]bool) bool {
	v = stripConv(v)
	if v == nil || d > 8 {
		return false
	}
	if seen[v] {
		return true
	}
	seen[v] = true
	switch x := v.(type) {
	case *ssa.Const:
		return x.Value == nil
	case *ssa.MakeSlice:
		return true
	case *ssa.Phi:
		for _, e := range x.Edges {
			if !privateBuilt(e, R, d+1, seen) {
				return false
			}
		}
		return true
	case *ssa.Call:
		if bi, ok := x.Common().Value.(*ssa.Builtin); ok && bi.Name() == "append" {
			return privateBuilt(x.Common().Args[0], R, d+1, seen)
		}
		if calleeName(x.Common()) == "slices.Clone" {
			return true
		}
	}
	return false
}

// checkPublishKeyConsistency: a publish looks its registrations up under the dynamic type
// of the published value; every other registry access the publish makes (once-handler
// retirement, in PublishContext itself or in a helper it calls) must use that same kind
// of key. A helper that re-derives the key from the static type parameter misses the
// entry whenever T is an interface type (the spent Once registration is never removed).
func checkPublishKeyConsistency(c *Ctx, p *Prog, R *BusRoles, rule string) {
	reach := map[*ssa.Function]bool{}
	for _, f := range reachFuncs(p, R.PublishFn, PkgBus) {
		reach[f] = true
	}
	origins := map[string][]regAccess{}
	n := 0
	for _, a := range registryAccesses(p, R) {
		if a.SKind != "fn" || !(a.Fn == R.PublishFn || (reach[a.Home] && a.Fn == a.Home)) {
			continue
		}
		n++
		o := typeKeyOrigin(a.SKey)
		if i := strings.Index(o, ":"); i >= 0 {
			o = o[:i]
		}
		origins[o] = append(origins[o], a)
	}
	bad := false
	for o, as := range origins {
		if o == "dynamic" {
			continue
		}
		for _, a := range as {
			bad = true
			c.Violate(rule, "PublishContext/registry-key-consistency/"+FuncDisplay(a.Home)+"/"+a.Kind, p.Pos(a.HomeIn.Pos()), fmt.Sprintf("a registry %s made on behalf of a publish is keyed by a %q type key, while the publish looks its registrations up under the dynamic type of the published value: for an interface-typed T the two differ and the access misses the entry", a.Kind, o), nil)
		}
	}
	if !bad && n > 0 {
		c.Discharge(rule, "PublishContext/registry-key-consistency", p.Pos(R.PublishFn.Pos()), fmt.Sprintf("all %d keyed registry accesses made by a publish use the dynamic type of the published value", n))
	}
	c.Floor(rule, "keyed registry accesses of a publish", n, 2)
}
