package main

// C10.R2 / C11.R5: the next offset a paged Read returns is the offset of the LAST event it
// returns (provenance alone — "depends on some event's Offset" — is checked by
// checkReadNextOffset; this rule decides *which* event).
//
// Two idioms are recognised on the value returned as next offset:
//   (A) incremental: a variable updated inside the loop that fills the result. Path rule:
//       by the end of every iteration that appends an event to the result (back edge,
//       break, return) the variable holds that event's Offset.
//   (B) positional: result[len(result)-1].Offset of the returned slice.
// Any other event-derived value is reported.

import (
	"fmt"
	"go/token"
	"go/types"
	"strings"

	"golang.org/x/tools/go/ssa"
)

type nextOffRule struct {
	BaseRule
	p   *Prog
	web map[*ssa.Phi]bool
}

func (r *nextOffRule) Inline(fn *ssa.Function) bool { return false }
func (r *nextOffRule) PredOK(string) bool           { return false }

func splitNO(s string) (string, string) {
	i := strings.Index(s, "|")
	return s[:i], s[i+1:]
}

func (r *nextOffRule) OnInstr(e *Engine, st *State, fc *FrameCtx, in ssa.Instruction) bool {
	if _, isDefer := in.(*ssa.Defer); isDefer && !st.ExecDefer {
		return false
	}
	la, cur := splitNO(st.Sigma)
	switch x := in.(type) {
	case *ssa.Call:
		if bi, ok := x.Common().Value.(*ssa.Builtin); ok && bi.Name() == "append" && len(x.Common().Args) == 2 && isStoredEventSlice(x.Type()) {
			if els := variadicElems(x.Common().Args[1]); len(els) == 1 {
				la = "cur:" + stripConv(els[0]).Name()
				st.Note(in.Pos(), "event %s appended to the result", stripConv(els[0]).Name())
			}
		}
	case *ssa.Return:
		if fc.parent == nil && strings.HasPrefix(la, "cur:") && cur != strings.TrimPrefix(la, "cur:") {
			e.Report(st, in.Pos(), "next-offset-is-the-last-returned-event's", "a path returns after appending an event to the result without recording that event's offset as the next offset (it still holds %s): a reader continuing from it gets the last returned event again", describeCur(cur))
		}
	}
	st.Sigma = la + "|" + cur
	return false
}

func describeCur(cur string) string {
	switch cur {
	case "init":
		return "its initial value"
	case "old":
		return "the offset of an event of an earlier iteration"
	}
	return "the offset of " + cur
}

func (r *nextOffRule) OnEdge(e *Engine, st *State, fc *FrameCtx, from, to *ssa.BasicBlock) {
	if fc.parent != nil {
		return
	}
	la, cur := splitNO(st.Sigma)
	idx := -1
	for i, pr := range to.Preds {
		if pr == from {
			idx = i
		}
	}
	for _, in := range to.Instrs {
		ph, ok := in.(*ssa.Phi)
		if !ok {
			break
		}
		if !r.web[ph] || idx < 0 {
			continue
		}
		sel := stripConv(ph.Edges[idx])
		if p2, ok := sel.(*ssa.Phi); ok && r.web[p2] {
			continue // carries the variable's current value
		}
		if tn, fld, base, ok := fieldLoad(sel); ok && tn == "StoredEvent" && fld == "Offset" {
			cur = stripConv(base).Name()
		} else {
			cur = "init"
		}
	}
	if to.Dominates(from) { // back edge: end of an iteration
		if strings.HasPrefix(la, "cur:") {
			if cur != strings.TrimPrefix(la, "cur:") {
				e.Report(st, token.NoPos, "next-offset-is-the-last-returned-event's", "an iteration appends an event to the result and ends without recording that event's offset as the next offset")
			}
			la, cur = "old", "old"
		}
	}
	st.Sigma = la + "|" + cur
}

func isStoredEventSlice(t types.Type) bool {
	sl, ok := t.Underlying().(*types.Slice)
	if !ok {
		return false
	}
	pt, ok := sl.Elem().Underlying().(*types.Pointer)
	return ok && typeName(pt.Elem()) == "StoredEvent"
}

func checkNextOffsetIsLast(c *Ctx, p *Prog, pkg, typ, rule string) {
	f := p.Method(pkg, typ, "Read")
	if f == nil {
		c.Unresolved(rule, "UNRESOLVED-ANCHOR/"+typ+".Read", "method not found")
		return
	}
	name := shortPkg(pkg) + "." + typ + ".Read"
	web := map[*ssa.Phi]bool{}
	incremental, positional, other := 0, 0, 0
	var bad []string
	var visit func(v ssa.Value, res0 ssa.Value)
	seen := map[ssa.Value]bool{}
	visit = func(v ssa.Value, res0 ssa.Value) {
		v = stripConv(v)
		if seen[v] {
			return
		}
		seen[v] = true
		switch x := v.(type) {
		case *ssa.Phi:
			web[x] = true
			for _, ed := range x.Edges {
				visit(ed, res0)
			}
			return
		case *ssa.Parameter, *ssa.Const:
			return
		}
		if tn, fld, base, ok := fieldLoad(v); ok && tn == "StoredEvent" && fld == "Offset" {
			// positional: S[len(S)-1] of the returned slice
			if ld, isLd := stripConv(base).(*ssa.UnOp); isLd && ld.Op == token.MUL {
				if ia, isIA := ld.X.(*ssa.IndexAddr); isIA {
					switch {
					case lastIndexOf(ia.Index, ia.X) && sameSliceWeb(ia.X, res0):
						positional++
						return
					case sameSliceWeb(ia.X, res0):
						other++
						bad = append(bad, describeValue(ia))
						return
					}
					// an element of the sequence being iterated: the incremental idiom
				}
			}
			incremental++
			return
		}
		// anything else (a field of a response, a call result): not decided here
	}
	n := 0
	for _, ret := range returnsOf(f) {
		if len(ret.Results) != 3 {
			continue
		}
		if k, ok := resolveResult(ret, 2).(*ssa.Const); !(ok && k.Value == nil) {
			continue
		}
		n++
		visit(resolveResult(ret, 1), resolveResult(ret, 0))
	}
	construct := name + "/next-offset-is-the-last-returned-event's"
	pos := p.Pos(f.Pos())
	if other > 0 {
		c.Violate(rule, construct, pos, "the next offset is the offset of "+strings.Join(bad, ", ")+", which is not the last element of the returned slice", nil)
		return
	}
	if incremental > 0 {
		e := NewEngine(p)
		e.Run(&nextOffRule{p: p, web: web}, f, "|init")
		c.Stats["product_states"] += e.States
		for _, fd := range e.Findings {
			c.Violate(rule, name+"/"+fd.Construct, p.Pos(fd.Pos), fd.Msg, fd.Trace)
		}
		if len(e.Findings) == 0 {
			c.Discharge(rule, construct, pos, fmt.Sprintf("incremental idiom: on all paths an iteration that appends an event records its offset before it ends (%d states)", e.States))
		}
		return
	}
	if positional > 0 {
		c.Discharge(rule, construct, pos, "positional idiom: result[len(result)-1].Offset of the returned slice")
		return
	}
	// no event-derived next offset: provenance rule (checkReadNextOffset) reports that case
	c.Discharge(rule, construct+"/not-event-derived", pos, "the next offset is not derived from a returned event here (decided by the provenance rule)")
}

// lastIndexOf: idx == len(S) - 1.
func lastIndexOf(idx, S ssa.Value) bool {
	bo, ok := stripConv(idx).(*ssa.BinOp)
	if !ok || bo.Op != token.SUB || !isConstInt(bo.Y, 1) {
		return false
	}
	call, ok := stripConv(bo.X).(*ssa.Call)
	if !ok {
		return false
	}
	bi, ok := call.Common().Value.(*ssa.Builtin)
	return ok && bi.Name() == "len" && sameSliceWeb(call.Common().Args[0], S)
}

// sameSliceWeb: a and b are the same slice value, or loads of the same local cell.
func sameSliceWeb(a, b ssa.Value) bool {
	a, b = stripConv(a), stripConv(b)
	if a == b {
		return true
	}
	la, ok1 := a.(*ssa.UnOp)
	lb, ok2 := b.(*ssa.UnOp)
	return ok1 && ok2 && la.Op == token.MUL && lb.Op == token.MUL && la.X == lb.X
}
