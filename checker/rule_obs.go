package main

// C20: observability pairing, context threading and the OpenTelemetry implementation.

import (
	"fmt"
	"go/constant"
	"go/token"
	"go/types"
	"strings"

	"golang.org/x/tools/go/ssa"
)

// checkObsThreading (C20.R2): each complete callback receives the context its start
// callback returned; handler and persist contexts descend from the publish context.
func checkObsThreading(c *Ctx, p *Prog, R *BusRoles, rule string) {
	e := NewEngine(p)
	flow := NewFlow(p, e.cells)
	type site struct {
		fn   *ssa.Function
		in   ssa.Instruction
		m    string
		args []ssa.Value
	}
	var sites []site
	for _, f := range p.FuncsIn(PkgBus) {
		for _, b := range f.Blocks {
			for _, in := range b.Instrs {
				if m, cc, ok := obsCall(in); ok {
					sites = append(sites, site{f, in, m, cc.Args})
				}
			}
		}
	}
	pair := map[string]string{"OnPublishComplete": "OnPublishStart", "OnHandlerComplete": "OnHandlerStart", "OnPersistComplete": "OnPersistStart"}
	n := 0
	for _, s := range sites {
		os := flow.Origins(s.args[0])
		construct := FuncDisplay(s.fn) + "/" + s.m + "/context"
		n++
		if start, isComplete := pair[s.m]; isComplete {
			want := "call:invoke:Observability." + start + "#0"
			okAll, bad := onlyOrigins(os, want, "param:", "call:invoke:Observability.OnPublishStart#0")
			if hasOrigin(os, want) && okAll {
				c.Discharge(rule, construct, p.Pos(s.in.Pos()), s.m+" receives the context returned by "+start)
			} else {
				c.Violate(rule, construct, p.Pos(s.in.Pos()), s.m+" is not given the context returned by "+start+" (origins "+strings.Join(os, ",")+" "+bad+"): the span started by the start callback is never ended / the wrong span is ended", nil)
			}
			continue
		}
		// start callbacks: the context descends from the function's own ctx parameter only
		// the context variable is reassigned with the callback's own result, which a
		// flow-insensitive view of the variable also sees as an origin
		okAll, bad := onlyOrigins(os, "param:", "call:invoke:Observability."+s.m+"#0", "call:invoke:Observability.OnPublishStart#0")
		isCtxParam := false
		for _, o := range os {
			if strings.HasSuffix(o, ".ctx") {
				isCtxParam = true
			}
		}
		if okAll && isCtxParam {
			c.Discharge(rule, construct, p.Pos(s.in.Pos()), s.m+" receives a context descending from the caller's ctx parameter (through context.With* only)")
		} else {
			c.Violate(rule, construct, p.Pos(s.in.Pos()), s.m+" is given a context that does not descend from the publish context (origin "+bad+"): its span becomes a root span of a new trace and loses the publisher's values/cancellation", nil)
		}
	}
	c.Floor(rule, "observability call sites", n, 6)
	// the context handed to Append is the persist context (descends from persist's ctx param / OnPersistStart)
	for _, b := range R.PersistFn.Blocks {
		for _, in := range b.Instrs {
			if call, ok := in.(*ssa.Call); ok && call.Common().IsInvoke() && call.Common().Method.Name() == "Append" {
				os := flow.Origins(call.Common().Args[0])
				okAll, bad := onlyOrigins(os, "param:", "call:invoke:Observability.OnPersistStart#0", "call:invoke:Observability.OnPublishStart#0")
				c.Check(okAll && len(os) > 0, rule, "persist-fn/append/context", p.Pos(in.Pos()), "Append receives the persist context", "Append is given a context that does not descend from the publish context (origin "+bad+")")
			}
		}
	}
	// the error given to OnHandlerComplete / OnPersistComplete: checked by the frames / persist automata
}

// otelRule explores one method of the OpenTelemetry implementation.
type otelRule struct {
	BaseRule
	counts   map[string]int
	errKey   string
	kind     string            // "start" or "complete"
	instr    map[string]string // field name -> role (by the instrument's public name)
	selected map[string]string
}

func (r *otelRule) Inline(fn *ssa.Function) bool { return PkgOf(fn) == PkgOtel }
func (r *otelRule) PredOK(string) bool           { return true }

// sigma: comma-separated "name=count" sorted
func bump(sigma, name string) string {
	m := map[string]int{}
	for _, kv := range strings.Split(sigma, ",") {
		if kv == "" {
			continue
		}
		var k string
		var v int
		parts := strings.SplitN(kv, "=", 2)
		k = parts[0]
		fmt.Sscanf(parts[1], "%d", &v)
		m[k] = v
	}
	if m[name] < 3 {
		m[name]++
	}
	var ks []string
	for k := range m {
		ks = append(ks, k)
	}
	sortStrings(ks)
	var out []string
	for _, k := range ks {
		out = append(out, fmt.Sprintf("%s=%d", k, m[k]))
	}
	return strings.Join(out, ",")
}

func getCount(sigma, name string) int {
	for _, kv := range strings.Split(sigma, ",") {
		parts := strings.SplitN(kv, "=", 2)
		if len(parts) == 2 && parts[0] == name {
			var v int
			fmt.Sscanf(parts[1], "%d", &v)
			return v
		}
	}
	return 0
}

// setEntry records a one-off marker in sigma; a marker with the same prefix up to the last
// '@' (an earlier selection at the same call) is replaced.
func setEntry(sigma, name string) string {
	pre := name[:strings.LastIndex(name, "@")+1]
	var ks []string
	for _, kv := range strings.Split(sigma, ",") {
		if kv != "" && !strings.HasPrefix(kv, pre) {
			ks = append(ks, kv)
		}
	}
	ks = append(ks, name+"=1")
	sortStrings(ks)
	return strings.Join(ks, ",")
}

func sortStrings(s []string) {
	for i := 1; i < len(s); i++ {
		for j := i; j > 0 && s[j] < s[j-1]; j-- {
			s[j], s[j-1] = s[j-1], s[j]
		}
	}
}

func (r *otelRule) OnInstr(e *Engine, st *State, fc *FrameCtx, in ssa.Instruction) bool {
	if _, isDefer := in.(*ssa.Defer); isDefer && !st.ExecDefer {
		return false
	}
	// an instrument selected by an explored helper: remember which field it returned
	if ret, isRet := in.(*ssa.Return); isRet && len(ret.Results) == 1 && fc.parent != nil {
		if site, ok := fc.site.(*ssa.Call); ok {
			if t2, fld, _, ok := fieldLoad(ret.Results[0]); ok && t2 == "Observability" {
				if r.selected == nil {
					r.selected = map[string]string{}
				}
				st.Sigma = setEntry(st.Sigma, "sel@"+fc.parent.id+":"+site.Name()+"@"+fld)
			}
		}
		return false
	}
	ci, ok := in.(ssa.CallInstruction)
	if !ok {
		return false
	}
	c := ci.Common()
	if !c.IsInvoke() {
		return false
	}
	tn := typeName(c.Value.Type())
	switch {
	case tn == "Tracer" && c.Method.Name() == "Start":
		st.Sigma = bump(st.Sigma, "span-start")
	case tn == "Span" && c.Method.Name() == "End":
		st.Sigma = bump(st.Sigma, "span-end")
	case (tn == "Int64Counter" || tn == "Float64Histogram") && (c.Method.Name() == "Add" || c.Method.Name() == "Record"):
		t2, fld, _, ok := fieldLoad(c.Value)
		if call, isCall := stripConv(c.Value).(*ssa.Call); !ok && isCall {
			// selected by a helper explored on this path
			pre := "sel@" + fc.id + ":" + call.Name() + "@"
			for _, kv := range strings.Split(st.Sigma, ",") {
				if strings.HasPrefix(kv, pre) {
					t2, fld, ok = "Observability", strings.TrimSuffix(kv[len(pre):], "=1"), true
				}
			}
		}
		if !ok {
			// the instrument may have been handed to a helper as an argument
			cn := e.CanonS(fc, c.Value)
			if i := strings.LastIndex(cn, ")."); i >= 0 && !strings.ContainsAny(cn[i+2:], "()[]") {
				t2, fld, ok = "Observability", cn[i+2:], true
			}
		}
		if ok && t2 == "Observability" {
			if role, ok := r.instr[fld]; ok {
				fld = role
			}
			st.Sigma = bump(st.Sigma, fld)
			if c.Method.Name() == "Add" && !isConstInt(c.Args[1], 1) {
				e.Report(st, in.Pos(), FuncDisplay(fc.fn)+"/counter-increment/"+fld, "counter %s is incremented by something other than the constant 1", fld)
			}
		}
	}
	return false
}

func (r *otelRule) OnExit(e *Engine, st *State, kind ExitKind) {
	if kind != ExitReturn {
		return
	}
	key := st.Sigma
	// classify by the err parameter's nil-ness when known
	if r.errKey != "" {
		if v, known := st.Pred(r.errKey); known {
			if v {
				key = "err=nil|" + key
			} else {
				key = "err!=nil|" + key
			}
		} else {
			key = "err=?|" + key
		}
	}
	r.counts[key]++
}

type otelSpec struct {
	method   string
	kind     string
	counter  string // incremented exactly once on every path (start callbacks)
	duration string // recorded exactly once (complete callbacks)
	errCtr   string // incremented exactly once iff err != nil (complete callbacks)
}

func checkOtel(c *Ctx, p *Prog, rule string) {
	specs := []otelSpec{
		{"OnPublishStart", "start", "publishCounter", "", ""},
		{"OnPublishComplete", "complete", "", "", ""},
		{"OnHandlerStart", "start", "handlerCounter", "", ""},
		{"OnHandlerComplete", "complete", "", "handlerDuration", "handlerErrors"},
		{"OnPersistStart", "start", "persistCounter", "", ""},
		{"OnPersistComplete", "complete", "", "persistDuration", "persistErrors"},
	}
	allCounters := []string{"publishCounter", "handlerCounter", "handlerDuration", "handlerErrors", "persistCounter", "persistDuration", "persistErrors"}
	// the instruments are identified by their public metric names, not by field names
	byMetric := map[string]string{
		"eventbus.publish.count": "publishCounter", "eventbus.handler.count": "handlerCounter", "eventbus.handler.duration": "handlerDuration",
		"eventbus.handler.errors": "handlerErrors", "eventbus.persist.count": "persistCounter", "eventbus.persist.duration": "persistDuration",
		"eventbus.persist.errors": "persistErrors",
	}
	instr := map[string]string{}
	// an instrument field is whatever is assigned the result of a meter call whose name
	// argument (at the call itself or at the call of the helper wrapping it) is one of the
	// public metric names — wherever in the package that assignment sits
	var constsOf func(v ssa.Value, d int) []string
	constsOf = func(v ssa.Value, d int) []string {
		if d > 4 {
			return nil
		}
		switch x := stripConv(v).(type) {
		case *ssa.Extract:
			return constsOf(x.Tuple, d+1)
		case *ssa.Call:
			var out []string
			for _, a := range x.Common().Args {
				if k, ok := stripConv(a).(*ssa.Const); ok && k.Value != nil && k.Value.Kind() == constant.String {
					out = append(out, constant.StringVal(k.Value))
				}
			}
			return out
		case *ssa.UnOp:
			if al, ok := x.X.(*ssa.Alloc); ok {
				var out []string
				for _, ref := range *al.Referrers() {
					if st, ok := ref.(*ssa.Store); ok && st.Addr == al {
						out = append(out, constsOf(st.Val, d+1)...)
					}
				}
				return out
			}
		case *ssa.Phi:
			var out []string
			for _, ed := range x.Edges {
				out = append(out, constsOf(ed, d+1)...)
			}
			return out
		}
		return nil
	}
	for _, nf := range p.FuncsIn(PkgOtel) {
		for _, b := range nf.Blocks {
			for _, in := range b.Instrs {
				st, ok := in.(*ssa.Store)
				if !ok {
					continue
				}
				tn, fld, _, ok := fieldOfAddr(st.Addr)
				if !ok || tn != "Observability" {
					continue
				}
				for _, name := range constsOf(st.Val, 0) {
					if role, ok := byMetric[name]; ok {
						instr[fld] = role
					}
				}
			}
		}
	}
	if len(instr) != len(byMetric) {
		// table-driven construction: a constant table whose rows pair a metric name with a
		// binder built around a field selector (`func(o) *I { return &o.field }`)
		if op := p.SPkgs[PkgOtel]; op != nil {
			for _, mem := range op.Members {
				g, ok := mem.(*ssa.Global)
				if !ok {
					continue
				}
				rows, ok := globalTableRows(p, g)
				if !ok {
					continue
				}
				for _, row := range rows {
					role := ""
					for _, fv := range row.fields {
						if k, ok := stripConv(fv).(*ssa.Const); ok && k.Value != nil && k.Value.Kind() == constant.String {
							if r, ok := byMetric[constant.StringVal(k.Value)]; ok {
								role = r
							}
						}
					}
					if role == "" {
						continue
					}
					for _, fv := range row.fields {
						for _, fn := range funcsIn(fv, 0) {
							for _, ret := range returnsOf(fn) {
								if len(ret.Results) != 1 {
									continue
								}
								if tn, fld, _, ok := fieldOfAddr(ret.Results[0]); ok && tn == "Observability" {
									instr[fld] = role
								}
							}
						}
					}
				}
			}
		}
	}
	if len(instr) != len(byMetric) {
		c.Unresolved(rule, "UNRESOLVED-ANCHOR/otel.New/instruments", fmt.Sprintf("found %d of %d instruments by their metric names", len(instr), len(byMetric)))
	}
	for _, sp := range specs {
		f := p.Method(PkgOtel, "Observability", sp.method)
		if f == nil {
			c.Unresolved(rule, "UNRESOLVED-ANCHOR/otel.Observability."+sp.method, "method not found")
			continue
		}
		e := NewEngine(p)
		r := &otelRule{counts: map[string]int{}, kind: sp.kind, instr: instr}
		if sp.kind == "complete" && len(f.Params) >= 4 {
			r.errKey = nilKey(e.CanonS(nil, f.Params[3]))
		}
		e.Run(r, f, "")
		c.Stats["product_states"] += e.States
		name := "otel." + sp.method
		ok := true
		for cls := range r.counts {
			sig := cls
			errState := ""
			if i := strings.Index(cls, "|"); i >= 0 {
				errState, sig = cls[:i], cls[i+1:]
			}
			bad := func(format string, a ...any) {
				ok = false
				c.Violate(rule, name+"/"+fmt.Sprintf(format, a...), p.Pos(f.Pos()), fmt.Sprintf("on a path of %s (%s): %s", sp.method, cls, fmt.Sprintf(format, a...)), nil)
			}
			if sp.kind == "start" {
				if getCount(sig, "span-start") != 1 {
					bad("span-started-exactly-once (got %d)", getCount(sig, "span-start"))
				}
				if getCount(sig, "span-end") != 0 {
					bad("no-span-ended-in-start")
				}
				if getCount(sig, sp.counter) != 1 {
					bad("%s-incremented-exactly-once (got %d)", sp.counter, getCount(sig, sp.counter))
				}
				for _, other := range allCounters {
					if other != sp.counter && getCount(sig, other) != 0 {
						bad("foreign-counter-%s-touched", other)
					}
				}
			} else {
				if getCount(sig, "span-end") != 1 {
					bad("span-ended-exactly-once (got %d)", getCount(sig, "span-end"))
				}
				if getCount(sig, "span-start") != 0 {
					bad("no-span-started-in-complete")
				}
				if sp.duration != "" && getCount(sig, sp.duration) != 1 {
					bad("%s-recorded-exactly-once (got %d)", sp.duration, getCount(sig, sp.duration))
				}
				if sp.errCtr != "" {
					n := getCount(sig, sp.errCtr)
					switch errState {
					case "err!=nil":
						if n != 1 {
							bad("%s-incremented-once-on-error (got %d)", sp.errCtr, n)
						}
					case "err=nil":
						if n != 0 {
							bad("%s-not-incremented-without-error (got %d)", sp.errCtr, n)
						}
					default:
						bad("error-parameter-not-tested")
					}
				}
				for _, other := range allCounters {
					if other != sp.duration && other != sp.errCtr && getCount(sig, other) != 0 {
						bad("foreign-counter-%s-touched", other)
					}
				}
			}
		}
		if len(r.counts) == 0 {
			ok = false
			c.Unresolved(rule, name+"/paths", "no path explored")
		}
		if ok {
			var detail string
			if sp.kind == "start" {
				detail = "every path: one span started, " + sp.counter + " += 1, nothing else"
			} else {
				detail = "every path: the context's span ended exactly once"
				if sp.duration != "" {
					detail += ", " + sp.duration + " recorded once, " + sp.errCtr + " += 1 iff err != nil"
				}
			}
			c.Discharge(rule, name+"/span-and-counter-discipline", p.Pos(f.Pos()), detail)
		}
		// context provenance inside the method
		checkOtelContext(c, p, f, sp, rule)
	}
}

func checkOtelContext(c *Ctx, p *Prog, f *ssa.Function, sp otelSpec, rule string) {
	e := NewEngine(p)
	flow := NewFlow(p, e.cells)
	name := "otel." + sp.method
	ctxParam := "param:" + FuncDisplay(f) + "." + f.Params[1].Name()
	for _, b := range f.Blocks {
		for _, in := range b.Instrs {
			call, ok := in.(*ssa.Call)
			if !ok {
				continue
			}
			cc := call.Common()
			switch {
			case cc.IsInvoke() && typeName(cc.Value.Type()) == "Tracer" && cc.Method.Name() == "Start":
				os := flow.Origins(cc.Args[0])
				okAll, bad := onlyOrigins(os, ctxParam, "const:")
				// WithValue keys/values are constants or parameters
				okAll2, _ := onlyOrigins(os, "param:", "const:")
				c.Check((okAll || okAll2) && hasOrigin(os, ctxParam), rule, name+"/span-parent-is-the-given-context", p.Pos(in.Pos()), "the span is started in a context derived from the method's ctx parameter (context.WithValue only)", "the span is started in a context that does not (only) derive from the given context (origin "+bad+"): it is not a child of the publish span, or it loses the caller's cancellation/values")
				// the returned context is the one Start returned
				for _, ret := range returnsOf(f) {
					ex, ok := stripConv(ret.Results[0]).(*ssa.Extract)
					c.Check(ok && ex.Tuple == ssa.Value(call) && ex.Index == 0, rule, name+"/returns-the-span-context", p.Pos(ret.Pos()), "returns the context Start returned (carrying the span)", "the start callback does not return the context tracer.Start returned: the complete callback cannot find the span, which is never ended")
				}
			case calleeName(cc) == "go.opentelemetry.io/otel/trace.SpanFromContext":
				os := flow.Origins(cc.Args[0])
				okAll, bad := onlyOrigins(os, ctxParam)
				c.Check(okAll && len(os) > 0, rule, name+"/ends-the-span-of-the-given-context", p.Pos(in.Pos()), "the span is taken from the method's ctx parameter", "the completed span is not the one carried by the given context (origin "+bad+")")
			}
		}
	}
	_ = token.NoPos
}

// checkContextKeys (C08.R2): values the bus or its bundled observer put on the context that
// handlers receive must live under keys of a package-private type. A key of a built-in
// type (a string, an int) collides with — and shadows — a value the application stored
// on the publish context under the same key, so handlers would no longer see "the publish
// context's values".
func checkContextKeys(c *Ctx, p *Prog, pkgs []string, rule string) int {
	n := 0
	for _, pkg := range pkgs {
		for _, f := range p.FuncsIn(pkg) {
			for _, b := range f.Blocks {
				for _, in := range b.Instrs {
					call, ok := in.(*ssa.Call)
					if !ok || calleeName(call.Common()) != "context.WithValue" || len(call.Common().Args) != 3 {
						continue
					}
					n++
					key := stripConv(call.Common().Args[1])
					t := key.Type()
					private := false
					if nt, ok := t.(*types.Named); ok && nt.Obj().Pkg() != nil && p.Mods[nt.Obj().Pkg().Path()] && !nt.Obj().Exported() {
						private = true
					}
					if pt, ok := t.Underlying().(*types.Pointer); ok && !private {
						if nt, ok := pt.Elem().(*types.Named); ok && nt.Obj().Pkg() != nil && p.Mods[nt.Obj().Pkg().Path()] && !nt.Obj().Exported() {
							private = true
						}
					}
					c.Check(private, rule, fmt.Sprintf("%s/context-key#%d/package-private-type", FuncDisplay(f), n), p.Pos(in.Pos()), "context key of an unexported type of this module ("+types.TypeString(t, nil)+")", "a value is stored on the handlers' context under a key of type "+types.TypeString(t, nil)+", which is not an unexported type of this module: it shadows any value the application stored on the publish context under an equal key")
				}
			}
		}
	}
	return n
}

// funcsIn: the functions a table cell mentions — the cell itself, or function-valued
// arguments of the call that built it.
func funcsIn(v ssa.Value, d int) []*ssa.Function {
	if d > 2 {
		return nil
	}
	if f := funcOfValue(v); f != nil {
		return []*ssa.Function{f}
	}
	var out []*ssa.Function
	if call, ok := stripConv(v).(*ssa.Call); ok {
		for _, a := range call.Common().Args {
			out = append(out, funcsIn(a, d+1)...)
		}
	}
	return out
}
