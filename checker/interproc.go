package main

// Interprocedural helpers that make structural rules robust against helper extraction:
// a value that is a parameter is followed to the argument at the function's (unique)
// call sites; a call result is followed to what the callee returns.

import (
	"go/types"

	"golang.org/x/tools/go/ssa"
)

type ipIndex struct {
	p       *Prog
	callers map[*ssa.Function][]ssa.CallInstruction
}

func newIPIndex(p *Prog) *ipIndex {
	ix := &ipIndex{p: p, callers: map[*ssa.Function][]ssa.CallInstruction{}}
	for _, f := range p.Funcs() {
		for _, b := range f.Blocks {
			for _, in := range b.Instrs {
				ci, ok := in.(ssa.CallInstruction)
				if !ok {
					continue
				}
				sc := ci.Common().StaticCallee()
				if sc == nil {
					continue
				}
				if o := sc.Origin(); o != nil {
					sc = o
				}
				if p.InScope(sc) {
					ix.callers[sc] = append(ix.callers[sc], ci)
				}
			}
		}
	}
	return ix
}

// argFor returns, for parameter prm of f, the argument values at f's static call sites.
func (ix *ipIndex) argFor(prm *ssa.Parameter) []ssa.Value {
	f := prm.Parent()
	idx := -1
	for i, p := range f.Params {
		if p == prm {
			idx = i
		}
	}
	if idx < 0 {
		return nil
	}
	var out []ssa.Value
	for _, ci := range ix.callers[f] {
		args := callArgs(ci.Common())
		if idx < len(args) {
			out = append(out, args[idx])
		}
	}
	return out
}

// Up follows v through conversions, and through a parameter to its argument when the
// function has exactly one static call site (a helper extracted from that caller).
func (ix *ipIndex) Up(v ssa.Value) ssa.Value {
	for i := 0; i < 6; i++ {
		v = stripConv(v)
		prm, ok := v.(*ssa.Parameter)
		if !ok {
			return v
		}
		args := ix.argFor(prm)
		if len(args) != 1 {
			return v
		}
		v = args[0]
	}
	return v
}

// Returned follows a call of an in-scope function to the value(s) it returns for result i.
func (ix *ipIndex) Returned(v ssa.Value, i int) []ssa.Value {
	call, ok := stripConv(v).(*ssa.Call)
	if !ok {
		if ex, isEx := stripConv(v).(*ssa.Extract); isEx {
			if c2, ok := ex.Tuple.(*ssa.Call); ok {
				call, i = c2, ex.Index
			}
		}
		if call == nil {
			return nil
		}
	}
	sc := call.Common().StaticCallee()
	if sc == nil {
		return nil
	}
	if o := sc.Origin(); o != nil {
		sc = o
	}
	if !ix.p.InScope(sc) || len(sc.Blocks) == 0 {
		return nil
	}
	var out []ssa.Value
	for _, ret := range returnsOf(sc) {
		if i < len(ret.Results) {
			out = append(out, resolveResult(ret, i))
		}
	}
	return out
}

// reachFuncs: functions of pkg statically reachable from root (calls and closures).
func reachFuncs(p *Prog, root *ssa.Function, pkg string) []*ssa.Function {
	seen := staticReach(p, root, pkg)
	var out []*ssa.Function
	for _, f := range p.Funcs() {
		if seen[f] {
			out = append(out, f)
		}
	}
	return out
}

// paramWeb: the values that carry parameter prm of f unchanged — prm itself, the parameters
// of in-scope callees that receive it as an argument (transitively), free variables of
// closures bound to it, and local cells it is stored into. Used so that "the limit
// parameter is compared with 0" still holds after the comparison moved into a helper.
func paramWeb(p *Prog, prm *ssa.Parameter) map[ssa.Value]bool {
	web := map[ssa.Value]bool{prm: true}
	cells := map[*ssa.Alloc]bool{}
	is := func(v ssa.Value) bool {
		v = stripConv(v)
		if web[v] {
			return true
		}
		if ld, ok := v.(*ssa.UnOp); ok {
			if al, ok := ld.X.(*ssa.Alloc); ok && cells[al] {
				return true
			}
			if fv, ok := ld.X.(*ssa.FreeVar); ok && web[fv] {
				return true
			}
			if fa, ok := ld.X.(*ssa.FieldAddr); ok && web[fa] {
				return true
			}
		}
		return false
	}
	// struct fields of the package that are only ever given members of the web carry it too
	// (the parameter handed to a small object whose methods use it)
	type fieldUse struct {
		addrs  []*ssa.FieldAddr
		stores []*ssa.Store
	}
	fields := map[string]*fieldUse{}
	for _, f := range p.Funcs() {
		if !p.InScope(f) {
			continue
		}
		for _, b := range f.Blocks {
			for _, in := range b.Instrs {
				fa, ok := in.(*ssa.FieldAddr)
				if !ok || !sameBasic(fa.Type(), prm.Type()) {
					continue
				}
				k := typeName(fa.X.Type()) + "." + fieldName(fa.X.Type(), fa.Field)
				fu := fields[k]
				if fu == nil {
					fu = &fieldUse{}
					fields[k] = fu
				}
				fu.addrs = append(fu.addrs, fa)
				for _, ref := range *fa.Referrers() {
					if st, ok := ref.(*ssa.Store); ok && st.Addr == ssa.Value(fa) {
						fu.stores = append(fu.stores, st)
					}
				}
			}
		}
	}
	for changed := true; changed; {
		changed = false
		for _, fu := range fields {
			if len(fu.stores) == 0 || web[fu.addrs[0]] {
				continue
			}
			all := true
			for _, st := range fu.stores {
				if !is(st.Val) {
					all = false
				}
			}
			if all {
				for _, fa := range fu.addrs {
					web[fa] = true
				}
				changed = true
			}
		}
		for _, f := range p.Funcs() {
			if !p.InScope(f) {
				continue
			}
			for _, b := range f.Blocks {
				for _, in := range b.Instrs {
					switch x := in.(type) {
					case *ssa.Store:
						if al, ok := x.Addr.(*ssa.Alloc); ok && is(x.Val) && !cells[al] {
							cells[al] = true
							changed = true
						}
					case *ssa.MakeClosure:
						fn := x.Fn.(*ssa.Function)
						for i, bv := range x.Bindings {
							bound := is(bv)
							if al, ok := bv.(*ssa.Alloc); ok && cells[al] {
								bound = true
							}
							if bound && i < len(fn.FreeVars) && !web[fn.FreeVars[i]] {
								web[fn.FreeVars[i]] = true
								changed = true
							}
						}
					case ssa.CallInstruction:
						sc := x.Common().StaticCallee()
						if sc == nil {
							continue
						}
						if o := sc.Origin(); o != nil {
							sc = o
						}
						if !p.InScope(sc) {
							continue
						}
						for i, a := range callArgs(x.Common()) {
							if is(a) && i < len(sc.Params) && !web[sc.Params[i]] {
								web[sc.Params[i]] = true
								changed = true
							}
						}
					}
				}
			}
		}
	}
	// loads of the cells count as members when asked through inWeb
	for al := range cells {
		web[al] = true
	}
	return web
}

// inWeb: v is (a load of) a member of the web.
func inWeb(web map[ssa.Value]bool, v ssa.Value) bool {
	v = stripConv(v)
	if web[v] {
		return true
	}
	if ld, ok := v.(*ssa.UnOp); ok {
		return web[ld.X]
	}
	return false
}

// intParam: the parameter of f with basic type int (nil if none or several).
func intParam(f *ssa.Function) *ssa.Parameter {
	var out *ssa.Parameter
	for i, prm := range f.Params {
		if i == 0 && f.Signature.Recv() != nil {
			continue
		}
		if isBasicKind(prm.Type(), types.Int) {
			if out != nil {
				return nil
			}
			out = prm
		}
	}
	return out
}

// sameBasic: pointer-to-t has the element type of u (both the same basic type).
func sameBasic(ptr, u types.Type) bool {
	pt, ok := ptr.Underlying().(*types.Pointer)
	return ok && types.Identical(pt.Elem(), u)
}
