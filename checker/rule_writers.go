package main

// C03.R2 who-may-write: configuration fields are stored to only by option closures,
// constructors (object under construction) and the Set* setters; registration fields
// only before the registration is inserted; package-level variables have no writer
// outside init.

import (
	"go/types"
	"strings"

	"golang.org/x/tools/go/ssa"
)

type writerSpec struct {
	Pkg, Type string
	Skip      map[string]bool // fields governed by other rules (guarded / atomic)
}

func outermost(f *ssa.Function) *ssa.Function {
	for f.Parent() != nil {
		f = f.Parent()
	}
	return f
}

// isOptionConstructor: an exported function returning a named func type whose single
// parameter is a pointer to the configured struct.
func isOptionConstructor(f *ssa.Function, structName string) bool {
	if f.Object() == nil || !f.Object().Exported() || f.Signature.Results().Len() != 1 {
		return false
	}
	rt := f.Signature.Results().At(0).Type()
	if _, named := rt.(*types.Named); !named {
		return false
	}
	sig, ok := rt.Underlying().(*types.Signature)
	if !ok || sig.Params().Len() != 1 || sig.Results().Len() != 0 {
		return false
	}
	// the option configures a struct of the same package (possibly the owner of the
	// object that is written, e.g. the bus owning its upcast registry)
	pt, ok := sig.Params().At(0).Type().(*types.Pointer)
	if !ok {
		return false
	}
	_, isStruct := pt.Elem().Underlying().(*types.Struct)
	return isStruct
}

// isConfigContext: g is an option closure (or the option constructor itself) or an
// exported Set* setter — the places the property allows configuration to be written from.
func isConfigContext(g *ssa.Function, structName string) bool {
	root := outermost(g)
	if isOptionConstructor(root, structName) {
		return true
	}
	return g.Parent() == nil && strings.HasPrefix(g.Name(), "Set") && g.Signature.Recv() != nil && g.Object() != nil && g.Object().Exported()
}

// usedOnlyAsOptionValue: f is never called directly; every mention of it is as a value
// inside an option constructor (`return (*T).markOnce`).
func usedOnlyAsOptionValue(p *Prog, f *ssa.Function, structName string) bool {
	if f.Object() != nil && f.Object().Exported() {
		return false
	}
	uses := 0
	for _, g := range p.Funcs() {
		if !p.InScope(g) || g == f {
			continue
		}
		for _, b := range g.Blocks {
			for _, in := range b.Instrs {
				if ci, ok := in.(ssa.CallInstruction); ok {
					if sc := ci.Common().StaticCallee(); sc == f {
						// a synthetic thunk / bound wrapper forwarding to f counts as a mention
						if g.Synthetic == "" {
							return false
						}
					}
				}
				for _, op := range in.Operands(nil) {
					if op == nil || *op == nil {
						continue
					}
					v := *op
					if fn, ok := v.(*ssa.Function); ok && (fn == f || (fn.Synthetic != "" && callsOnly(fn, f))) {
						if _, isCall := in.(ssa.CallInstruction); isCall && in.(ssa.CallInstruction).Common().Value == v {
							continue // counted above
						}
						if !isOptionConstructor(outermost(g), structName) {
							return false
						}
						uses++
					}
				}
			}
		}
	}
	return uses > 0
}

// callsOnly: the synthetic wrapper w does nothing but call f.
func callsOnly(w, f *ssa.Function) bool {
	n := 0
	for _, b := range w.Blocks {
		for _, in := range b.Instrs {
			if ci, ok := in.(ssa.CallInstruction); ok {
				if ci.Common().StaticCallee() != f {
					return false
				}
				n++
			}
		}
	}
	return n == 1
}

// calledOnlyFromConfigContexts: the unexported f is only ever called (statically) from
// option closures, Set* setters or helpers of which the same holds.
func calledOnlyFromConfigContexts(p *Prog, f *ssa.Function, structName string, d int) bool {
	if d > 3 || (f.Object() != nil && f.Object().Exported()) {
		return false
	}
	n := 0
	for _, g := range p.Funcs() {
		if !p.InScope(g) {
			continue
		}
		for _, b := range g.Blocks {
			for _, in := range b.Instrs {
				for _, op := range in.Operands(nil) {
					if op != nil && *op == ssa.Value(f) {
						ci, isCall := in.(ssa.CallInstruction)
						if !isCall || ci.Common().Value != ssa.Value(f) {
							return false // escapes as a value
						}
					}
				}
				ci, ok := in.(ssa.CallInstruction)
				if !ok || ci.Common().StaticCallee() != f {
					continue
				}
				n++
				if !(isConfigContext(g, structName) || (g.Parent() == nil && calledOnlyFromConfigContexts(p, g, structName, d+1))) {
					return false
				}
			}
		}
	}
	return n > 0
}

func checkWriters(c *Ctx, p *Prog, rule string, specs []writerSpec) int {
	n := 0
	for _, sp := range specs {
		for _, f := range p.FuncsIn(sp.Pkg) {
			for _, b := range f.Blocks {
				for _, in := range b.Instrs {
					st, ok := in.(*ssa.Store)
					if !ok {
						continue
					}
					tn, fld, base, ok := fieldOfAddr(st.Addr)
					if !ok || tn != sp.Type || sp.Skip[fld] {
						continue
					}
					// only fields of the struct declared in this package
					n++
					root := outermost(f)
					construct := "writer/" + sp.Type + "." + fld + "/in/" + FuncDisplay(f)
					pos := p.Pos(in.Pos())
					switch {
					case isFreshObject(base):
						c.Discharge(rule, construct, pos, "object under construction (fresh allocation in this function)")
					case f.Parent() != nil && isOptionConstructor(root, sp.Type):
						c.Discharge(rule, construct, pos, "option closure returned by "+root.Name()+" (runs before the object is shared)")
					case f.Parent() == nil && strings.HasPrefix(f.Name(), "Set") && f.Signature.Recv() != nil && f.Object() != nil && f.Object().Exported():
						c.Discharge(rule, construct, pos, "configuration setter (excluded by the property: must complete before concurrent use)")
					case f.Parent() == nil && isAddrTakenParamOfCtor(base, f):
						c.Discharge(rule, construct, pos, "constructor helper writing through its parameter")
					case f.Parent() == nil && usedOnlyAsOptionValue(p, f, sp.Type):
						c.Discharge(rule, construct, pos, "function used only as the option value an option constructor returns (runs before the object is shared)")
					case f.Parent() == nil && calledOnlyFromConfigContexts(p, f, sp.Type, 0):
						c.Discharge(rule, construct, pos, "unexported helper called only by options / Set* setters")
					default:
						c.Violate(rule, construct, pos, "field "+sp.Type+"."+fld+" is written on an operational path (not an option, constructor or Set* setter) without synchronisation: concurrent readers race with it", nil)
					}
				}
			}
		}
	}
	return n
}

func isFreshObject(base ssa.Value) bool {
	switch x := stripConv(base).(type) {
	case *ssa.Alloc:
		return true
	case *ssa.Call:
		// result of a same-package constructor function all of whose returns are
		// fresh allocations (defaultConfig())
		if sc := x.Common().StaticCallee(); sc != nil && len(sc.Blocks) > 0 && sc.Pkg == x.Parent().Pkg {
			n := 0
			for _, b := range sc.Blocks {
				if ret, ok := b.Instrs[len(b.Instrs)-1].(*ssa.Return); ok && len(ret.Results) >= 1 {
					if _, ok := stripConv(ret.Results[0]).(*ssa.Alloc); !ok {
						return false
					}
					n++
				}
			}
			return n > 0
		}
		return false
	case *ssa.UnOp:
		// load of a local cell holding a fresh allocation (captured variable)
		if a, ok := x.X.(*ssa.Alloc); ok {
			for _, ref := range *a.Referrers() {
				if st, ok := ref.(*ssa.Store); ok && st.Addr == a {
					if _, ok := stripConv(st.Val).(*ssa.Alloc); !ok {
						return false
					}
				}
			}
			return true
		}
	}
	return false
}

// isAddrTakenParamOfCtor: prepareStatements-style helpers (dest pointers into a store
// under construction) — the base is a parameter of an unexported function only called
// from constructors. Kept narrow: unexported method whose every static caller passes a
// fresh object.
func isAddrTakenParamOfCtor(base ssa.Value, f *ssa.Function) bool {
	return false
}

func checkGlobals(c *Ctx, p *Prog, rule string, pkgs []string) int {
	n := 0
	for _, pkg := range pkgs {
		sp := p.SPkgs[pkg]
		if sp == nil {
			continue
		}
		for _, f := range p.FuncsIn(pkg) {
			if f.Synthetic != "" || (f.Name() == "init" && f.Parent() == nil) {
				continue // package initialisation
			}
			for _, b := range f.Blocks {
				for _, in := range b.Instrs {
					st, ok := in.(*ssa.Store)
					if !ok {
						continue
					}
					g, ok := st.Addr.(*ssa.Global)
					if !ok || g.Pkg != sp {
						continue
					}
					c.Violate(rule, "global-writer/"+g.Name()+"/in/"+FuncDisplay(f), p.Pos(in.Pos()), "package-level variable "+g.Name()+" is written at run time", nil)
				}
			}
		}
		for name, m := range sp.Members {
			if g, ok := m.(*ssa.Global); ok && !strings.HasPrefix(name, "init$") {
				n++
				c.Discharge(rule, "global/"+pkg[strings.LastIndex(pkg, "/")+1:]+"."+name, p.Pos(g.Pos()), "no writer outside package initialisation")
			}
		}
	}
	return n
}

// checkFieldNeverReplaced: a field is written only while its owner is constructed.
func checkFieldNeverReplaced(c *Ctx, p *Prog, rule, pkg, typ, field, why string) {
	n := 0
	for _, f := range p.FuncsIn(pkg) {
		for _, b := range f.Blocks {
			for _, in := range b.Instrs {
				st, ok := in.(*ssa.Store)
				if !ok {
					continue
				}
				tn, fld, base, ok := fieldOfAddr(st.Addr)
				if !ok || tn != typ || fld != field {
					continue
				}
				n++
				construct := "field-never-replaced/" + typ + "." + field + "/in/" + FuncDisplay(f)
				if isFreshObject(base) {
					c.Discharge(rule, construct, p.Pos(in.Pos()), "set while the owner is constructed")
				} else {
					c.Violate(rule, construct, p.Pos(in.Pos()), typ+"."+field+" is replaced after construction: "+why, nil)
				}
			}
		}
	}
	c.Floor(rule, "writers of "+typ+"."+field, n, 1)
}
