package main

// Roles of the private fields of the exported in-memory stores and of the state
// materializer, discovered by type (the exported type names are the anchors).

import (
	"go/types"

	"golang.org/x/tools/go/ssa"
)

type memRoles struct {
	Events, Subs, Counter, Mu string // ebu.MemoryStore
	// state package
	StData, StMu                      string // state.MemoryStore[T]
	MatColl, MatOffset, MatMu, MatCfg string // state.Materializer
	CfgType, CfgStrict                string // materializer config struct and its strict flag
	missing                           []string
}

var memRolesCache = map[*Prog]*memRoles{}

func discoverMem(p *Prog) *memRoles {
	if r, ok := memRolesCache[p]; ok {
		return r
	}
	r := &memRoles{}
	memRolesCache[p] = r
	need := func(v *string, fallback, what string, st *types.Struct) {
		if *v == "" && hasField(st, fallback) {
			*v = fallback
		}
		if *v == "" {
			r.missing = append(r.missing, what)
		}
	}
	if pk := p.All[PkgBus]; pk != nil {
		if o := pk.Types.Scope().Lookup("MemoryStore"); o != nil {
			st := structOf(o.Type())
			for i := 0; st != nil && i < st.NumFields(); i++ {
				f := st.Field(i)
				switch t := f.Type().Underlying().(type) {
				case *types.Slice:
					if pt, ok := t.Elem().(*types.Pointer); ok && isNamed(pt.Elem(), PkgBus, "StoredEvent") {
						r.Events = f.Name()
					}
				case *types.Map:
					if isNamed(t.Elem(), PkgBus, "Offset") {
						r.Subs = f.Name()
					}
				case *types.Basic:
					if t.Info()&types.IsInteger != 0 {
						r.Counter = f.Name()
					}
				}
				if isNamed(f.Type(), "sync", "RWMutex") || isNamed(f.Type(), "sync", "Mutex") {
					r.Mu = f.Name()
				}
			}
			need(&r.Events, "events", "MemoryStore log field", st)
			need(&r.Subs, "subscriptions", "MemoryStore offsets field", st)
			need(&r.Counter, "nextOffset", "MemoryStore counter field", st)
			need(&r.Mu, "mu", "MemoryStore mutex", st)
		} else {
			r.missing = append(r.missing, "type ebu.MemoryStore")
		}
	}
	if pk := p.All[PkgState]; pk != nil {
		if o := pk.Types.Scope().Lookup("MemoryStore"); o != nil {
			st := structOf(o.Type())
			for i := 0; st != nil && i < st.NumFields(); i++ {
				f := st.Field(i)
				if _, ok := f.Type().Underlying().(*types.Map); ok {
					r.StData = f.Name()
				}
				if isNamed(f.Type(), "sync", "RWMutex") || isNamed(f.Type(), "sync", "Mutex") {
					r.StMu = f.Name()
				}
			}
			need(&r.StData, "data", "state.MemoryStore data field", st)
			need(&r.StMu, "mu", "state.MemoryStore mutex", st)
		}
		if o := pk.Types.Scope().Lookup("Materializer"); o != nil {
			st := structOf(o.Type())
			for i := 0; st != nil && i < st.NumFields(); i++ {
				f := st.Field(i)
				switch t := f.Type().Underlying().(type) {
				case *types.Map:
					r.MatColl = f.Name()
				case *types.Pointer:
					if cs, ok := t.Elem().Underlying().(*types.Struct); ok {
						r.MatCfg = f.Name()
						r.CfgType = typeName(t.Elem())
						for j := 0; j < cs.NumFields(); j++ {
							if b, ok := cs.Field(j).Type().Underlying().(*types.Basic); ok && b.Kind() == types.Bool {
								r.CfgStrict = cs.Field(j).Name()
							}
						}
					}
				}
				if isNamed(f.Type(), PkgBus, "Offset") {
					r.MatOffset = f.Name()
				}
				if isNamed(f.Type(), "sync", "RWMutex") || isNamed(f.Type(), "sync", "Mutex") {
					r.MatMu = f.Name()
				}
			}
			need(&r.MatColl, "collections", "Materializer collections field", st)
			need(&r.MatOffset, "lastOffset", "Materializer offset field", st)
			need(&r.MatMu, "mu", "Materializer mutex", st)
		}
	}
	return r
}

func (r *memRoles) report(c *Ctx, rule string) {
	for _, m := range r.missing {
		c.Unresolved(rule, "UNRESOLVED-ANCHOR/"+m, "anchor not found: "+m)
	}
}

var _ = ssa.Value(nil)
