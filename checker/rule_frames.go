package main

// The resource / callback-pairing automaton over PublishContext, its async goroutine,
// the dispatch function and its deferred closure (E-PATH with panic edges). One
// exploration serves
//
//	C05.R2  panic handler exactly once iff a panic was recovered and the handler is set, with (event, handlerType, recovered value)
//	C05.R3  sequential lock and wait-group counts survive a panic
//	C06.R1  bus wait-group Add(1) exactly once in the publisher before each go statement
//	C06.R2  Done exactly once on every exit of the goroutine body
//	C07.R1  a sequential registration's own mutex is held at every invocation
//	C08.R3  publish hooks exactly once, before-hooks ahead of the snapshot, after-hooks after the loop
//	C09.R1  the persist function is called exactly once ahead of the snapshot on every path
//	C20.R1  observability callbacks are paired on every path incl. the recovered-panic exit

import (
	"fmt"
	"go/token"
	"strings"

	"golang.org/x/tools/go/ssa"
)

type frameSigma struct {
	Ph byte   // publish phase: a ahead of snapshot, s snapshot taken / dispatching, p past the loop
	W  int    // bus wg Adds pending (publisher)
	Dn int    // bus wg Dones executed in the goroutine
	L  byte   // sequential lock held n/y
	H  int    // panic handler calls in the current dispatch frame
	S  int    // OnHandlerStart calls in the current dispatch frame
	E  int    // OnHandlerComplete calls in the current dispatch frame
	I  int    // handler invoked in current dispatch frame
	Ps int    // OnPublishStart
	Pc int    // OnPublishComplete
	B  [4]int // hook calls: before, beforeCtx, after, afterCtx
	Pe int    // persist function calls
	X  byte   // in dispatch frame n/y
	K  byte   // a panic was recovered in the current dispatch frame n/y
	Es byte   // the error reported to OnHandlerComplete was assigned on this (recovered) path n/y
}

func cap2(n int) int {
	if n > 2 {
		return 2
	}
	return n
}

func (s frameSigma) String() string {
	if s.Es == 0 {
		s.Es = 'n'
	}
	return fmt.Sprintf("%c%d%d%c%d%d%d%d%d%d%d%d%d%d%d%c%c%c", s.Ph, cap2(s.W), cap2(s.Dn), s.L, cap2(s.H), cap2(s.S), cap2(s.E), cap2(s.I), cap2(s.Ps), cap2(s.Pc),
		cap2(s.B[0]), cap2(s.B[1]), cap2(s.B[2]), cap2(s.B[3]), cap2(s.Pe), s.X, s.K, s.Es)
}

func parseFrame(x string) frameSigma {
	d := func(i int) int { return int(x[i] - '0') }
	return frameSigma{Ph: x[0], W: d(1), Dn: d(2), L: x[3], H: d(4), S: d(5), E: d(6), I: d(7), Ps: d(8), Pc: d(9), B: [4]int{d(10), d(11), d(12), d(13)}, Pe: d(14), X: x[15], K: x[16], Es: x[17]}
}

type framesRule struct {
	BaseRule
	R          *BusRoles
	ev         *busEvents
	header     *ssa.BasicBlock
	loops      *loopInfo
	eventCanon string
	ctxCanons  []string
	ctxOracle  *pubCtxOracle
	hookIdx    map[string]int
	// inventories
	spawnSites, addSites, doneSites, lockSites, invSites, hookSites, obsSites, phSites, persistSites map[token.Pos]bool
}

func (r *framesRule) Inline(fn *ssa.Function) bool {
	// everything of package ebu that is statically called is followed, except the
	// persist and shard functions, which are atomic events here
	return PkgOf(fn) == PkgBus && fn != r.R.PersistFn && fn != r.R.ShardFn && !r.R.FilterHelpers[fn]
}

func (r *framesRule) PredOK(key string) bool {
	for _, f := range []string{r.R.RegSeq, r.R.RegAsync, r.R.RegOnce, r.R.BusObs, r.R.BusPanicH, r.R.BusBefore, r.R.BusAfter, r.R.BusBeforeCtx, r.R.BusAfterCtx} {
		if mentionsField(key, f) {
			return true
		}
	}
	return strings.HasPrefix(key, "v:")
}

func (r *framesRule) isBusWG(e *Engine, fc *FrameCtx, v ssa.Value) bool {
	tn, fld, _, ok := fieldOfAddr(v)
	return ok && tn == "EventBus" && fld == r.R.BusWG
}

func (r *framesRule) OnEnter(e *Engine, st *State, fc *FrameCtx) {
	if fc.fn == r.R.DispatchFn {
		s := parseFrame(st.Sigma)
		s.X, s.H, s.S, s.E, s.I, s.K, s.Es = 'y', 0, 0, 0, 0, 'n', 'n'
		if s.Ph != 's' {
			pos := token.NoPos
			if fc.site != nil {
				pos = fc.site.Pos()
			}
			e.Report(st, pos, "PublishContext/dispatch/phase", "a handler is dispatched outside the dispatch phase (before the snapshot or after the after-publish point)")
		}
		st.Sigma = s.String()
	}
}

func (r *framesRule) OnLeave(e *Engine, st *State, fc *FrameCtx, recovered bool) {
	if fc.fn != r.R.DispatchFn {
		if recovered {
			e.Report(st, fc.fn.Pos(), "dispatch-fn/panic-handler/swallowed-in/"+FuncDisplay(fc.fn), "a handler panic is absorbed by %s before it reaches the dispatch function's recover: the panic handler and the observability never learn of it", FuncDisplay(fc.fn))
		}
		return
	}
	s := parseFrame(st.Sigma)
	pos := fc.fn.Pos()
	if s.L == 'y' {
		how := "returns"
		if recovered {
			how = "returns after a recovered panic"
		}
		e.Report(st, pos, "dispatch-fn/sequential-lock-released", "the dispatch function %s with the registration's sequential lock still held: the next delivery to this handler blocks forever", how)
	}
	obsSet, obsKnown := r.predOn(st, r.R.BusObs)
	if obsKnown && obsSet {
		if s.S != 1 && s.I > 0 {
			e.Report(st, pos, "dispatch-fn/obs/handler-start", "OnHandlerStart is called %d times for one handler invocation (want exactly once)", s.S)
		}
		if s.E != s.S {
			e.Report(st, pos, "dispatch-fn/obs/handler-complete", "OnHandlerStart called %d times but OnHandlerComplete %d times on this exit (recovered panic: %v)", s.S, s.E, recovered)
		}
	} else if obsKnown && !obsSet && (s.S != 0 || s.E != 0) {
		e.Report(st, pos, "dispatch-fn/obs/nil", "observability callbacks invoked on a path where the observability is nil")
	}
	phSet, phKnown := r.predOn(st, r.R.BusPanicH)
	if recovered && s.K != 'y' {
		e.Report(st, pos, "dispatch-fn/panic-handler/swallowed", "a handler panic is recovered by a deferred call other than the one that reports it: the panic handler is never called")
	}
	if recovered {
		if phKnown && phSet && s.H != 1 {
			e.Report(st, pos, "dispatch-fn/panic-handler/once", "a handler panic was recovered but the panic handler is called %d times (want exactly once)", s.H)
		}
	} else if s.H != 0 {
		e.Report(st, pos, "dispatch-fn/panic-handler/no-panic", "the panic handler is called although no panic was recovered")
	}
	s.X = 'n'
	s.L = 'n'
	st.Sigma = s.String()
}

// predOn finds the recorded valuation of `<...>.field != nil` (true = non-nil).
func (r *framesRule) predOn(st *State, field string) (nonNil, known bool) {
	for k, v := range st.Preds() {
		if isNilPredOn(k, field) {
			return !v, true // v is the value of (x == nil)
		}
	}
	return false, false
}

func (r *framesRule) OnInstr(e *Engine, st *State, fc *FrameCtx, in ssa.Instruction) bool {
	if _, isDefer := in.(*ssa.Defer); isDefer && !st.ExecDefer {
		return false
	}
	s := parseFrame(st.Sigma)
	defer func() { st.Sigma = s.String() }()
	if sto, isStore := in.(*ssa.Store); isStore && s.X == 'y' && s.K == 'y' {
		if typeName(sto.Val.Type()) == "error" && e.neverNil(fc, sto.Val, 0) {
			if _, isFV := sto.Addr.(*ssa.FreeVar); isFV {
				s.Es = 'y'
			}
			if _, isAl := sto.Addr.(*ssa.Alloc); isAl {
				s.Es = 'y'
			}
		}
	}
	ci, isCall := in.(ssa.CallInstruction)
	if !isCall {
		return false
	}
	c := ci.Common()
	if _, isGo := in.(*ssa.Go); isGo {
		if lb := st.BlockOf(r.R.LoopFn); !fc.InGoroutine() && lb != nil && r.loops.body[r.header][lb] {
			r.spawnSites[in.Pos()] = true
			if s.W != 1 {
				e.Report(st, in.Pos(), "PublishContext/async-go/count-before-spawn", "the go statement is reached with %d pending Add(1) on the bus wait group (want exactly 1, in the publisher, before the goroutine starts)", s.W)
			}
			// the goroutine fork is taken from the state after this update: it starts with W=0, Dn=0
			s.W = 0
			s.Dn = 0
		}
		return false
	}
	// handler invocation
	if _, _, ok := r.ev.handlerInvoke(fc, in); ok {
		r.invSites[in.Pos()] = true
		s.I = 1
		st.Note(in.Pos(), "handler invoked")
		seq, known := r.regFlag(st, r.R.RegSeq)
		if !known {
			e.Report(st, in.Pos(), "dispatch-fn/invocation/sequential-test", "the handler is invoked on a path that never tested the sequential flag")
		} else if seq && s.L != 'y' {
			e.Report(st, in.Pos(), "dispatch-fn/invocation/sequential-lock", "a sequential handler is invoked without its own mutex held")
		}
		if obsSet, known := r.predOn(st, r.R.BusObs); known && obsSet && s.S != 1 {
			e.Report(st, in.Pos(), "dispatch-fn/obs/start-before-invoke", "the handler is invoked with OnHandlerStart called %d times before it", s.S)
		}
		return true
	}
	// mutex of the registration
	if kind, mu, ok := mutexOp(c); ok {
		if tn, fld, _, ok := fieldOfAddr(mu); ok && tn == r.R.RegName() && fld == r.R.RegMu {
			r.lockSites[in.Pos()] = true
			switch kind {
			case "Lock":
				s.L = 'y'
				st.Note(in.Pos(), "sequential lock taken")
			case "Unlock":
				if s.L != 'y' {
					e.Report(st, in.Pos(), "dispatch-fn/sequential-unlock", "sequential mutex unlocked on a path that does not hold it")
				}
				s.L = 'n'
				st.Note(in.Pos(), "sequential lock released")
			}
			return false
		}
		if tn, fld, _, ok := fieldOfAddr(mu); ok && r.R.ShardT != nil && tn == r.R.ShardT.Obj().Name() && fld == r.R.ShardMu && !fc.InGoroutine() {
			if s.Ph == 'a' {
				s.Ph = 's'
			}
		}
		return false
	}
	// wait group
	if kind, wg, ok := wgOp(c); ok && r.isBusWG(e, fc, wg) {
		switch kind {
		case "Add":
			r.addSites[in.Pos()] = true
			delta := int64(0)
			if len(c.Args) == 2 {
				if k, ok := c.Args[1].(*ssa.Const); ok && k.Value != nil {
					delta = k.Int64()
				}
			}
			if delta != 1 {
				e.Report(st, in.Pos(), "bus-wait-group/add-delta", "Add on the bus wait group with a delta other than the constant 1")
			}
			if fc.InGoroutine() {
				e.Report(st, in.Pos(), "PublishContext/async-goroutine/add-inside", "the in-flight count is raised inside the spawned goroutine: Wait can observe zero before the handler is counted")
			}
			s.W++
			st.Note(in.Pos(), "bus.wg.Add(1)")
		case "Done":
			r.doneSites[in.Pos()] = true
			if !fc.InGoroutine() {
				e.Report(st, in.Pos(), "bus-wait-group/done-outside-goroutine", "Done on the bus wait group outside the spawned goroutine")
			}
			s.Dn++
			st.Note(in.Pos(), "bus.wg.Done()")
		}
		return false
	}
	// observability
	if m, cc, ok := obsCall(in); ok {
		r.obsSites[in.Pos()] = true
		switch m {
		case "OnHandlerStart":
			s.S++
		case "OnHandlerComplete":
			s.E++
			if s.L == 'y' {
				e.Report(st, in.Pos(), "dispatch-fn/obs/complete-under-sequential-lock", "OnHandlerComplete runs while the registration's sequential lock is held")
			}
			if s.X == 'y' && len(cc.Args) == 3 {
				// error argument: non-nil exactly on the recovered branch
				if r.checkCompleteErr(e, st, fc, in, cc.Args[2], s) {
					// decided on the value itself (a phi of nil and the recovered error)
				} else if s.K == 'y' && s.Es != 'y' {
					e.Report(st, in.Pos(), "dispatch-fn/obs/complete-error", "a panic was recovered on this path but the error handed to OnHandlerComplete was not assigned on it (e.g. the panic value fell through a type switch without a default): the panicking invocation is reported as successful")
				}
			}
		case "OnPublishStart":
			s.Ps++
			if s.Ph != 'a' {
				e.Report(st, in.Pos(), "PublishContext/obs/publish-start-phase", "OnPublishStart is called after the snapshot was taken")
			}
			for i, n := range s.B {
				if n > 0 && i < 2 {
					e.Report(st, in.Pos(), "PublishContext/obs/publish-start-before-hooks", "OnPublishStart is called after a before-publish hook")
				}
			}
		case "OnPublishComplete":
			s.Pc++
			if s.Ph != 'p' {
				e.Report(st, in.Pos(), "PublishContext/obs/publish-complete-phase", "OnPublishComplete is called before the dispatch loop has finished")
			}
		}
		return false
	}
	// publish hooks
	if fld, cc, ok := r.ev.hookCall(in); ok && !fc.InGoroutine() && s.X != 'y' {
		r.hookSites[in.Pos()] = true
		i := r.hookIdx[fld]
		s.B[i]++
		names := []string{"before-publish", "before-publish-ctx", "after-publish", "after-publish-ctx"}
		if i < 2 && s.Ph != 'a' {
			e.Report(st, in.Pos(), "PublishContext/hooks/"+names[i]+"/phase", "the %s hook runs after the handler snapshot was taken (a handler of this publish may already have started)", names[i])
		}
		if i >= 2 && s.Ph != 'p' {
			e.Report(st, in.Pos(), "PublishContext/hooks/"+names[i]+"/phase", "the %s hook runs before the dispatch loop has finished", names[i])
		}
		r.checkHookArgs(e, st, fc, in, cc, i, names[i])
		return false
	}
	// persist function
	if sc := c.StaticCallee(); sc != nil && (sc == r.R.PersistFn || sc.Origin() == r.R.PersistFn) && !fc.InGoroutine() && s.X != 'y' {
		r.persistSites[in.Pos()] = true
		s.Pe++
		if s.Ph != 'a' {
			e.Report(st, in.Pos(), "PublishContext/persist/phase", "the event is persisted after the handler snapshot was taken: a handler can run before the record is in the store")
		}
		if len(c.Args) == 4 {
			if a := e.CanonS(fc, c.Args[3]); a != r.eventCanon {
				e.Report(st, in.Pos(), "PublishContext/persist/event-arg", "the persist function receives %s, not the published event", a)
			}
			if a := e.CanonS(fc, c.Args[1]); !r.isPublishCtxV(e, fc, c.Args[1]) {
				e.Report(st, in.Pos(), "PublishContext/persist/ctx-arg", "the persist function receives %s, not the publish context", a)
			}
		}
		return false
	}
	// panic handler call (inside the dispatch frame or its deferred closure)
	if isDynamicCall(c) && s.X == 'y' {
		v := e.CanonS(fc, c.Value)
		if strings.HasSuffix(v, ")."+r.R.BusPanicH) {
			r.phSites[in.Pos()] = true
			s.H++
			st.Note(in.Pos(), "panic handler called")
			if s.L == 'y' {
				e.Report(st, in.Pos(), "dispatch-fn/panic-handler/under-sequential-lock", "the panic handler runs while the registration's sequential lock is still held: a panic handler that publishes to the same handler deadlocks")
			}
			r.checkPanicHandlerArgs(e, st, fc, in, c)
		}
	}
	return false
}

// isPublishCtxV: by canonical name along the path, or structurally (a context that went
// through a pipeline helper such as beginPublish).
func (r *framesRule) isPublishCtxV(e *Engine, fc *FrameCtx, v ssa.Value) bool {
	if r.isPublishCtx(e.CanonS(fc, v)) {
		return true
	}
	if r.ctxOracle == nil {
		r.ctxOracle = newPubCtxOracle(e.P, r.R, e.cells)
	}
	av, _ := e.ArgValue(fc, v)
	return r.ctxOracle.is(v) || r.ctxOracle.is(av)
}

func (r *framesRule) isPublishCtx(c string) bool {
	for _, x := range r.ctxCanons {
		if strings.HasPrefix(x, "v:") {
			if c == x {
				return true
			}
			continue
		}
		if strings.HasPrefix(c, x) {
			return true
		}
	}
	return false
}

// regFlag returns the recorded valuation of a boolean registration field.
func (r *framesRule) regFlag(st *State, field string) (val, known bool) {
	for k, v := range st.Preds() {
		if strings.HasSuffix(k, ")."+field) {
			return v, true
		}
	}
	return false, false
}

func (r *framesRule) checkHookArgs(e *Engine, st *State, fc *FrameCtx, in ssa.Instruction, cc *ssa.CallCommon, i int, name string) {
	args := cc.Args
	ctxHook := i == 1 || i == 3
	want := 2
	if ctxHook {
		want = 3
	}
	if len(args) != want {
		return
	}
	off := 0
	if ctxHook {
		off = 1
		if a := e.CanonS(fc, args[0]); !r.isPublishCtxV(e, fc, args[0]) {
			e.Report(st, in.Pos(), "PublishContext/hooks/"+name+"/ctx-arg", "the %s hook receives %s, not the publish context", name, a)
		}
	}
	// type argument: reflect.TypeOf(event)
	okType := false
	tv, tfc := e.ArgValue(fc, args[off]) // through the parameters of pipeline helpers
	if call, ok := stripConv(tv).(*ssa.Call); ok && calleeName(call.Common()) == "reflect.TypeOf" && len(call.Common().Args) == 1 {
		if e.CanonS(tfc, call.Common().Args[0]) == r.eventCanon {
			okType = true
		}
	}
	if !okType {
		e.Report(st, in.Pos(), "PublishContext/hooks/"+name+"/type-arg", "the %s hook is not given reflect.TypeOf(event) of the published event", name)
	}
	if a := e.CanonS(fc, args[off+1]); a != r.eventCanon {
		e.Report(st, in.Pos(), "PublishContext/hooks/"+name+"/event-arg", "the %s hook receives %s, not the published event", name, a)
	}
}

func (r *framesRule) checkPanicHandlerArgs(e *Engine, st *State, fc *FrameCtx, in ssa.Instruction, c *ssa.CallCommon) {
	if len(c.Args) != 3 {
		return
	}
	if a := e.CanonS(fc, c.Args[0]); a != r.eventCanon {
		e.Report(st, in.Pos(), "dispatch-fn/panic-handler/event-arg", "the panic handler receives %s, not the published event", a)
	}
	if tn, fld, _, ok := fieldLoad(c.Args[1]); !(ok && tn == r.R.RegName() && fld == r.R.RegHandlerType) {
		e.Report(st, in.Pos(), "dispatch-fn/panic-handler/type-arg", "the panic handler is not given the registration's handler type")
	}
	okVal := false
	if call, ok := stripConv(c.Args[2]).(*ssa.Call); ok {
		if b, ok := call.Common().Value.(*ssa.Builtin); ok && b.Name() == "recover" {
			okVal = true
		}
	}
	if !okVal {
		e.Report(st, in.Pos(), "dispatch-fn/panic-handler/value-arg", "the panic handler is not given the value returned by recover()")
	}
}

// checkCompleteErr: the error handed to OnHandlerComplete must be nil on the normal exit
// and non-nil on the recovered exit. Decided through the recorded recover outcome: the
// argument is a load of a cell that is only assigned (a never-nil error) on the
// recovered branch.
func (r *framesRule) checkCompleteErr(e *Engine, st *State, fc *FrameCtx, in ssa.Instruction, arg ssa.Value, s frameSigma) (byValue bool) {
	// the error variable is local to the deferred closure: a phi that is nil on the edges
	// that bypass the recovered branch and a fresh non-nil error on the edges from it
	if ph, isPhi := stripConv(arg).(*ssa.Phi); isPhi {
		okShape := true
		nonNil := 0
		for i, ed := range ph.Edges {
			if k, isK := ed.(*ssa.Const); isK && k.Value == nil {
				// this edge must not come from the recovered branch
				if i < len(ph.Block().Preds) && blockDominatedByRecoverNonNil(ph.Block().Preds[i]) {
					okShape = false
				}
				continue
			}
			def, isIn := ed.(ssa.Instruction)
			if !e.neverNil(nil, ed, 0) || !isIn || !dominatedByRecoverNonNil(def) {
				okShape = false
				continue
			}
			nonNil++
		}
		if !okShape || nonNil == 0 {
			e.Report(st, in.Pos(), "dispatch-fn/obs/complete-error", "the error handed to OnHandlerComplete is not nil exactly on the paths that bypass the recovered-panic branch and a fresh error on the paths through it")
		}
		return true
	}
	ld, ok := stripConv(arg).(*ssa.UnOp)
	if !ok || ld.Op != token.MUL {
		if k, ok := arg.(*ssa.Const); ok && k.Value == nil {
			if s.K == 'y' {
				e.Report(st, in.Pos(), "dispatch-fn/obs/complete-error", "OnHandlerComplete is given a nil error although the handler panicked")
			}
			return false
		}
		e.Report(st, in.Pos(), "dispatch-fn/obs/complete-error", "cannot decide what error OnHandlerComplete receives (unrecognised shape)")
		return false
	}
	a := e.allocOf(ld.X)
	if a == nil {
		e.Report(st, in.Pos(), "dispatch-fn/obs/complete-error", "cannot decide what error OnHandlerComplete receives (not a local cell)")
		return false
	}
	// a deferred call's arguments are evaluated when the defer statement runs: the load of
	// the error cell must not precede the assignment made on the recovered branch
	if d, isDefer := in.(*ssa.Defer); isDefer {
		for _, sto := range e.cells.storeIns[a] {
			if k, ok := sto.Val.(*ssa.Const); ok && k.Value == nil {
				continue
			}
			if sto.Parent() != d.Parent() || !reaches(sto, d) {
				e.Report(st, in.Pos(), "dispatch-fn/obs/complete-error", "OnHandlerComplete is deferred with the error variable as an argument: the argument is evaluated when the defer statement runs, before the recovered panic is recorded, so a panicking invocation is reported with a nil error")
				return false
			}
		}
	}
	// every store into the cell must be a never-nil error made inside the recovered branch
	for _, sto := range e.cells.storeIns[a] {
		if !e.neverNil(nil, sto.Val, 0) {
			if k, ok := sto.Val.(*ssa.Const); ok && k.Value == nil {
				continue
			}
			e.Report(st, sto.Pos(), "dispatch-fn/obs/complete-error", "the error reported to OnHandlerComplete can be assigned a value that is not a fresh non-nil error")
			return false
		}
		if !dominatedByRecoverNonNil(sto) {
			e.Report(st, sto.Pos(), "dispatch-fn/obs/complete-error", "the error reported to OnHandlerComplete is assigned outside the recovered-panic branch: a normal completion would be reported as failed")
		}
	}
	if s.K == 'y' && len(e.cells.storeIns[a]) == 0 {
		e.Report(st, in.Pos(), "dispatch-fn/obs/complete-error", "OnHandlerComplete is given an error that is never set although the handler panicked")
	}
	return false
}

// blockDominatedByRecoverNonNil: like dominatedByRecoverNonNil for a block.
func blockDominatedByRecoverNonNil(b *ssa.BasicBlock) bool {
	if len(b.Instrs) == 0 {
		return false
	}
	return dominatedByRecoverNonNil(b.Instrs[0])
}

// dominatedByRecoverNonNil: the instruction sits in a block dominated by the true
// (non-nil) successor of an `if recover() != nil`.
func dominatedByRecoverNonNil(in ssa.Instruction) bool {
	fn := in.Parent()
	for _, b := range fn.Blocks {
		iff, ok := b.Instrs[len(b.Instrs)-1].(*ssa.If)
		if !ok {
			continue
		}
		x, nonNilOnTrue, ok := nilTest(iff.Cond)
		if !ok {
			continue
		}
		call, ok := stripConv(x).(*ssa.Call)
		if !ok {
			continue
		}
		if bi, ok := call.Common().Value.(*ssa.Builtin); !ok || bi.Name() != "recover" {
			continue
		}
		succ := b.Succs[0]
		if !nonNilOnTrue {
			succ = b.Succs[1]
		}
		if succ.Dominates(in.Block()) && len(succ.Preds) == 1 {
			return true
		}
	}
	return false
}

func (r *framesRule) OnBranch(e *Engine, st *State, fc *FrameCtx, in *ssa.If, taken bool) {
	// a publish on a nil bus is outside the property (there is no bus whose hooks, store or
	// observer could be owed anything): the nil side of a guard on the bus parameter is
	// not a path of the protocol
	if x, nonNilOnTrue, ok := nilTest(in.Cond); ok && fc.parent == nil && taken != nonNilOnTrue {
		if prm := entryParam(x); prm != nil && prm.Parent() == fc.fn && typeName(prm.Type()) == "EventBus" {
			st.Kill()
			return
		}
	}
	// remember that this dispatch frame recovered a panic
	if x, nonNilOnTrue, ok := nilTest(in.Cond); ok {
		if call, ok := stripConv(x).(*ssa.Call); ok {
			if b, ok := call.Common().Value.(*ssa.Builtin); ok && b.Name() == "recover" && taken == nonNilOnTrue {
				s := parseFrame(st.Sigma)
				s.K = 'y'
				st.Sigma = s.String()
			}
		}
	}
}

func (r *framesRule) OnEdge(e *Engine, st *State, fc *FrameCtx, from, to *ssa.BasicBlock) {
	if fc.fn != r.R.LoopFn || fc.InGoroutine() {
		return
	}
	body := r.loops.body[r.header]
	s := parseFrame(st.Sigma)
	if from == r.header && !body[to] {
		// leaving the dispatch loop
		s.Ph = 'p'
	}
	if to == r.header && body[from] {
		if s.W != 0 {
			e.Report(st, from.Instrs[len(from.Instrs)-1].Pos(), "PublishContext/dispatch-loop/add-without-spawn", "an iteration ends with %d Add(1) on the bus wait group that no goroutine will ever balance: Wait would block forever", s.W)
			s.W = 0
		}
	}
	st.Sigma = s.String()
}

func (r *framesRule) OnExit(e *Engine, st *State, kind ExitKind) {
	s := parseFrame(st.Sigma)
	switch kind {
	case ExitGoroutine, ExitGoroutinePanic:
		if s.Dn != 1 {
			how := "returns"
			if kind == ExitGoroutinePanic {
				how = "is left by a panic"
			}
			e.Report(st, token.NoPos, "PublishContext/async-goroutine/done-exactly-once", "the async goroutine %s with Done called %d times on the bus wait group (want exactly once on every exit)", how, s.Dn)
		}
	case ExitReturn:
		if s.W != 0 {
			e.Report(st, token.NoPos, "PublishContext/return/add-without-spawn", "PublishContext returns with %d unbalanced Add(1) on the bus wait group", s.W)
		}
		names := []string{"before-publish", "before-publish-ctx", "after-publish", "after-publish-ctx"}
		fields := []string{r.R.BusBefore, r.R.BusBeforeCtx, r.R.BusAfter, r.R.BusAfterCtx}
		for i, f := range fields {
			set, known := r.predOn(st, f)
			switch {
			case !known && s.B[i] == 0:
				e.Report(st, token.NoPos, "PublishContext/hooks/"+names[i]+"/exactly-once", "PublishContext returns on a path that never looked at the %s hook", names[i])
			case known && set && s.B[i] != 1:
				e.Report(st, token.NoPos, "PublishContext/hooks/"+names[i]+"/exactly-once", "the %s hook is set but runs %d times on this path (want exactly once per publish)", names[i], s.B[i])
			case known && !set && s.B[i] != 0:
				e.Report(st, token.NoPos, "PublishContext/hooks/"+names[i]+"/exactly-once", "the %s hook is nil but is called", names[i])
			}
		}
		if s.Pe != 1 {
			e.Report(st, token.NoPos, "PublishContext/persist/exactly-once", "PublishContext returns having called the persist function %d times (want exactly once, ahead of the snapshot)", s.Pe)
		}
		obsSet, known := r.predOn(st, r.R.BusObs)
		switch {
		case !known && (s.Ps+s.Pc) == 0:
			e.Report(st, token.NoPos, "PublishContext/obs/publish-pair", "PublishContext returns on a path that never consulted the observability")
		case known && obsSet && (s.Ps != 1 || s.Pc != 1):
			e.Report(st, token.NoPos, "PublishContext/obs/publish-pair", "observability is set but OnPublishStart ran %d times and OnPublishComplete %d times on this path", s.Ps, s.Pc)
		case known && !obsSet && (s.Ps+s.Pc) != 0:
			e.Report(st, token.NoPos, "PublishContext/obs/publish-pair", "observability is nil but a publish callback is invoked")
		}
	}
}

func framesRuleOf(construct string) string {
	has := func(s string) bool { return strings.Contains(construct, s) }
	switch {
	case has("/obs/"):
		return "C20.R1"
	case has("/hooks/"):
		return "C08.R3"
	case has("/persist/"):
		return "C09.R1"
	case has("panic-handler"):
		return "C05.R2"
	case has("under-sequential-lock"):
		return "C05.R3"
	case has("sequential-lock-released"), has("sequential-unlock"):
		return "C05.R3"
	case has("sequential-test"), has("sequential-lock"):
		return "C07.R1"
	case has("count-before-spawn"), has("add-inside"), has("add-delta"), has("add-without-spawn"):
		return "C06.R1"
	case has("done-exactly-once"), has("done-outside-goroutine"):
		return "C06.R2"
	case has("dispatch/phase"):
		return "C08.R3"
	}
	return "C06.R1"
}

// runFrames runs the automaton and files obligations for the wanted rules.
func runFrames(c *Ctx, p *Prog, R *BusRoles, want map[string]string) {
	e := NewEngine(p)
	e.StepOver = true
	rn := R.RegName()
	for _, f := range []string{R.RegOnce, R.RegAsync, R.RegSeq, R.RegFilter, R.RegHandler, R.RegHandlerType} {
		e.Immutable[rn+"."+f] = true
	}
	for _, f := range []string{R.BusObs, R.BusPanicH, R.BusBefore, R.BusAfter, R.BusBeforeCtx, R.BusAfterCtx} {
		e.Immutable["EventBus."+f] = true
	}
	m := func() map[token.Pos]bool { return map[token.Pos]bool{} }
	r := &framesRule{R: R, spawnSites: m(), addSites: m(), doneSites: m(), lockSites: m(), invSites: m(), hookSites: m(), obsSites: m(), phSites: m(), persistSites: m()}
	r.ev = &busEvents{R: R, E: e}
	r.hookIdx = map[string]int{R.BusBefore: 0, R.BusBeforeCtx: 1, R.BusAfter: 2, R.BusAfterCtx: 3}
	if len(R.PublishFn.Params) != 3 {
		c.Unresolved("FRAMES", "UNRESOLVED-ANCHOR/PublishContext-signature", "PublishContext no longer has the (bus, ctx, event) signature")
		return
	}
	fnm := fnName(R.PublishFn)
	r.eventCanon = "param:" + fnm + "." + R.PublishFn.Params[2].Name()
	cn := R.PublishFn.Params[1].Name()
	r.ctxCanons = append([]string{"param:" + fnm + "." + cn, "cell:" + fnm + "." + cn + "@"}, publishCtxPhiCanons(R.PublishFn)...)
	r.loops = loopsOf(R.LoopFn)
	r.header = dispatchLoopHeader(R)
	if r.header == nil {
		c.Unresolved("FRAMES", "UNRESOLVED-ANCHOR/dispatch-loop", "no loop in PublishContext contains a dispatch")
		return
	}
	init := frameSigma{Ph: 'a', L: 'n', X: 'n', K: 'n'}
	e.Run(r, R.PublishFn, init.String())
	c.Stats["product_states"] += e.States
	if e.Exhausted {
		c.Unresolved("FRAMES", "engine/state-budget", "frames automaton exceeded its state budget")
	}
	for _, f := range e.Findings {
		rule := framesRuleOf(f.Construct)
		if as, ok := want[rule]; ok {
			c.Violate(as, f.Construct, p.Pos(f.Pos), f.Msg, f.Trace)
		}
	}
	dis := func(rule, construct, detail string) {
		if as, ok := want[rule]; ok {
			c.Discharge(as, construct, "", detail)
		}
	}
	for pos := range r.spawnSites {
		dis("C06.R1", "PublishContext/async-go#"+siteOrd(r.spawnSites, pos), "exactly one Add(1) on the bus wait group in the publisher between the previous spawn and this go statement, none inside the goroutine")
		dis("C06.R2", "PublishContext/async-goroutine#"+siteOrd(r.spawnSites, pos), "Done exactly once on every exit of the goroutine body (return, context skip, panic)")
	}
	for pos := range r.invSites {
		dis("C07.R1", "dispatch-fn/invocation#"+siteOrd(r.invSites, pos), "if the sequential flag is set the registration's own mutex is held at this invocation")
		dis("C05.R3", "dispatch-fn/invocation#"+siteOrd(r.invSites, pos), "on this invocation's panic edge the sequential lock is released and wait-group counts are balanced")
		dis("C20.R1", "dispatch-fn/invocation#"+siteOrd(r.invSites, pos), "OnHandlerStart once before, OnHandlerComplete once on every exit incl. recovered panic")
	}
	for pos := range r.phSites {
		dis("C05.R2", "dispatch-fn/panic-handler-call#"+siteOrd(r.phSites, pos), "called exactly once iff a panic was recovered and the handler is set, with (event, handlerType, recover())")
	}
	for pos := range r.hookSites {
		dis("C08.R3", "PublishContext/hook-call#"+siteOrd(r.hookSites, pos), "exactly once per publish on every path, in its phase, with (TypeOf(event), event)")
	}
	for pos := range r.persistSites {
		dis("C09.R1", "PublishContext/persist-call#"+siteOrd(r.persistSites, pos), "static call of the persist function exactly once on every path, ahead of the snapshot, with the publish ctx and event")
	}
	for pos := range r.obsSites {
		dis("C20.R1", "obs-call#"+siteOrd(r.obsSites, pos), "paired on every path")
	}
	c.Stats["spawn_sites"] = len(r.spawnSites)
	c.Stats["wg_add_sites"] = len(r.addSites)
	c.Stats["wg_done_sites"] = len(r.doneSites)
	c.Stats["seq_lock_sites"] = len(r.lockSites)
	c.Stats["handler_invocation_sites"] = len(r.invSites)
	c.Stats["hook_call_sites"] = len(r.hookSites)
	c.Stats["obs_call_sites"] = len(r.obsSites)
	c.Stats["panic_handler_call_sites"] = len(r.phSites)
	c.Stats["persist_call_sites"] = len(r.persistSites)
}

func dispatchLoopHeader(R *BusRoles) *ssa.BasicBlock {
	return loopContaining(R.LoopFn, func(in ssa.Instruction) bool {
		switch in := in.(type) {
		case *ssa.Go:
			return true
		case *ssa.Call:
			if sc := in.Common().StaticCallee(); sc != nil {
				if sc == R.DispatchFn || sc.Origin() == R.DispatchFn {
					return true
				}
			}
		}
		return false
	})
}
