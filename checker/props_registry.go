package main

import (
	"fmt"
	"sort"
	"strings"
)

// lockObligations files guarded-by results (rule a), restricted by a filter on the
// guarded "Type.field".
func lockObligations(c *Ctx, res *lockResult, rule string, fieldFilter func(key string) bool) int {
	n := 0
	var keys []string
	for k := range res.Accesses {
		keys = append(keys, k)
	}
	sort.Strings(keys)
	for _, k := range keys {
		if fieldFilter != nil && !fieldFilter(k) {
			continue
		}
		a := res.Accesses[k]
		n++
		if a.OK {
			c.Discharge(rule, "guarded-by/"+k, a.Pos, a.Detail)
		} else {
			c.Violate(rule, "guarded-by/"+k, a.Pos, a.Detail, a.Witness)
		}
	}
	return n
}

func init() {
	register("C01", &PropDef{
		Explain: "Structural necessary conditions of 'Publish reaches exactly the subscribed handlers, once each, in order' (the registry mechanism; the behaviour over all histories is not decided): (R1) every access to the registry map uses the shard selected by the shard function for key k and indexes the map with that same k, k being reflect.TypeOf of the event type — so types sharing a shard can never see each other's handlers; whole-map operations only inside a loop provably covering every shard; (R2) the shard function is a pure, in-range function of the type (effect table + constant evaluation of mask vs array length); (R3) the dispatch loop ranges over a private copy of the registry list made under the read lock, and the live list has no use after the lock is released; (R4) per-registration delivery automaton: filter verdict before dispatch, at most one dispatch per registration per publish, skips only for filter/context/claim; (R5) registry edits: Subscribe appends a fresh registration at the tail after applying options; Unsubscribe removes exactly the matched element order-preservingly, at most once, returning nil iff it removed; the once-retirement removes by pointer identity; Clear deletes only its key; ClearAll resets every shard; HasHandlers/HandlerCount are len(lookup). Added from seeded changes: the filter of a registration is evaluated (also when its parameter type is not the static type of the publish) before the claim and the dispatch; every registry access a publish makes, also in helpers, is keyed by the dynamic type; (R6) the stages ahead of the dispatch loop run no user callback under a bus lock, so a callback that publishes cannot stop the outer publish from reaching its handlers.",
		Run: func(c *Ctx) {
			c.Rule("C01.R1", "key agreement: shard chosen by shardFn(k), map indexed by the same k = reflect type of the event; whole-map ops only in a full loop")
			c.Rule("C01.R2", "shard function: pure function of the type, index provably within the shard array")
			c.Rule("C01.R3", "snapshot isolation: dispatch ranges over a private copy taken under the read lock")
			c.Rule("C01.R4", "delivery automaton: filter before dispatch, at most one dispatch per registration, recognised skips only")
			c.Rule("C01.R5", "registry edit shapes of Subscribe/Unsubscribe/once-retirement/Clear/ClearAll/HasHandlers/HandlerCount")
			p, R := busRoles(c, "C01.R1")
			if R == nil {
				return
			}
			checkKeyAgreement(c, p, R, "C01.R1")
			checkShardFunction(c, p, R, "C01.R2")
			checkSnapshot(c, p, R, "C01.R3")
			runDelivery(c, p, R, deliveryRuleOf, map[string]string{"C01.R4": "C01.R4"})
			checkRegistryEdits(c, p, R, "C01.R5")
			checkWriteBacks(c, p, R, "C01.R5")
			checkPublishCtxNotNarrowed(c, p, R, "C01.R4")
			c.Floor("C01.R4", "dispatch sites", c.Stats["dispatch_sites"], 2)
			// a publish reaches its dispatch loop: the stages ahead of it (persistence) call no
			// user callback while a bus lock is held — a callback that publishes (a dead-letter
			// event from the persistence error handler) would block, and the outer publish
			// would never invoke its handlers
			c.Rule("C01.R6", "no user callback under a bus lock ahead of the dispatch loop (re-entrant publish from the persistence stage)")
			nb := c.Borrow("C01.R6", func(k string) bool {
				return strings.Contains(k, "outside-lock") || strings.Contains(k, "error-handler-call@") || strings.Contains(k, "obs-pairing")
			}, func(c2 *Ctx) {
				runPersist(c2, p, R, map[string]string{"C13.R2": "X", "C20.R1": "X"})
			})
			c.Floor("C01.R6", "persistence-stage callbacks checked", nb, 1)
			c.Assume = append(c.Assume, "reflect.Type values are comparable map keys identifying a type", "delivered values equal published values (not decided)", "interface-typed T: Publish keys by dynamic type, Subscribe by static type (outside the quantifier)")
		},
	})
	register("C02", &PropDef{
		Explain: "Structural necessary conditions of 'subscribe, unsubscribe and publish stay consistent under every interleaving' (the linearizability-style statement over schedules is not decided): (R1) guarded-by: every read of the registry map happens with at least the read lock, every write with the write lock, of the same shard object (lock sets over the inlined supergraph from every exported root and escaping closure); (R2) read-modify-write atomicity: every list written back to the registry derives only from a lookup of the same key made after the write lock was taken, with no release in between, removing by pointer identity — no lost or duplicated subscription; (R3) the publish snapshot is a private copy taken under the read lock and once handlers are claimed by compare-and-swap. (R4) Deliveries are not lost for a foreign reason: the dispatch function is handed the publish context (provenance), and no exit of the dispatch function leaves the sequential lock held.",
		Run: func(c *Ctx) {
			c.Rule("C02.R1", "guarded-by for the registry: reads under ≥RLock, writes under Lock, of the same shard")
			c.Rule("C02.R2", "registry read-modify-write inside one write-locked region, derived from the current list only, removal by pointer identity")
			c.Rule("C02.R3", "snapshot under the read lock; once claim by CAS")
			p, R := busRoles(c, "C02.R1")
			if R == nil {
				return
			}
			res := runLocksFull(p, busGuards(R), map[string]bool{PkgBus: true}, false, busImmutable(R))
			c.Stats["product_states"] += res.States
			c.Stats["lock_roots"] = res.Roots + res.Closures
			c.Stats["lock_ops"] = res.LockOps
			shardField := R.ShardT.Obj().Name() + "." + R.ShardMap
			n := lockObligations(c, res, "C02.R1", func(k string) bool { return strings.Contains(k, "/"+shardField+"/") })
			c.Floor("C02.R1", "registry accesses under lock analysis", n, 12)
			for _, f := range res.Misc {
				c.Violate("C02.R1", "locking/"+f.Construct, p.Pos(f.Pos), f.Msg, f.Trace)
			}
			if res.Exhausted {
				c.Unresolved("C02.R1", "engine/state-budget", "lock-set exploration exceeded its budget")
			}
			checkWriteBacks(c, p, R, "C02.R2")
			checkRegistryEdits(c, p, R, "C02.R2")
			checkSnapshot(c, p, R, "C02.R3")
			runDelivery(c, p, R, deliveryRuleOf, map[string]string{"C04.R1": "C02.R3", "C04.R2": "C02.R3"})
			// "receives that event exactly once": a subscribed handler is skipped only for the
			// publish context's own cancellation, and a delivery can never block forever on a
			// sequential lock leaked by an earlier (panicking) delivery
			c.Rule("C02.R4", "deliveries are not lost for a foreign reason: dispatch gets the publish context; no sequential lock survives a delivery")
			c.Borrow("C02.R4", func(k string) bool {
				return strings.Contains(k, "dispatch-context") || strings.Contains(k, "handler-context")
			}, func(c2 *Ctx) {
				checkHandlerCtxProvenance(c2, p, R)
			})
			if c.Borrow("C02.R4", func(k string) bool {
				return strings.Contains(k, "sequential-lock-released") || strings.Contains(k, "sequential-unlock")
			}, func(c2 *Ctx) {
				runFrames(c2, p, R, map[string]string{"C05.R3": "X"})
			}) == 0 {
				c.Discharge("C02.R4", "dispatch-fn/sequential-lock-released", "", "every exit of the dispatch function (return, recovered panic) releases the sequential lock it took")
			}
			c.Assume = append(c.Assume, "sync.RWMutex semantics", "an array/slice element read twice on one path is not changed in between")
			_ = fmt.Sprint
		},
	})
}
