package main

func init() {
	register("C09", &PropDef{
		Explain: "Structural necessary conditions of 'every publish on a persistent bus is recorded once, before it is delivered': (R1) PublishContext reaches the persist function by a static call exactly once on every path, ahead of the handler snapshot, with the publish context and the published event — so no option order or later hook can displace persistence (if persistence were installed through a hook slot instead, every writer of that slot would have to chain it); (R2) the persist function calls EventStore.Append exactly once on every path on which a store is set and marshalling succeeded, synchronously (not in a loop, goroutine or deferred call), so the record is in the store before the snapshot; (R3) the record's Type originates from EventType(event) and its Data from json.Marshal(event) of the same event parameter; (R4) Append is called with the bus's store write lock held and lastOffset is written with Append's offset result inside that same locked region; the bundled memory store increments and formats its counter under its own write lock. Not decided: that stores return distinct increasing offsets (C10), decoding equality. Also: the context derived for the append is still live when Append is called (no cancel before it); the bundled stores decode every record read back into an object of its own. (R6) nothing a bundled store obtains under one call's context is kept in a field for later calls (an append must run under its own caller's context).",
		Run: func(c *Ctx) {
			c.Rule("C09.R1", "persist function statically called once per publish ahead of the snapshot, with the publish ctx and event; not displaceable by hooks")
			c.Rule("C09.R2", "Append exactly once on store-set ∧ marshal-ok paths, synchronous, never in a loop/goroutine")
			c.Rule("C09.R3", "record content: Type ← EventType(event), Data ← json.Marshal(event)")
			c.Rule("C09.R4", "Append under the store write lock; lastOffset written with Append's offset in the same region; memory store counter under its lock")
			p, R := busRoles(c, "C09.R1")
			if R == nil {
				return
			}
			runFrames(c, p, R, map[string]string{"C09.R1": "C09.R1"})
			c.Floor("C09.R1", "persist call sites in PublishContext", c.Stats["persist_call_sites"], 1)
			checkPersistNotViaHookSlot(c, p, R, "C09.R1")
			runPersist(c, p, R, map[string]string{"C09.R2": "C09.R2", "C09.R3": "C09.R3", "C09.R4": "C09.R4", "C13.R1": "C09.R2"})
			c.Floor("C09.R2", "Append sites", c.Stats["persist_append_sites"], 1)
			// the name recorded is EventType's, and EventType derives it from the value at hand
			checkEventTypeSpec(c, p, R, "C09.R3")
			if pd := c.Prog(ModDurable); pd != nil {
				checkWriters(c, pd, "C09.R5", []writerSpec{{PkgDurable, "Store", nil}})
			}
			checkMemoryStoreAppend(c, p, "C09.R4")
			c.Rule("C09.R5", "the bundled SQLite store can append while a read cursor is open (pool not capped to one connection, no exclusive locking mode)")
			if ps := c.Prog(ModSQLite); ps != nil {
				checkPoolNotStarved(c, ps, "C09.R5")
				checkStoreDecodeTargets(c, ps, PkgSQLite, "C09.R3")
			}
			// "decoding a record yields the published value": the bundled stores decode each
			// record into its own object
			if pd := c.Prog(ModDurable); pd != nil {
				checkStoreDecodeTargets(c, pd, PkgDurable, "C09.R3")
				c.Rule("C09.R6", "a bundled store's append runs under its own caller's context: nothing obtained under one call's context is kept in a field for later calls")
				checkNoRequestScopedState(c, pd, PkgDurable, "C09.R6")
			}
			if ps := c.Prog(ModSQLite); ps != nil {
				checkNoRequestScopedState(c, ps, PkgSQLite, "C09.R6")
			}
			c.Assume = append(c.Assume, "EventStore.Append is synchronous in the bundled stores", "json.Marshal/EventType are deterministic functions of the event")
		},
	})
	register("C13", &PropDef{
		Explain: "All paths of the loop-free persist function are enumerated (exhaustive for that function) and classified by the predicates store-set / marshal-ok / append-ok / handler-set / observability-set: (R1) #Append ≤ 1 on every path and = 0 on marshal-failure paths (no retry, no partial write path); (R2) the persistence error handler is called exactly once on paths with (marshal error ∨ append error) ∧ handler set, never otherwise, outside the store lock, with the event, its reflect.Type and an error whose origins include the failing error; (R3) lastOffset is stored only on append-success paths, with Append's offset; (R4) containment: the persist function has no result the publisher could branch on, contains no explicit panic/exit and no panic edge leaves it, the timeout context's cancel is deferred, and PublishContext's dispatch does not depend on it (it is called as a statement ahead of the snapshot). Not decided: store-side atomicity of a failed append; behaviour of third-party stores after a timeout.",
		Run: func(c *Ctx) {
			c.Rule("C13.R1", "#Append ≤ 1 per path, 0 after a marshal failure, never in a loop")
			c.Rule("C13.R2", "error handler exactly once on failure paths (if set), outside the store lock, with (event, type, wrapped failing error)")
			c.Rule("C13.R3", "lastOffset advances only on successful appends, with Append's offset")
			c.Rule("C13.R4", "containment: no result, no panic/exit, cancel deferred; publish continues regardless")
			p, R := busRoles(c, "C13.R1")
			if R == nil {
				return
			}
			runPersist(c, p, R, map[string]string{"C13.R1": "C13.R1", "C13.R2": "C13.R2", "C13.R3": "C13.R3", "C13.R4": "C13.R4", "C09.R2": "C13.R1", "C09.R4": "C13.R3"})
			runFrames(c, p, R, map[string]string{"C09.R1": "C13.R4"})
			// a failed append leaves nothing behind in the bundled stores that a later append depends on
			c.Rule("C13.R5", "bundled stores' Append keeps no per-store state between calls (nothing of a failed append can poison the next)")
			if ps := c.Prog(ModSQLite); ps != nil {
				checkWriters(c, ps, "C13.R5", []writerSpec{{PkgSQLite, "SQLiteStore", nil}})
			}
			if pd := c.Prog(ModDurable); pd != nil {
				n := checkWriters(c, pd, "C13.R5", []writerSpec{{PkgDurable, "Store", nil}})
				c.Floor("C13.R5", "durable-streams store field writers", n, 3)
				checkNoRetryTransport(c, pd, "C13.R5")
			}
			c.Floor("C13.R2", "error handler call sites", c.Stats["persist_error_handler_sites"], 1)
			c.Floor("C13.R1", "path classes", c.Stats["persist_path_classes"], 5)
			c.Assume = append(c.Assume, "the store's Append either stores the whole record or nothing")
		},
	})
}
