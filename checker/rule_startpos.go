package main

import (
	"go/constant"
	"go/token"
	"sort"
	"strings"

	"golang.org/x/tools/go/ssa"
)

// checkReadStartsAfterFrom (C10.R6 / C11.R3 / C12.R6): every SELECT the SQLite store runs
// on behalf of Read / ReadStream binds, as the position the read starts after, a value
// derived from the caller's `from` offset (through the offset parser) — on the first
// query of a paging loop as well. A start position that can be the zero value (a field a
// composite literal leaves unset, a fresh cursor object, a constant) re-delivers the log
// from the beginning whatever offset the caller resumes from.
//
// The sources of the bound value are traced backwards through parameters (to every call
// site), results of package functions, local cells and — field by field — through small
// structs passed by value or pointer (plans, cursors), where a field that a literal does
// not set counts as the zero value.
func checkReadStartsAfterFrom(c *Ctx, p *Prog, rule string) {
	ix := newIPIndex(p)
	var roots []*ssa.Function
	for _, m := range []string{"Read", "ReadStream"} {
		if f := p.Method(PkgSQLite, "SQLiteStore", m); f != nil {
			roots = append(roots, f)
		}
	}
	if len(roots) == 0 {
		c.Unresolved(rule, "UNRESOLVED-ANCHOR/SQLiteStore.Read", "Read / ReadStream not found")
		return
	}
	seenFn := map[*ssa.Function]bool{}
	var fns []*ssa.Function
	for _, r := range roots {
		for _, f := range reachFuncs(p, r, PkgSQLite) {
			if !seenFn[f] {
				seenFn[f] = true
				fns = append(fns, f)
			}
		}
	}
	n := 0
	perFn := map[string]int{}
	for _, f := range fns {
		li := loopsOf(f)
		for _, b := range f.Blocks {
			for _, in := range b.Instrs {
				call, ok := in.(*ssa.Call)
				if !ok {
					continue
				}
				nm := calleeName(call.Common())
				if !strings.HasSuffix(nm, ").QueryContext") && !strings.HasSuffix(nm, ").QueryRowContext") {
					continue
				}
				bound := boundArgs(call)
				if len(bound) == 0 {
					continue
				}
				n++
				name := FuncDisplay(f)
				perFn[name]++
				construct := name + "/query#" + string(rune('0'+perFn[name])) + "/starts-after-from"
				a := &spAnalyzer{p: p, ix: ix, out: map[string]bool{}, seen: map[ssa.Value]bool{}, seenF: map[string]bool{}}
				arg := bound[0]
				header := li.headerOf[b]
				if ph, isPhi := stripConv(arg).(*ssa.Phi); isPhi && header != nil && ph.Block() == header {
					// a loop-carried cursor: the value it enters the loop with
					body := li.body[header]
					for i, pr := range header.Preds {
						if !body[pr] && i < len(ph.Edges) {
							a.src(ph.Edges[i], 0)
						}
					}
				} else {
					a.src(arg, 0)
				}
				var cls []string
				for k := range a.out {
					cls = append(cls, k)
				}
				sort.Strings(cls)
				desc := strings.Join(cls, ", ")
				switch {
				case a.out["zero"] || a.out["const"]:
					c.Violate(rule, construct, p.Pos(in.Pos()), "the position this read of the log starts after can be a zero value / constant instead of the caller's offset (sources: "+desc+"): a resumed read or stream re-delivers events at or before `from`", nil)
				case hasOther(a.out):
					c.Unresolved(rule, construct, "cannot trace the position bound to this query back to the caller's offset (sources: "+desc+")")
				case a.out["from"]:
					c.Discharge(rule, construct, p.Pos(in.Pos()), "the start position derives from the caller's offset ("+desc+")")
				default:
					c.Violate(rule, construct, p.Pos(in.Pos()), "the position this read starts after does not derive from the caller's offset (sources: "+desc+")", nil)
				}
			}
		}
	}
	c.Floor(rule, "queries of the SQLite read paths", n, 2)
}

func hasOther(m map[string]bool) bool {
	for k := range m {
		if strings.HasPrefix(k, "other") {
			return true
		}
	}
	return false
}

// boundArgs: the values bound to the placeholders of a Query call (elements of its
// variadic argument slice).
func boundArgs(call *ssa.Call) []ssa.Value {
	args := call.Common().Args
	if len(args) == 0 {
		return nil
	}
	sl, ok := args[len(args)-1].(*ssa.Slice)
	if !ok {
		return nil
	}
	al, ok := sl.X.(*ssa.Alloc)
	if !ok {
		return nil
	}
	tmp := map[int64]ssa.Value{}
	for _, ref := range *al.Referrers() {
		if ia, ok := ref.(*ssa.IndexAddr); ok {
			idx, _ := ia.Index.(*ssa.Const)
			for _, r2 := range *ia.Referrers() {
				if st, ok := r2.(*ssa.Store); ok && st.Addr == ia && idx != nil {
					tmp[idx.Int64()] = stripConv(st.Val)
				}
			}
		}
	}
	var out []ssa.Value
	for i := int64(0); i < int64(len(tmp)); i++ {
		out = append(out, tmp[i])
	}
	return out
}

type spAnalyzer struct {
	p     *Prog
	ix    *ipIndex
	out   map[string]bool
	seen  map[ssa.Value]bool
	seenF map[string]bool
}

func (a *spAnalyzer) src(v ssa.Value, d int) {
	v = stripConv(v)
	if d > 14 {
		a.out["other:depth"] = true
		return
	}
	if a.seen[v] {
		return
	}
	a.seen[v] = true
	switch x := v.(type) {
	case *ssa.Const:
		if x.Value != nil && x.Value.Kind() == constant.Int && constant.Sign(x.Value) == 0 {
			a.out["zero"] = true
		} else {
			a.out["const"] = true
		}
	case *ssa.Phi:
		for _, ed := range x.Edges {
			a.src(ed, d+1)
		}
	case *ssa.Parameter:
		args := a.ix.argFor(x)
		if len(args) == 0 {
			a.out["other:parameter "+x.Name()+" of "+x.Parent().Name()] = true
		}
		for _, arg := range args {
			a.src(arg, d+1)
		}
	case *ssa.Extract:
		if call, ok := x.Tuple.(*ssa.Call); ok {
			a.fromCall(call, x.Index, d)
		} else {
			a.out["other:extract"] = true
		}
	case *ssa.Call:
		a.fromCall(x, 0, d)
	case *ssa.Field:
		a.fieldSrc(x.X, x.Field, d+1)
	case *ssa.UnOp:
		if x.Op != token.MUL {
			a.out["other:unop"] = true
			return
		}
		switch y := x.X.(type) {
		case *ssa.Alloc:
			stores := 0
			for _, ref := range *y.Referrers() {
				switch r := ref.(type) {
				case *ssa.Store:
					if r.Addr == ssa.Value(y) {
						stores++
						a.src(r.Val, d+1)
					}
				case *ssa.MakeInterface:
					a.out["rowpos"] = true // its address is handed to a row scanner
				}
			}
			if stores == 0 && !a.out["rowpos"] {
				a.out["zero"] = true
			}
		case *ssa.FieldAddr:
			a.fieldSrc(y.X, y.Field, d+1)
		case *ssa.FreeVar:
			// a captured variable: what the enclosing function bound
			fn := y.Parent()
			found := false
			if pf := fn.Parent(); pf != nil {
				for _, b := range pf.Blocks {
					for _, in := range b.Instrs {
						if mc, ok := in.(*ssa.MakeClosure); ok && mc.Fn == ssa.Value(fn) {
							for i, fv := range fn.FreeVars {
								if fv == y && i < len(mc.Bindings) {
									found = true
									if al, ok := mc.Bindings[i].(*ssa.Alloc); ok {
										for _, ref := range *al.Referrers() {
											if st, ok := ref.(*ssa.Store); ok && st.Addr == ssa.Value(al) {
												a.src(st.Val, d+1)
											}
										}
									} else {
										a.src(mc.Bindings[i], d+1)
									}
								}
							}
						}
					}
				}
			}
			if !found {
				a.out["other:captured variable"] = true
			}
		default:
			a.out["other:load"] = true
		}
	default:
		a.out["other:"+strings.SplitN(v.String(), "(", 2)[0]] = true
	}
}

// fromCall: result number idx of call.
func (a *spAnalyzer) fromCall(call *ssa.Call, idx int, d int) {
	for _, arg := range call.Common().Args {
		if isNamed(arg.Type(), PkgBus, "Offset") {
			a.out["from"] = true // the offset parser applied to the caller's offset
			return
		}
	}
	sc := call.Common().StaticCallee()
	if sc != nil && sc.Origin() != nil {
		sc = sc.Origin()
	}
	if sc == nil || PkgOf(sc) != PkgSQLite || len(sc.Blocks) == 0 {
		a.out["other:call "+calleeName(call.Common())] = true
		return
	}
	for _, ret := range returnsOf(sc) {
		if idx < len(ret.Results) {
			a.src(ret.Results[idx], d+1)
		}
	}
}

// fieldSrc: field number field of the struct (or pointer to struct) value sv.
func (a *spAnalyzer) fieldSrc(sv ssa.Value, field int, d int) {
	sv = stripConv(sv)
	key := sv.Name() + "@" + fnNameOf(sv) + "#" + string(rune('0'+field))
	if d > 14 || a.seenF[key] {
		return
	}
	a.seenF[key] = true
	switch x := sv.(type) {
	case *ssa.Alloc:
		a.litField(x, field, d)
	case *ssa.UnOp:
		if x.Op == token.MUL {
			if al, ok := x.X.(*ssa.Alloc); ok {
				a.litField(al, field, d)
				return
			}
		}
		a.out["other:struct loaded from memory"] = true
	case *ssa.Phi:
		for _, ed := range x.Edges {
			a.fieldSrc(ed, field, d+1)
		}
	case *ssa.Parameter:
		args := a.ix.argFor(x)
		if len(args) == 0 {
			a.out["other:struct parameter "+x.Name()] = true
		}
		for _, arg := range args {
			a.fieldSrc(arg, field, d+1)
		}
		// a pointer parameter: the object's field may also be written through it elsewhere
		a.storesThroughPointers(x, field, d)
	case *ssa.Extract:
		if call, ok := x.Tuple.(*ssa.Call); ok {
			a.fieldOfCall(call, x.Index, field, d)
		}
	case *ssa.Call:
		a.fieldOfCall(x, 0, field, d)
	default:
		a.out["other:struct value"] = true
	}
}

func fnNameOf(v ssa.Value) string {
	if f := v.Parent(); f != nil {
		return f.String()
	}
	return ""
}

func (a *spAnalyzer) fieldOfCall(call *ssa.Call, idx, field, d int) {
	sc := call.Common().StaticCallee()
	if sc != nil && sc.Origin() != nil {
		sc = sc.Origin()
	}
	if sc == nil || PkgOf(sc) != PkgSQLite || len(sc.Blocks) == 0 {
		a.out["other:struct from call "+calleeName(call.Common())] = true
		return
	}
	for _, ret := range returnsOf(sc) {
		if idx < len(ret.Results) {
			a.fieldSrc(ret.Results[idx], field, d+1)
		}
	}
}

// litField: the struct object al (a local literal, or a heap object made here): the stores
// to its field made in this function, a whole-value store, stores made through pointers
// to objects of its type elsewhere in the package — and the zero value when the function
// that makes the object never sets the field.
func (a *spAnalyzer) litField(al *ssa.Alloc, field int, d int) {
	own := 0
	escapes := false
	for _, ref := range *al.Referrers() {
		switch x := ref.(type) {
		case *ssa.FieldAddr:
			if x.Field != field {
				continue
			}
			for _, r2 := range *x.Referrers() {
				if st, ok := r2.(*ssa.Store); ok && st.Addr == ssa.Value(x) {
					own++
					a.src(st.Val, d+1)
				}
			}
		case *ssa.Store:
			if x.Addr == ssa.Value(al) {
				own++
				a.fieldSrc(x.Val, field, d+1)
			} else {
				escapes = true
			}
		case *ssa.UnOp, *ssa.DebugRef:
		default:
			escapes = true // passed on as a pointer
		}
	}
	if own == 0 {
		a.out["zero"] = true
	}
	if escapes {
		a.storesThroughPointers(al, field, d)
	}
}

// storesThroughPointers: stores to the same field of objects of obj's struct type made
// through pointers that are not local objects (methods advancing a cursor).
func (a *spAnalyzer) storesThroughPointers(obj ssa.Value, field int, d int) {
	tn := typeName(obj.Type())
	if tn == "" {
		return
	}
	for _, f := range a.p.FuncsIn(PkgSQLite) {
		for _, b := range f.Blocks {
			for _, in := range b.Instrs {
				st, ok := in.(*ssa.Store)
				if !ok {
					continue
				}
				fa, ok := st.Addr.(*ssa.FieldAddr)
				if !ok || fa.Field != field || typeName(fa.X.Type()) != tn {
					continue
				}
				if _, isLocal := fa.X.(*ssa.Alloc); isLocal {
					continue
				}
				a.src(st.Val, d+1)
			}
		}
	}
}

// checkNoRequestScopedState (C09.R6 / C10.R6): an object a store operation obtains under
// its caller's context (the result of a call that was handed that context) is not kept in
// a field for later calls — it would carry the first caller's deadline and cancellation
// into every later append or read.
func checkNoRequestScopedState(c *Ctx, p *Prog, pkg, rule string) {
	n := 0
	var fromCtxCall func(v ssa.Value, d int) *ssa.Call
	fromCtxCall = func(v ssa.Value, d int) *ssa.Call {
		if d > 6 {
			return nil
		}
		switch x := stripConv(v).(type) {
		case *ssa.Extract:
			return fromCtxCall(x.Tuple, d+1)
		case *ssa.Phi:
			for _, ed := range x.Edges {
				if k := fromCtxCall(ed, d+1); k != nil {
					return k
				}
			}
		case *ssa.UnOp:
			if al, ok := x.X.(*ssa.Alloc); ok && x.Op == token.MUL {
				for _, ref := range *al.Referrers() {
					if st, ok := ref.(*ssa.Store); ok && st.Addr == ssa.Value(al) {
						if k := fromCtxCall(st.Val, d+1); k != nil {
							return k
						}
					}
				}
			}
		case *ssa.Call:
			for _, a := range x.Common().Args {
				if isNamed(a.Type(), "context", "Context") {
					if _, isParam := stripConv(a).(*ssa.Parameter); isParam {
						return x
					}
					if ph, isPhi := stripConv(a).(*ssa.Phi); isPhi {
						for _, ed := range ph.Edges {
							if _, isParam := stripConv(ed).(*ssa.Parameter); isParam {
								return x
							}
						}
					}
				}
			}
		}
		return nil
	}
	for _, f := range p.FuncsIn(pkg) {
		for _, b := range f.Blocks {
			for _, in := range b.Instrs {
				st, ok := in.(*ssa.Store)
				if !ok {
					continue
				}
				tn, fld, base, ok := fieldOfAddr(st.Addr)
				if !ok || isFreshObject(base) {
					continue
				}
				n++
				if call := fromCtxCall(st.Val, 0); call != nil {
					c.Violate(rule, "request-scoped-state/"+tn+"."+fld+"/in/"+FuncDisplay(f), p.Pos(in.Pos()), "the result of "+calleeName(call.Common())+", obtained under this call's context, is kept in "+tn+"."+fld+" for later calls: they run under the first caller's deadline and cancellation (an append after that context ended fails although its own context is live)", nil)
				}
			}
		}
	}
	c.Discharge(rule, "request-scoped-state/none-cached/"+shortPkg(pkg), "", "no field of a shared object is assigned a value obtained under a caller's context")
	c.Stats["shared_field_stores_"+shortPkg(pkg)] = n
}
