package main

// C01.R5: shapes of the registry edits made by the public API.

import (
	"fmt"
	"go/token"
	"strings"

	"golang.org/x/tools/go/ssa"
)

// removalShape: v == append(L[:i], L[i+1:]...) (or slices.Delete(L, i, i+1)): the
// order-preserving removal of exactly element i of L.
func removalShape(v ssa.Value) (L, idx ssa.Value, ok bool, why string) {
	call, isCall := stripConv(v).(*ssa.Call)
	if !isCall {
		return nil, nil, false, "not a call"
	}
	c := call.Common()
	if n := calleeName(c); n == "slices.Delete" && len(c.Args) == 3 {
		if bo, ok := c.Args[2].(*ssa.BinOp); ok && bo.Op == token.ADD && bo.X == c.Args[1] {
			if k, ok := bo.Y.(*ssa.Const); ok && k.Value != nil && k.Int64() == 1 {
				return c.Args[0], c.Args[1], true, "slices.Delete(L, i, i+1)"
			}
		}
		return nil, nil, false, "slices.Delete with a range other than [i, i+1)"
	}
	bi, isB := c.Value.(*ssa.Builtin)
	if !isB || bi.Name() != "append" || len(c.Args) != 2 {
		return nil, nil, false, "not append(a, b...)"
	}
	s1, ok1 := c.Args[0].(*ssa.Slice)
	s2, ok2 := c.Args[1].(*ssa.Slice)
	if !ok1 || !ok2 {
		return nil, nil, false, "append operands are not both sub-slices"
	}
	if stripConv(s1.X) != stripConv(s2.X) {
		return nil, nil, false, "head and tail are sliced from different lists"
	}
	if s1.Low != nil && !isConstInt(s1.Low, 0) {
		return nil, nil, false, "head does not start at 0"
	}
	if s1.High == nil || s2.High != nil || s2.Low == nil {
		return nil, nil, false, "not head[:i] + tail[i+1:]"
	}
	bo, ok := s2.Low.(*ssa.BinOp)
	if !ok || bo.Op != token.ADD || bo.X != s1.High || !isConstInt(bo.Y, 1) {
		return nil, nil, false, "tail does not start at i+1 for the head's i"
	}
	return s1.X, s1.High, true, "append(L[:i], L[i+1:]...)"
}

func isConstInt(v ssa.Value, n int64) bool {
	k, ok := v.(*ssa.Const)
	return ok && k.Value != nil && k.Int64() == n
}

// condMentionsElement: the backward slice of cond contains &L[idx].
func condMentionsElement(cond, L, idx ssa.Value) bool {
	seen := map[ssa.Value]bool{}
	var walk func(v ssa.Value, d int) bool
	walk = func(v ssa.Value, d int) bool {
		if v == nil || seen[v] || d > 12 {
			return false
		}
		seen[v] = true
		switch x := v.(type) {
		case *ssa.IndexAddr:
			return stripConv(x.X) == stripConv(L) && x.Index == idx
		case *ssa.UnOp:
			return walk(x.X, d+1)
		case *ssa.BinOp:
			return walk(x.X, d+1) || walk(x.Y, d+1)
		case *ssa.FieldAddr:
			return walk(x.X, d+1)
		case *ssa.Field:
			return walk(x.X, d+1)
		case *ssa.Call:
			for _, a := range x.Common().Args {
				if walk(a, d+1) {
					return true
				}
			}
			if x.Common().IsInvoke() {
				return walk(x.Common().Value, d+1)
			}
		case *ssa.ChangeType:
			return walk(x.X, d+1)
		case *ssa.MakeInterface:
			return walk(x.X, d+1)
		case *ssa.Extract:
			return walk(x.Tuple, d+1)
		}
		return false
	}
	return walk(cond, 0)
}

// guardingCond returns the condition of the If that immediately controls blk (the
// terminator of its immediate dominator, when blk is that If's true successor).
func guardingCond(blk *ssa.BasicBlock) (ssa.Value, bool) {
	for b := blk; b != nil; b = b.Idom() {
		if len(b.Preds) == 1 {
			p := b.Preds[0]
			if iff, ok := p.Instrs[len(p.Instrs)-1].(*ssa.If); ok {
				return iff.Cond, p.Succs[0] == b
			}
		}
		if b != blk {
			break
		}
	}
	return nil, false
}

// freshRegistration: v is a registration allocated by the API call: a heap allocation in
// the current function, or a parameter whose argument at every call site is one.
func freshRegistration(ix *ipIndex, v ssa.Value, d int) bool {
	switch x := stripConv(v).(type) {
	case *ssa.Alloc:
		return x.Heap
	case *ssa.Call:
		// a constructor of the package all of whose returns are fresh heap allocations
		sc := x.Common().StaticCallee()
		if sc == nil || d > 3 {
			return false
		}
		if o := sc.Origin(); o != nil {
			sc = o
		}
		if !ix.p.InScope(sc) || len(sc.Blocks) == 0 {
			return false
		}
		n := 0
		for _, ret := range returnsOf(sc) {
			if len(ret.Results) != 1 || !freshRegistration(ix, ret.Results[0], d+1) {
				return false
			}
			n++
		}
		return n > 0
	case *ssa.Parameter:
		args := ix.argFor(x)
		if len(args) == 0 || d > 3 {
			return false
		}
		for _, a := range args {
			if !freshRegistration(ix, a, d+1) {
				return false
			}
		}
		return true
	}
	return false
}

func checkRegistryEdits(c *Ctx, p *Prog, R *BusRoles, rule string) {
	ix := newIPIndex(p)
	acc := registryAccesses(p, R)
	byFn := map[string][]regAccess{}
	for _, a := range acc {
		byFn[FuncDisplay(a.Fn)] = append(byFn[FuncDisplay(a.Fn)], a)
	}
	// Subscribe / SubscribeContext: tail insertion of a fresh registration
	for _, name := range []string{"Subscribe", "SubscribeContext"} {
		var ups []regAccess
		for _, a := range byFn[name] {
			if a.Kind == "update" {
				ups = append(ups, a)
			}
			if a.Kind == "delete" || a.Kind == "replace" {
				c.Violate(rule, name+"/no-removal", p.Pos(a.In.Pos()), name+" removes registry entries", nil)
			}
		}
		if len(ups) != 1 {
			c.Violate(rule, name+"/one-insertion", "", fmt.Sprintf("%s writes the registry %d times (want exactly one insertion)", name, len(ups)), nil)
			continue
		}
		a := ups[0]
		pos := p.Pos(a.HomeIn.Pos())
		homeUp, _ := a.HomeIn.(*ssa.MapUpdate)
		call, ok := stripConv(a.Val).(*ssa.Call)
		okShape := false
		if ok && homeUp != nil {
			if bi, isB := call.Common().Value.(*ssa.Builtin); isB && bi.Name() == "append" && len(call.Common().Args) == 2 {
				if lk, isLk := R.isRegistryLookup(call.Common().Args[0]); isLk && sameValue(lk.Index, homeUp.Key) {
					d := &derivation{}
					deriveSlice(call.Common().Args[1], R, d, map[ssa.Value]bool{})
					if len(d.fresh) == 1 && len(d.lookups) == 0 && len(d.other) == 0 {
						okShape = freshRegistration(ix, d.fresh[0], 0)
					}
				}
			}
		}
		c.Check(okShape, rule, name+"/tail-insertion-of-fresh-registration", pos,
			"registry[k] = append(registry[k], h) with h allocated by this call: subscription order is list order, one registration per call",
			"the insertion is not append(current list, fresh registration): subscription order or one-registration-per-call is broken")
		// options are applied before the registration becomes visible
		okOpts := true
		nOpts := 0
		for _, g := range reachFuncs(p, p.Func(PkgBus, name), PkgBus) {
			for _, b := range g.Blocks {
				for _, in := range b.Instrs {
					if call, isCall := in.(*ssa.Call); isCall && isDynamicCall(call.Common()) && len(call.Common().Args) == 1 && typeName(call.Common().Args[0].Type()) == R.RegName() {
						nOpts++
						if g == a.Home && reaches(a.HomeIn, in) {
							okOpts = false
						}
						if g != a.Home && a.Home != p.Func(PkgBus, name) && g == p.Func(PkgBus, name) {
							// options applied in the API function after the helper that inserts?
							for _, ci := range ix.callers[a.Home] {
								if ci.Parent() == g && reaches(ci, in) {
									okOpts = false
								}
							}
						}
					}
				}
			}
		}
		c.Check(okOpts && nOpts > 0, rule, name+"/options-before-insertion", pos, "subscribe options are applied to the registration before it is inserted", "a subscribe option can run after the registration was inserted (publishers may see it half-configured)")
		// the registration records the event type key it is stored under
		_ = nOpts
	}
	// Unsubscribe
	{
		name := "Unsubscribe"
		var ups []regAccess
		for _, a := range byFn[name] {
			if a.Kind == "update" {
				ups = append(ups, a)
			}
			if a.Kind == "delete" || a.Kind == "replace" {
				c.Violate(rule, name+"/removes-one", p.Pos(a.In.Pos()), "Unsubscribe removes more than one registration (whole list / whole map)", nil)
			}
		}
		if len(ups) != 1 {
			c.Violate(rule, name+"/one-removal", "", fmt.Sprintf("Unsubscribe has %d registry write sites (want one)", len(ups)), nil)
		} else {
			a := ups[0]
			pos := p.Pos(a.HomeIn.Pos())
			L, idx, ok, why := removalShape(a.Val)
			if !ok {
				c.Violate(rule, name+"/order-preserving-removal", pos, "the list written back is not the order-preserving removal of one element ("+why+"): the relative order of the remaining registrations changes or more than one is removed", nil)
			} else {
				_, isLk := R.isRegistryLookup(L)
				c.Check(isLk, rule, name+"/order-preserving-removal", pos, why+" on the looked-up list", "the removal is applied to a list other than the registry lookup")
				cond, onTrue := guardingCond(a.HomeIn.Block())
				// the element matched: `x == h` taken true, or `x != h` taken false (continue-style)
				matchedArm := onTrue
				if cs, pol := condStrip(cond); cond != nil {
					if bo, isBo := cs.(*ssa.BinOp); isBo && bo.Op == token.NEQ {
						matchedArm = !onTrue
					}
					if !pol {
						matchedArm = !matchedArm
					}
				}
				okIdx := cond != nil && matchedArm && condMentionsElement(cond, L, idx)
				if !okIdx {
					okIdx = indexFoundBySearch(idx, L, R)
				}
				c.Check(okIdx, rule, name+"/removes-the-matched-element", pos, "the removed index is the index whose element matched the handler", "the removed index is not the index at which the handler comparison succeeded")
			}
			c.Check(!reaches(a.HomeIn, a.HomeIn), rule, name+"/at-most-one-removal", pos, "no path performs the removal twice", "the removal can execute more than once per call")
			unsubscribeReturns(c, p, R, rule, p.Func(PkgBus, "Unsubscribe"))
		}
	}
	// once-removal in PublishContext: pointer identity
	for _, a := range byFn["PublishContext"] {
		if a.Kind != "update" {
			continue
		}
		pos := p.Pos(a.HomeIn.Pos())
		d := &derivation{}
		deriveSlice(a.Val, R, d, map[ssa.Value]bool{})
		// every append in the derivation must have the removal shape, guarded by a pointer comparison
		okAll, n := true, 0
		seen := map[ssa.Value]bool{}
		var walk func(v ssa.Value)
		walk = func(v ssa.Value) {
			v = stripConv(v)
			if v == nil || seen[v] {
				return
			}
			seen[v] = true
			switch x := v.(type) {
			case *ssa.Phi:
				for _, e := range x.Edges {
					walk(e)
				}
			case *ssa.Slice:
				// a bare re-slice of the list (handlers[:0], handlers[:n]) drops registrations
				// that were never matched against a claimed one
				okAll = false
				n++
				c.Violate(rule, "PublishContext/once-removal/shape", p.Pos(x.Pos()), "once-handler retirement re-slices the registry list ("+describeValue(x)+") instead of removing the claimed registrations one by one by identity: registrations added since the snapshot are dropped with them", nil)
			case *ssa.Call:
				if bi, ok := x.Common().Value.(*ssa.Builtin); ok && bi.Name() == "append" {
					n++
					L, idx, ok, why := removalShape(x)
					if !ok {
						okAll = false
						c.Violate(rule, "PublishContext/once-removal/shape", p.Pos(x.Pos()), "once-handler retirement does not remove exactly one element order-preservingly ("+why+")", nil)
						return
					}
					cond, onTrue := guardingCond(x.Block())
					bo, isBo := cond.(*ssa.BinOp)
					byEq := isBo && onTrue && bo.Op == token.EQL && typeName(bo.X.Type()) == R.RegName() && typeName(bo.Y.Type()) == R.RegName() && condMentionsElement(cond, L, idx)
					if !byEq && !indexFoundByIdentitySearch(idx, L, R) {
						okAll = false
						c.Violate(rule, "PublishContext/once-removal/pointer-identity", p.Pos(x.Pos()), "once-handler retirement does not select the element by pointer identity with the claimed registration", nil)
					}
					walk(L)
				}
			}
		}
		walk(a.Val)
		if okAll && n > 0 {
			c.Discharge(rule, "PublishContext/once-removal/pointer-identity", pos, fmt.Sprintf("%d removal step(s), each append(L[:i], L[i+1:]...) guarded by L[i] == claimed registration", n))
		} else if n == 0 {
			c.Violate(rule, "PublishContext/once-removal/shape", pos, "the once-handler retirement writes a list that is not produced by element removal", nil)
		}
	}
	// Clear: a delete of exactly the type key
	{
		n := 0
		for _, a := range byFn["Clear"] {
			switch a.Kind {
			case "delete":
				n++
				c.Discharge(rule, "Clear/delete-of-key", p.Pos(a.In.Pos()), "delete(registry, k)")
			case "update":
				if k, ok := a.Val.(*ssa.Const); ok && k.Value == nil {
					n++
					c.Discharge(rule, "Clear/delete-of-key", p.Pos(a.In.Pos()), "registry[k] = nil")
				} else {
					c.Violate(rule, "Clear/delete-of-key", p.Pos(a.In.Pos()), "Clear writes a non-empty list", nil)
				}
			case "replace", "range", "clearmap":
				c.Violate(rule, "Clear/only-its-type", p.Pos(a.In.Pos()), "Clear[T] operates on the whole shard map: every other event type routed to the same shard loses its handlers", nil)
			}
		}
		if n != 1 {
			c.Violate(rule, "Clear/delete-of-key/count", "", fmt.Sprintf("Clear has %d key removals (want exactly one)", n), nil)
		}
	}
	// ClearAll: handled by C01.R1 (full loop); require at least one replacement
	{
		n := 0
		for _, a := range byFn["ClearAll"] {
			if a.Kind == "replace" || a.Kind == "clearmap" {
				n++
				if a.Kind == "replace" {
					_, isMM := stripConv(a.Val).(*ssa.MakeMap)
					c.Check(isMM, rule, "ClearAll/fresh-empty-map", p.Pos(a.In.Pos()), "each shard gets a fresh empty map", "ClearAll stores something other than a fresh empty map")
				}
			}
		}
		if n == 0 {
			c.Violate(rule, "ClearAll/replaces-maps", "", "ClearAll does not reset the shard maps", nil)
		}
	}
	// HasHandlers / HandlerCount: functions of len(lookup)
	for _, name := range []string{"HasHandlers", "HandlerCount"} {
		f := p.Func(PkgBus, name)
		if f == nil {
			c.Unresolved(rule, "UNRESOLVED-ANCHOR/"+name, "function not found")
			continue
		}
		okAll, rets := true, 0
		for _, b := range f.Blocks {
			ret, ok := b.Instrs[len(b.Instrs)-1].(*ssa.Return)
			if !ok || len(ret.Results) != 1 {
				continue
			}
			// the answer for a nil bus (a guard on the bus parameter) is outside the property
			if cond, onTrue := guardingCond(b); cond != nil {
				if x, nonNilOnTrue, isNil := nilTest(cond); isNil && onTrue != nonNilOnTrue {
					if prm := entryParam(x); prm != nil && prm.Parent() == f && typeName(prm.Type()) == "EventBus" {
						continue
					}
				}
			}
			rets++
			v := ret.Results[0]
			// through a named-result cell?
			v = loadThroughLocal(v)
			// len(registry[k]) directly, or through helpers of the package that return it, or
			// through a view function handed to a helper that applies it to the lookup:
			// evaluated with parameters standing for the arguments
			type bindT map[*ssa.Parameter]ssa.Value
			var evalCount func(v ssa.Value, bd bindT, d int) string
			resolveV := func(v ssa.Value, bd bindT) ssa.Value {
				for i := 0; i < 6; i++ {
					v = loadThroughLocal(stripConv(v))
					pr, ok := v.(*ssa.Parameter)
					if !ok {
						break
					}
					a, ok := bd[pr]
					if !ok {
						break
					}
					v = a
				}
				return v
			}
			evalFn := func(g *ssa.Function, args []ssa.Value, bd bindT, d int) string {
				if g == nil || len(g.Blocks) == 0 || PkgOf(g) != PkgBus && (g.Parent() == nil || PkgOf(outermost(g)) != PkgBus) {
					return ""
				}
				nb := bindT{}
				for k, v := range bd {
					nb[k] = v
				}
				for i, prm := range g.Params {
					if i < len(args) {
						nb[prm] = resolveV(args[i], bd)
					}
				}
				res := ""
				for _, ret := range returnsOf(g) {
					if len(ret.Results) != 1 {
						return ""
					}
					r := evalCount(resolveResult(ret, 0), nb, d+1)
					if r == "" || (res != "" && r != res) {
						return ""
					}
					res = r
				}
				return res
			}
			evalCount = func(v ssa.Value, bd bindT, d int) string {
				if d > 4 {
					return ""
				}
				v = resolveV(v, bd)
				switch x := v.(type) {
				case *ssa.BinOp:
					if (x.Op == token.GTR || x.Op == token.NEQ) && isConstInt(x.Y, 0) && evalCount(x.X, bd, d+1) == "count" {
						return "count>0"
					}
					return ""
				case *ssa.Call:
					if bi, ok := x.Common().Value.(*ssa.Builtin); ok {
						if bi.Name() != "len" {
							return ""
						}
						if _, isLk := R.isRegistryLookup(resolveV(x.Common().Args[0], bd)); isLk {
							return "count"
						}
						return ""
					}
					if sc := x.Common().StaticCallee(); sc != nil {
						if o := sc.Origin(); o != nil {
							sc = o
						}
						return evalFn(sc, x.Common().Args, bd, d)
					}
					// a function value: a parameter bound to a closure / function of the package
					if g := funcOfValue(resolveV(x.Common().Value, bd)); g != nil {
						return evalFn(g, x.Common().Args, bd, d)
					}
				}
				return ""
			}
			got := evalCount(v, bindT{}, 0)
			good := (name == "HasHandlers" && got == "count>0") || (name == "HandlerCount" && got == "count")
			if !good && len(b.Preds) > 0 {
				okAll = false
			} else if !good && b.Comment == "recover" {
				// synthetic recover block returns the named result
			} else if !good {
				okAll = false
			}
		}
		want := "len(registry[k])"
		if name == "HasHandlers" {
			want = "len(registry[k]) > 0"
		}
		c.Check(okAll && rets > 0, rule, name+"/agrees-with-registry", p.Pos(f.Pos()), "returns "+want+" of the lookup made under the lock", name+" does not return "+want+" of the registry lookup")
	}
}

func loadThroughLocal(v ssa.Value) ssa.Value {
	if u, ok := v.(*ssa.UnOp); ok && u.Op == token.MUL {
		if a, ok := u.X.(*ssa.Alloc); ok {
			// a result cell written earlier in the same block (`*r = x; rundefers; t = *r`)
			if blk := u.Block(); blk != nil {
				var last ssa.Value
				for _, in := range blk.Instrs {
					if in == ssa.Instruction(u) {
						break
					}
					if st, ok := in.(*ssa.Store); ok && st.Addr == ssa.Value(a) {
						last = st.Val
					}
				}
				if last != nil {
					return last
				}
			}
			var stored ssa.Value
			n := 0
			for _, ref := range *a.Referrers() {
				if st, ok := ref.(*ssa.Store); ok && st.Addr == a {
					stored = st.Val
					n++
				}
			}
			if n == 1 {
				return stored
			}
		}
	}
	return v
}

// unsubscribeReturns explores Unsubscribe's paths: a path with a removal returns nil, a
// path without one returns a non-nil error.
type unsubRule struct {
	BaseRule
	R *BusRoles
}

// helpers of the package are explored with their caller (the removal may live in one)
func (r *unsubRule) Inline(fn *ssa.Function) bool { return PkgOf(fn) == PkgBus }

// boolean flags (`removed`) and results of helpers are followed along the path
func (r *unsubRule) PredOK(k string) bool { return strings.Contains(k, "v:") }
func (r *unsubRule) OnInstr(e *Engine, st *State, fc *FrameCtx, in ssa.Instruction) bool {
	u, res := st.Sigma[0], st.Sigma[1]
	// what the path knows about error cells and about the results of explored helpers:
	// ";<frame>:<value>=<class>" entries after the two state bytes
	tail := st.Sigma[2:]
	get := func(key string) byte {
		if i := strings.LastIndex(tail, ";"+key+"="); i >= 0 {
			return tail[i+len(key)+2]
		}
		return '?'
	}
	set := func(key string, c byte) {
		if i := strings.LastIndex(tail, ";"+key+"="); i >= 0 {
			b := []byte(tail)
			b[i+len(key)+2] = c
			tail = string(b)
			return
		}
		tail += ";" + key + "=" + string(c)
	}
	classify := func(v ssa.Value) byte {
		if c := classifyErrAt(e, st, fc, v); c != '?' {
			return c
		}
		switch x := v.(type) {
		case *ssa.UnOp:
			if a, ok := x.X.(*ssa.Alloc); ok && x.Op == token.MUL {
				return get(fc.id + ":" + a.Name()) // the last store on this path
			}
		case *ssa.Call:
			return get(fc.id + ":" + x.Name()) // the result of an explored helper
		}
		return '?'
	}
	switch x := in.(type) {
	case *ssa.MapUpdate:
		if _, ok := r.R.isRegistryMapLoad(x.Map); ok && u < '2' {
			u++
		}
	case *ssa.Store:
		if a, ok := x.Addr.(*ssa.Alloc); ok && typeName(a.Type()) == "error" {
			set(fc.id+":"+a.Name(), classify(x.Val))
		}
	case *ssa.Return:
		if len(x.Results) == 1 && typeName(x.Results[0].Type()) == "error" {
			c := classify(x.Results[0])
			if call, ok := fc.site.(*ssa.Call); ok && fc.parent != nil {
				set(fc.parent.id+":"+call.Name(), c)
			} else if fc.parent == nil {
				res = c
			}
		}
	}
	st.Sigma = string([]byte{u, res}) + tail
	return false
}

func classifyErr(e *Engine, v ssa.Value) byte {
	if k, ok := v.(*ssa.Const); ok && k.Value == nil {
		return 'n'
	}
	if e.neverNil(nil, v, 0) {
		return 'e'
	}
	return '?'
}

// classifyErrAt also uses what the path knows about the value (an error returned by an
// inlined helper whose returning arm was non-nil, a value tested against nil).
func classifyErrAt(e *Engine, st *State, fc *FrameCtx, v ssa.Value) byte {
	if c := classifyErr(e, v); c != '?' {
		return c
	}
	cv := e.CanonS(fc, v)
	if isNil, known := st.pi["("+minStr("nil", cv)+"=="+maxStr("nil", cv)+")"]; known {
		if isNil {
			return 'n'
		}
		return 'e'
	}
	return '?'
}

func (r *unsubRule) OnExit(e *Engine, st *State, kind ExitKind) {
	if kind != ExitReturn {
		return
	}
	u, res := st.Sigma[0], st.Sigma[1]
	switch {
	case u == '0' && res != 'e':
		e.Report(st, token.NoPos, "Unsubscribe/not-found-returns-error", "a path that removes nothing does not return a non-nil error (result class %c)", res)
	case u == '1' && res != 'n':
		e.Report(st, token.NoPos, "Unsubscribe/removal-returns-nil", "a path that removed a registration does not return nil (result class %c)", res)
	case u >= '2':
		e.Report(st, token.NoPos, "Unsubscribe/at-most-one-removal", "a path removes more than one registration")
	}
}

func unsubscribeReturns(c *Ctx, p *Prog, R *BusRoles, rule string, f *ssa.Function) {
	e := NewEngine(p)
	r := &unsubRule{R: R}
	e.Run(r, f, "0?")
	c.Stats["product_states"] += e.States
	if len(e.Findings) == 0 {
		c.Discharge(rule, "Unsubscribe/result-agrees-with-effect", p.Pos(f.Pos()), "every path: one removal ⇒ nil, no removal ⇒ non-nil error")
	}
	for _, fd := range e.Findings {
		c.Violate(rule, fd.Construct, p.Pos(fd.Pos), fd.Msg, fd.Trace)
	}
}

// indexFoundBySearch: idx is the result of slices.IndexFunc / slices.Index over L.
func indexFoundBySearch(idx, L ssa.Value, R *BusRoles) bool {
	call, ok := stripConv(idx).(*ssa.Call)
	if !ok {
		return false
	}
	n := calleeName(call.Common())
	if n != "slices.IndexFunc" && n != "slices.Index" {
		return false
	}
	return stripConv(call.Common().Args[0]) == stripConv(L)
}

// indexFoundByIdentitySearch: idx = slices.Index(L, x) with x a registration pointer
// (== on pointers is identity).
func indexFoundByIdentitySearch(idx, L ssa.Value, R *BusRoles) bool {
	call, ok := stripConv(idx).(*ssa.Call)
	if !ok || calleeName(call.Common()) != "slices.Index" || len(call.Common().Args) != 2 {
		return false
	}
	return stripConv(call.Common().Args[0]) == stripConv(L) && typeName(call.Common().Args[1].Type()) == R.RegName()
}
