package main

// Event classification for the publish / dispatch machinery of package ebu. All
// identification is by role (roles.go), resolved callees and value shape.

import (
	"go/token"
	"go/types"
	"strings"

	"golang.org/x/tools/go/ssa"
)

type busEvents struct {
	R *BusRoles
	E *Engine
}

// regFieldOf: v is a load of <reg>.<field> of the registration struct; returns the
// field name and the canonical name of the registration value.
func (b *busEvents) regFieldLoad(fc *FrameCtx, v ssa.Value) (field, regCanon string, ok bool) {
	tn, fld, base, ok := fieldLoad(v)
	if !ok || tn != b.R.RegName() {
		return "", "", false
	}
	return fld, b.E.CanonS(fc, base), true
}

func (b *busEvents) regFieldAddr(fc *FrameCtx, addr ssa.Value) (field, regCanon string, ok bool) {
	tn, fld, base, ok := fieldOfAddr(addr)
	if !ok || tn != b.R.RegName() {
		return "", "", false
	}
	return fld, b.E.CanonS(fc, base), true
}

func (b *busEvents) busFieldLoad(v ssa.Value) (field string, ok bool) {
	tn, fld, _, ok := fieldLoad(v)
	if !ok || tn != "EventBus" {
		return "", false
	}
	return fld, true
}

// throughAssert: v is (an extract of) a type assertion; returns the asserted operand.
func throughAssert(v ssa.Value) (ssa.Value, bool) {
	v = stripConv(v)
	if ex, ok := v.(*ssa.Extract); ok && ex.Index == 0 {
		if ta, ok := ex.Tuple.(*ssa.TypeAssert); ok {
			return ta.X, true
		}
	}
	if ta, ok := v.(*ssa.TypeAssert); ok {
		return ta.X, true
	}
	return nil, false
}

// handlerInvoke: in is an invocation of the subscribed handler value of a registration.
func (b *busEvents) handlerInvoke(fc *FrameCtx, in ssa.Instruction) (regCanon string, kind string, ok bool) {
	ci, isCall := in.(ssa.CallInstruction)
	if !isCall {
		return "", "", false
	}
	c := ci.Common()
	if isDynamicCall(c) {
		if x, ok := throughAssert(c.Value); ok {
			if fld, rc, ok := b.regFieldLoad(fc, x); ok && fld == b.R.RegHandler {
				return rc, "typed", true
			}
		}
		if fld, rc, ok := b.regFieldLoad(fc, c.Value); ok && fld == b.R.RegHandler {
			return rc, "typed", true
		}
		return "", "", false
	}
	if sc := c.StaticCallee(); sc != nil && sc.String() == "(reflect.Value).Call" && len(c.Args) > 0 {
		if vo, ok := stripConv(c.Args[0]).(*ssa.Call); ok && calleeName(vo.Common()) == "reflect.ValueOf" && len(vo.Common().Args) == 1 {
			if fld, rc, ok := b.regFieldLoad(fc, vo.Common().Args[0]); ok && fld == b.R.RegHandler {
				return rc, "reflect", true
			}
		}
	}
	return "", "", false
}

// filterCall: in is a call of the registration's filter predicate.
func (b *busEvents) filterCall(fc *FrameCtx, in ssa.Instruction) (regCanon string, call *ssa.Call, ok bool) {
	call, isCall := in.(*ssa.Call)
	if !isCall {
		return "", nil, false
	}
	// evaluation through a helper of the package that is handed the registration's filter
	// and answers with a bool (the reflective fallback for a filter whose parameter type is
	// not the static type of the publish)
	if sc := call.Common().StaticCallee(); sc != nil && PkgOf(sc) == PkgBus && !isDynamicCall(call.Common()) {
		if rs := sc.Signature.Results(); rs.Len() == 1 && isBasicKind(rs.At(0).Type(), types.Bool) {
			for _, a := range call.Common().Args {
				if fld, rc, ok := b.regFieldLoad(fc, a); ok && fld == b.R.RegFilter {
					return rc, call, true
				}
			}
			// a helper that is handed the registration and evaluates its filter
			if o := sc.Origin(); o != nil {
				sc = o
			}
			if b.R.FilterHelpers[sc] {
				for _, a := range call.Common().Args {
					if pt, ok := a.Type().Underlying().(*types.Pointer); ok && b.R.RegT != nil && types.Identical(pt.Elem(), b.R.RegT) {
						return b.E.CanonS(fc, a), call, true
					}
				}
			}
		}
		return "", nil, false
	}
	if !isDynamicCall(call.Common()) {
		return "", nil, false
	}
	x, ok := throughAssert(call.Common().Value)
	if !ok {
		x = call.Common().Value
	}
	if fld, rc, ok := b.regFieldLoad(fc, x); ok && fld == b.R.RegFilter {
		return rc, call, true
	}
	return "", nil, false
}

// condOn: the branch condition cond tests (possibly negated) a value; returns that
// value and the polarity (true: branch taken means value is "true"/non-nil/ok).
func condStrip(cond ssa.Value) (ssa.Value, bool) {
	pol := true
	for {
		if u, ok := cond.(*ssa.UnOp); ok && u.Op == token.NOT {
			cond = u.X
			pol = !pol
			continue
		}
		return cond, pol
	}
}

// nilTest: cond is `x != nil` / `x == nil`; returns x and whether the true edge means non-nil.
func nilTest(cond ssa.Value) (ssa.Value, bool, bool) {
	c, pol := condStrip(cond)
	bo, ok := c.(*ssa.BinOp)
	if !ok || (bo.Op != token.EQL && bo.Op != token.NEQ) {
		return nil, false, false
	}
	isNil := func(v ssa.Value) bool { k, ok := v.(*ssa.Const); return ok && k.Value == nil && !isBasic(k.Type()) }
	var x ssa.Value
	switch {
	case isNil(bo.Y):
		x = bo.X
	case isNil(bo.X):
		x = bo.Y
	default:
		return nil, false, false
	}
	nonNilOnTrue := bo.Op == token.NEQ
	if !pol {
		nonNilOnTrue = !nonNilOnTrue
	}
	return x, nonNilOnTrue, true
}

// claimOp: in is the atomic claim of a registration's claim word. kind: "cas01" (the
// canonical CompareAndSwap(&claim,0,1)), "swap1", "store0" (release), "store1", "load",
// "add", "cas10" (release by CAS), "other".
func (b *busEvents) claimOp(fc *FrameCtx, in ssa.Instruction) (regCanon, kind string, ok bool) {
	name, addr, isAtomic := atomicOp(in)
	if !isAtomic {
		return "", "", false
	}
	fld, rc, ok := b.regFieldAddr(fc, addr)
	if !ok || fld != b.R.RegClaim {
		return "", "", false
	}
	args := in.(ssa.CallInstruction).Common().Args
	constVal := func(v ssa.Value) (int64, bool) {
		if k, ok := v.(*ssa.Const); ok && k.Value != nil {
			if k.Type().Underlying().(*types.Basic).Info()&types.IsBoolean != 0 {
				if k.Value.String() == "true" {
					return 1, true
				}
				return 0, true
			}
			return k.Int64(), true
		}
		return 0, false
	}
	switch {
	case hasPrefixAny(name, "CompareAndSwap"):
		if len(args) == 3 {
			o, ok1 := constVal(args[1])
			n, ok2 := constVal(args[2])
			if ok1 && ok2 && o == 0 && n == 1 {
				return rc, "cas01", true
			}
			if ok1 && ok2 && o == 1 && n == 0 {
				return rc, "cas10", true
			}
		}
		return rc, "other", true
	case hasPrefixAny(name, "Swap"):
		if len(args) == 2 {
			if n, ok := constVal(args[1]); ok && n == 1 {
				return rc, "swap1", true
			}
		}
		return rc, "other", true
	case hasPrefixAny(name, "Store"):
		if len(args) == 2 {
			if n, ok := constVal(args[1]); ok && n == 0 {
				return rc, "store0", true
			}
		}
		return rc, "store1", true
	case hasPrefixAny(name, "Load"):
		return rc, "load", true
	case hasPrefixAny(name, "Add"):
		return rc, "add", true
	}
	return rc, "other", true
}

func hasPrefixAny(s string, ps ...string) bool {
	for _, p := range ps {
		if len(s) >= len(p) && s[:len(p)] == p {
			return true
		}
	}
	return false
}

// obsCall: in invokes a method of the Observability interface.
func obsCall(in ssa.Instruction) (method string, call *ssa.CallCommon, ok bool) {
	ci, isCall := in.(ssa.CallInstruction)
	if !isCall {
		return "", nil, false
	}
	c := ci.Common()
	if c.IsInvoke() && isNamed(c.Value.Type(), PkgBus, "Observability") {
		return c.Method.Name(), c, true
	}
	return "", nil, false
}

// hookCall: in is a dynamic call of one of the bus's publish hooks; returns the field.
func (b *busEvents) hookCall(in ssa.Instruction) (field string, call *ssa.CallCommon, ok bool) {
	ci, isCall := in.(ssa.CallInstruction)
	if !isCall || !isDynamicCall(ci.Common()) {
		return "", nil, false
	}
	if fld, ok := b.busFieldLoad(ci.Common().Value); ok {
		switch fld {
		case b.R.BusBefore, b.R.BusAfter, b.R.BusBeforeCtx, b.R.BusAfterCtx:
			return fld, ci.Common(), true
		}
	}
	return "", nil, false
}

// loopHeaders computes, for a function, the natural-loop header of every block (the
// innermost loop it belongs to), from back edges (edges whose target dominates the source).
type loopInfo struct {
	headerOf map[*ssa.BasicBlock]*ssa.BasicBlock // innermost loop header of a block (nil if none)
	body     map[*ssa.BasicBlock]map[*ssa.BasicBlock]bool
}

func loopsOf(fn *ssa.Function) *loopInfo {
	li := &loopInfo{headerOf: map[*ssa.BasicBlock]*ssa.BasicBlock{}, body: map[*ssa.BasicBlock]map[*ssa.BasicBlock]bool{}}
	for _, b := range fn.Blocks {
		for _, s := range b.Succs {
			if s.Dominates(b) { // back edge b -> s
				body := li.body[s]
				if body == nil {
					body = map[*ssa.BasicBlock]bool{s: true}
					li.body[s] = body
				}
				// collect nodes that reach b without passing s
				stack := []*ssa.BasicBlock{b}
				for len(stack) > 0 {
					n := stack[len(stack)-1]
					stack = stack[:len(stack)-1]
					if body[n] {
						continue
					}
					body[n] = true
					stack = append(stack, n.Preds...)
				}
			}
		}
	}
	for h, body := range li.body {
		for blk := range body {
			cur := li.headerOf[blk]
			if cur == nil || len(li.body[h]) < len(li.body[cur]) {
				li.headerOf[blk] = h
			}
		}
	}
	return li
}

// loopContaining returns the header of the innermost loop of fn that contains an
// instruction satisfying pred (nil if none).
func loopContaining(fn *ssa.Function, pred func(ssa.Instruction) bool) *ssa.BasicBlock {
	li := loopsOf(fn)
	var best *ssa.BasicBlock
	for _, b := range fn.Blocks {
		for _, in := range b.Instrs {
			if pred(in) {
				if h := li.headerOf[b]; h != nil {
					if best == nil || len(li.body[h]) < len(li.body[best]) {
						best = h
					}
				}
			}
		}
	}
	return best
}

// mentionsField: the canonical string key refers to a field access ").<f>" (not a
// longer identifier).
func mentionsField(key, f string) bool {
	if f == "" {
		return false
	}
	pat := ")." + f
	for i := 0; ; {
		j := strings.Index(key[i:], pat)
		if j < 0 {
			return false
		}
		end := i + j + len(pat)
		if end == len(key) || !isIdentChar(key[end]) {
			return true
		}
		i = end
	}
}

// isNilPredOn: key has the form "(A==B)" where one side is nil and the other is a
// load of field f.
func isNilPredOn(key, f string) bool {
	if !strings.HasPrefix(key, "(") || !strings.HasSuffix(key, ")") {
		return false
	}
	in := key[1 : len(key)-1]
	var other string
	switch {
	case strings.HasSuffix(in, "==nil"):
		other = strings.TrimSuffix(in, "==nil")
	case strings.HasPrefix(in, "nil=="):
		other = strings.TrimPrefix(in, "nil==")
	default:
		return false
	}
	return strings.HasSuffix(other, ")."+f)
}

// publishCtxPhiCanons: when the publish context is not captured by a closure it is a phi
// of the ctx parameter and what Observability.OnPublishStart returned for it. Those phis
// are the publish context too; returns their canonical names in the root frame.
func publishCtxPhiCanons(fn *ssa.Function) []string {
	if fn == nil || len(fn.Params) < 2 {
		return nil
	}
	var ctxParam *ssa.Parameter
	for _, prm := range fn.Params {
		if isNamed(prm.Type(), "context", "Context") {
			ctxParam = prm
		}
	}
	if ctxParam == nil {
		return nil
	}
	ok := map[ssa.Value]bool{ctxParam: true}
	for changed := true; changed; {
		changed = false
		for _, b := range fn.Blocks {
			for _, in := range b.Instrs {
				switch x := in.(type) {
				case *ssa.Call:
					if !ok[x] && x.Common().IsInvoke() && x.Common().Method.Name() == "OnPublishStart" && len(x.Common().Args) > 0 && ok[stripConv(x.Common().Args[0])] {
						ok[x] = true
						changed = true
					}
				case *ssa.Phi:
					if ok[x] || !isNamed(x.Type(), "context", "Context") {
						continue
					}
					all := true
					for _, ed := range x.Edges {
						if ed != ssa.Value(x) && !ok[stripConv(ed)] {
							all = false
						}
					}
					if all {
						ok[x] = true
						changed = true
					}
				}
			}
		}
	}
	var out []string
	for v := range ok {
		if ph, isPhi := v.(*ssa.Phi); isPhi {
			out = append(out, "v:"+FuncDisplay(fn)+":"+ph.Name())
		}
	}
	return out
}

// pubCtxOracle decides structurally (not along one path) whether a value is the publish
// context: PublishContext's ctx parameter, what Observability.OnPublishStart returned for
// it, a phi / captured cell / parameter / helper result all of whose sources are.
type pubCtxOracle struct {
	p     *Prog
	R     *BusRoles
	ix    *ipIndex
	cells *cellIndex
	memo  map[ssa.Value]int // 1 yes, 2 no, 3 in progress
}

func newPubCtxOracle(p *Prog, R *BusRoles, cells *cellIndex) *pubCtxOracle {
	return &pubCtxOracle{p: p, R: R, ix: newIPIndex(p), cells: cells, memo: map[ssa.Value]int{}}
}

func (o *pubCtxOracle) is(v ssa.Value) bool { return o.walk(v, 0) }

func (o *pubCtxOracle) walk(v ssa.Value, d int) bool {
	v = stripConv(v)
	if v == nil || d > 10 {
		return false
	}
	switch o.memo[v] {
	case 1:
		return true
	case 2:
		return false
	case 3:
		return true // a cycle through phis adds nothing new
	}
	o.memo[v] = 3
	res := false
	switch x := v.(type) {
	case *ssa.Parameter:
		if x.Parent() == o.R.PublishFn {
			res = isNamed(x.Type(), "context", "Context")
		} else if args := o.ix.argFor(x); len(args) > 0 {
			res = true
			for _, a := range args {
				if !o.walk(a, d+1) {
					res = false
				}
			}
		}
	case *ssa.Phi:
		res = len(x.Edges) > 0
		for _, ed := range x.Edges {
			if !o.walk(ed, d+1) {
				res = false
			}
		}
	case *ssa.Extract:
		res = o.callResult(x.Tuple, x.Index, d)
	case *ssa.Call:
		res = o.callResult(x, 0, d)
	case *ssa.UnOp:
		if x.Op == token.MUL {
			var al *ssa.Alloc
			switch a := x.X.(type) {
			case *ssa.Alloc:
				al = a
			case *ssa.FreeVar:
				al = o.cells.freeAlloc[a]
			}
			if al != nil && len(o.cells.stores[al]) > 0 {
				res = true
				for _, sv := range o.cells.stores[al] {
					if !o.walk(sv, d+1) {
						res = false
					}
				}
			}
		}
	}
	if res {
		o.memo[v] = 1
	} else {
		o.memo[v] = 2
	}
	return res
}

func (o *pubCtxOracle) callResult(v ssa.Value, idx, d int) bool {
	call, ok := v.(*ssa.Call)
	if !ok {
		return false
	}
	cc := call.Common()
	if cc.IsInvoke() {
		return cc.Method.Name() == "OnPublishStart" && len(cc.Args) > 0 && o.walk(cc.Args[0], d+1)
	}
	if prm := nilCtxDefault(call); prm != nil {
		return o.walk(prm, d+1)
	}
	rs := o.ix.Returned(call, idx)
	if len(rs) == 0 {
		return false
	}
	for _, r := range rs {
		if !o.walk(r, d+1) {
			return false
		}
	}
	return true
}
