package main

func init() {
	register("C12", &PropDef{
		Explain: "Crash points and interleavings are out of reach; decided are the mechanisms without which the property fails for some history: (R1) a failed LoadOffset must not restart from the beginning — its error is tested and the non-nil arm returns before Replay is called, and Replay starts at the loaded offset; (R2) offset provenance — the offset passed to every SaveOffset in SubscribeWithReplay's closures originates from the Offset of the stored event just handled (not from bus-global state), under the caller's subscription id; lastOffset itself only advances on successful appends; (R3) handle before save — the user's handler call precedes SaveOffset on every path of both closures; (R4) replay-to-live hand-off — necessary condition: a mechanism excluding appends between the replay's last read and the live registration, or a catch-up read after it; (R5) stores key saved offsets by subscription id (memory map; the SQLite upsert is checked under C10.R5); (R6) the replay the subscription relies on returns nil only on exhaustion (C11.R2); (R8) the SQLite reads a resumed subscription relies on start strictly after the saved offset: the position bound to every SELECT of Read/ReadStream derives from the caller's offset, traced through parameters, helper results and plan/cursor structs field by field, an unset literal field counting as zero.",
		Run: func(c *Ctx) {
			c.Rule("C12.R1", "a failed LoadOffset stops the call; replay starts at the loaded offset")
			c.Rule("C12.R2", "the saved offset is the handled event's own offset, under the caller's id; lastOffset never regresses")
			c.Rule("C12.R3", "the user's handler runs before the offset is saved")
			c.Rule("C12.R4", "replay-to-live hand-off excludes appends or catches up")
			c.Rule("C12.R5", "stores key saved offsets by subscription id")
			c.Rule("C12.R6", "the replay underneath returns nil only on exhaustion")
			p, R := busRoles(c, "C12.R1")
			if R == nil {
				return
			}
			checkResume(c, p, R)
			runPersist(c, p, R, map[string]string{"C13.R3": "C12.R2", "C09.R4": "C12.R2"})
			c.Rule("C12.R7", "the replay filter compares stored names with the name events of type T are persisted under")
			for _, h := range typedNameHelpers(p, R) {
				checkTypedHelperSpec(c, p, R, "C12.R7", h)
			}
			checkEventTypeSpec(c, p, R, "C12.R7")
			checkNameSinks(c, p, R, "C12.R7")
			checkReplayStream(c, p, R, "C12.R6")
			checkReplayPaged(c, p, R, "C12.R6")
			if ps := c.Prog(ModSQLite); ps != nil {
				checkSQLOwnership(c, ps, "C12.R5")
				checkAck(c, ps, "C12.R5", "SaveOffset")
				c.Rule("C12.R8", "a read or stream of the SQLite store resumed from a saved offset starts strictly after it (the bound start position derives from the caller's offset, never a zero value)")
				checkReadStartsAfterFrom(c, ps, "C12.R8")
			}
			c.Assume = append(c.Assume, "SaveOffset's own error is ignored by SubscribeWithReplay (benign for the property as stated: an unsaved position only causes re-delivery)")
		},
	})
}
