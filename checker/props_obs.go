package main

import "strings"

func init() {
	register("C20", &PropDef{
		Explain: "Structural conditions of 'observability callbacks are balanced, nested and truthful': (R1) bus-side pairing on every path incl. panic edges — OnPublishStart/OnPublishComplete once each per publish when observability is set (never when nil), OnHandlerStart once before each invocation and OnHandlerComplete once on every exit of the dispatch function including the recovered-panic exit, with an error that is non-nil exactly on the recovered branch and not under the sequential lock; in the persist function #OnPersistStart = #OnPersistComplete = #Append on every path, Complete given Append's error outside the store lock; (R2) context threading — each complete callback's context originates from its start callback's result; handler-start, persist-start and Append contexts descend from the publish context through context.With* only (never Background/TODO/WithoutCancel); (R3) the OpenTelemetry implementation — every path of each On…Start starts exactly one span in a context derived from its parameter, returns the context Start returned and increments exactly its own counter by the constant 1; every path of each On…Complete ends the span of the given context exactly once, records its duration histogram once and increments its error counter exactly once iff err != nil. Not decided: SDK behaviour.",
		Run: func(c *Ctx) {
			c.Rule("C20.R1", "bus-side pairing of start/complete callbacks on every path (publish, handler, persist)")
			c.Rule("C20.R2", "context threading: complete gets start's context; handler/persist contexts descend from the publish context")
			c.Rule("C20.R3", "otel: one span per start, ended exactly once per complete; counters exact")
			p, R := busRoles(c, "C20.R1")
			if R == nil {
				return
			}
			runFrames(c, p, R, map[string]string{"C20.R1": "C20.R1"})
			runPersist(c, p, R, map[string]string{"C20.R1": "C20.R1"})
			// "one handler start/complete per handler invocation": the dispatch function, which
			// brackets the invocation with OnHandlerStart/OnHandlerComplete, does invoke the
			// handler on every path it returns from (no skip inside the observed region)
			if c.Borrow("C20.R1", func(k string) bool { return strings.Contains(k, "invokes-handler") }, func(c2 *Ctx) {
				runDelivery(c2, p, R, deliveryRuleOf, map[string]string{"C04.R2": "X"})
			}) == 0 {
				c.Discharge("C20.R1", "dispatch-fn/invokes-handler", "", "every return of the dispatch function follows an invocation of the handler (or the reflective kind/arity guard)")
			}
			c.Floor("C20.R1", "observability call sites in the dispatch path", c.Stats["obs_call_sites"], 4)
			checkObsThreading(c, p, R, "C20.R2")
			checkHandlerCtxProvenance20(c, p, R)
			if po := c.Prog(ModOtel); po != nil {
				checkOtel(c, po, "C20.R3")
			}
			c.Assume = append(c.Assume, "OpenTelemetry SDK: a span started from a context is a child of that context's span; End is idempotent only in the SDK, not assumed here")
		},
	})
}

// the handler-context provenance of C08.R2, filed under C20.R2 as well
func checkHandlerCtxProvenance20(c *Ctx, p *Prog, R *BusRoles) {
	c2 := NewCtx(c.Prop, c.Tier, c.Repo)
	checkHandlerCtxProvenance(c2, p, R)
	for _, o := range c2.Obls {
		o.Rule = "C20.R2"
		c.add(o)
	}
}
