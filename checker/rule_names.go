package main

// C15: one derivation of type names (E-FLOW + E-TABLE).

import (
	"go/token"
	"go/types"
	"strings"

	"golang.org/x/tools/go/ssa"
)

// blockReaches: control can flow from block a to block b (a == b counts).
func blockReaches(a, b *ssa.BasicBlock) bool {
	seen := map[*ssa.BasicBlock]bool{}
	stack := []*ssa.BasicBlock{a}
	for len(stack) > 0 {
		x := stack[len(stack)-1]
		stack = stack[:len(stack)-1]
		if seen[x] {
			continue
		}
		seen[x] = true
		if x == b {
			return true
		}
		stack = append(stack, x.Succs...)
	}
	return false
}

func returnsOf(f *ssa.Function) []*ssa.Return {
	var out []*ssa.Return
	for _, b := range f.Blocks {
		if b.Comment == "recover" {
			continue
		}
		if r, ok := b.Instrs[len(b.Instrs)-1].(*ssa.Return); ok {
			out = append(out, r)
		}
	}
	return out
}

// isTypeNamerIface: v is reflect.TypeOf((*TypeNamer)(nil)).Elem().
func isTypeNamerIfaceType(v ssa.Value) bool {
	call, ok := stripConv(v).(*ssa.Call)
	if !ok || !call.Common().IsInvoke() || call.Common().Method.Name() != "Elem" {
		return false
	}
	to, ok := stripConv(call.Common().Value).(*ssa.Call)
	if !ok || calleeName(to.Common()) != "reflect.TypeOf" || len(to.Common().Args) != 1 {
		return false
	}
	mi, ok := to.Common().Args[0].(*ssa.MakeInterface)
	if !ok {
		return false
	}
	pt, ok := mi.X.Type().(*types.Pointer)
	return ok && isNamed(pt.Elem(), PkgBus, "TypeNamer")
}

// checkEventTypeSpec: EventType returns namer.EventTypeName() exactly when the event
// implements TypeNamer and reflect.TypeOf(event).String() otherwise.
func checkEventTypeSpec(c *Ctx, p *Prog, R *BusRoles, rule string) {
	f := R.NameFn
	pos := p.Pos(f.Pos())
	var assertIf *ssa.If
	var ta *ssa.TypeAssert
	for _, b := range f.Blocks {
		for _, in := range b.Instrs {
			if x, ok := in.(*ssa.TypeAssert); ok && x.CommaOk && isNamed(x.AssertedType, PkgBus, "TypeNamer") {
				if pr, ok := stripConv(x.X).(*ssa.Parameter); ok && pr.Parent() == f {
					ta = x
				}
			}
		}
	}
	if ta == nil {
		c.Violate(rule, "EventType/consults-TypeNamer", pos, "EventType does not test whether the event implements TypeNamer", nil)
		return
	}
	for _, b := range f.Blocks {
		if iff, ok := b.Instrs[len(b.Instrs)-1].(*ssa.If); ok {
			if ex, ok := iff.Cond.(*ssa.Extract); ok && ex.Tuple == ta && ex.Index == 1 {
				assertIf = iff
			}
		}
	}
	if assertIf == nil {
		c.Unresolved(rule, "EventType/consults-TypeNamer", "the TypeNamer assertion's ok flag is not branched on directly")
		return
	}
	okBlk, failBlk := assertIf.Block().Succs[0], assertIf.Block().Succs[1]
	good := true
	for _, ret := range returnsOf(f) {
		if len(ret.Results) != 1 {
			continue
		}
		v := stripConv(ret.Results[0])
		call, isCall := v.(*ssa.Call)
		switch {
		case isCall && call.Common().IsInvoke() && call.Common().Method.Name() == "EventTypeName":
			// must be on the ok side only, on the asserted value
			ex, isEx := call.Common().Value.(*ssa.Extract)
			if !(isEx && ex.Tuple == ta) || blockReaches(failBlk, ret.Block()) {
				good = false
				c.Violate(rule, "EventType/custom-name-path", p.Pos(ret.Pos()), "the custom name is returned on a path where the event was not shown to implement TypeNamer, or is taken from another value", nil)
			}
		case isCall && call.Common().IsInvoke() && call.Common().Method.Name() == "String" && isNamed(call.Common().Value.Type(), "reflect", "Type"):
			to, isTo := stripConv(call.Common().Value).(*ssa.Call)
			okTo := isTo && calleeName(to.Common()) == "reflect.TypeOf" && len(to.Common().Args) == 1
			if okTo {
				pr, isP := stripConv(to.Common().Args[0]).(*ssa.Parameter)
				okTo = isP && pr.Parent() == f
			}
			if !okTo || blockReaches(okBlk, ret.Block()) {
				good = false
				c.Violate(rule, "EventType/reflect-name-path", p.Pos(ret.Pos()), "the reflection name is not reflect.TypeOf(event).String() on the not-a-TypeNamer path only", nil)
			}
		default:
			good = false
			c.Violate(rule, "EventType/other-name-source", p.Pos(ret.Pos()), "EventType returns a name from a source other than TypeNamer.EventTypeName() / reflect.TypeOf(event).String(): the typed APIs (SubscribeWithReplay[T], RegisterUpcast) derive names by delegating to exactly those two and would disagree", nil)
		}
	}
	if good {
		c.Discharge(rule, "EventType/two-sources", pos, "custom name iff the event implements TypeNamer, else reflect.TypeOf(event).String()")
	}
}

// typedNameHelpers: generic functions of the package, without value parameters, returning
// a string, that call EventType (the helper SubscribeWithReplay/RegisterUpcast use).
func typedNameHelpers(p *Prog, R *BusRoles) []*ssa.Function {
	var out []*ssa.Function
	for _, f := range p.FuncsIn(PkgBus) {
		if f.Parent() != nil || f == R.NameFn || len(f.Params) != 0 || f.Signature.Results().Len() != 1 || f.Signature.TypeParams().Len() == 0 {
			continue
		}
		if b, ok := f.Signature.Results().At(0).Type().Underlying().(*types.Basic); !ok || b.Kind() != types.String {
			continue
		}
		out = append(out, f)
	}
	return out
}

func checkTypedHelperSpec(c *Ctx, p *Prog, R *BusRoles, rule string, f *ssa.Function) {
	name := FuncDisplay(f)
	pos := p.Pos(f.Pos())
	tpName := f.Signature.TypeParams().At(0).Obj().Name()
	// t := reflect.TypeOf((*T)(nil)).Elem()
	var tval ssa.Value
	var impl *ssa.Call
	for _, b := range f.Blocks {
		for _, in := range b.Instrs {
			if call, ok := in.(*ssa.Call); ok && call.Common().IsInvoke() {
				switch call.Common().Method.Name() {
				case "Elem":
					if o := typeKeyOrigin(call); o == "static:"+tpName {
						tval = call
					}
				case "Implements":
					impl = call
				}
			}
		}
	}
	if tval == nil {
		c.Violate(rule, name+"/type-of-T", pos, "the helper does not start from reflect.TypeOf((*T)(nil)).Elem()", nil)
		return
	}
	good := true
	var evRets, strRets []*ssa.Return
	for _, ret := range returnsOf(f) {
		v := stripConv(ret.Results[0])
		call, isCall := v.(*ssa.Call)
		switch {
		case isCall && calleeName(call.Common()) == R.NameFn.String():
			evRets = append(evRets, ret)
			// argument: a value of dynamic type T
			arg := stripConv(call.Common().Args[0])
			okArg := false
			if tp, ok := arg.Type().(*types.TypeParam); ok && tp.Obj().Name() == tpName {
				okArg = true // EventType(zero T)
			}
			if ic, ok := arg.(*ssa.Call); ok && calleeName(ic.Common()) == "(reflect.Value).Interface" {
				okArg = true
				var srcs []ssa.Value
				rv := ic.Common().Args[0]
				if ph, ok := rv.(*ssa.Phi); ok {
					srcs = ph.Edges
				} else {
					srcs = []ssa.Value{rv}
				}
				for _, s := range srcs {
					sc, ok := stripConv(s).(*ssa.Call)
					if !ok {
						okArg = false
						continue
					}
					switch calleeName(sc.Common()) {
					case "reflect.Zero":
						if !sameValue(sc.Common().Args[0], tval) {
							okArg = false
						}
					case "reflect.New":
						// New(t.Elem()) has type t when t is a pointer type
						el, ok := stripConv(sc.Common().Args[0]).(*ssa.Call)
						if !(ok && el.Common().IsInvoke() && el.Common().Method.Name() == "Elem" && sameValue(el.Common().Value, tval)) {
							okArg = false
						}
					default:
						okArg = false
					}
				}
			}
			if !okArg {
				good = false
				c.Violate(rule, name+"/delegates-to-EventType-on-a-T-value", p.Pos(ret.Pos()), "EventType is applied to a value that is not of (dynamic) type T: the typed APIs would look for a different name than the one events of type T are persisted under", nil)
			}
		case isCall && call.Common().IsInvoke() && call.Common().Method.Name() == "String" && sameValue(call.Common().Value, tval):
			strRets = append(strRets, ret)
		default:
			good = false
			c.Violate(rule, name+"/name-sources", p.Pos(ret.Pos()), "the helper returns a name that is neither EventType(value of type T) nor the reflection name of T", nil)
		}
	}
	if len(evRets) == 0 {
		good = false
		c.Violate(rule, name+"/delegates-to-EventType", pos, "the helper never delegates to EventType: custom EventTypeName()s are ignored", nil)
	}
	if len(strRets) > 0 {
		// the reflection fallback must be exactly the not-a-TypeNamer case of T itself
		if impl == nil || !sameValue(impl.Common().Value, tval) || !isTypeNamerIfaceType(impl.Common().Args[0]) {
			good = false
			c.Violate(rule, name+"/fallback-guard", pos, "the reflection-name fallback is not guarded by t.Implements(TypeNamer) on T's own type (e.g. it tests the pointed-to type): pointer event types with a pointer-receiver EventTypeName are looked up under the wrong name", nil)
		} else {
			var implIf *ssa.If
			for _, b := range f.Blocks {
				if iff, ok := b.Instrs[len(b.Instrs)-1].(*ssa.If); ok && iff.Cond == ssa.Value(impl) {
					implIf = iff
				}
			}
			if implIf == nil {
				good = false
				c.Unresolved(rule, name+"/fallback-guard", "Implements result is not branched on directly")
			} else {
				// tests evaluated before Implements may only exclude interface kinds (a
				// nil interface has no dynamic type to ask); any other early exit to the
				// reflection name ignores a TypeNamer the type does implement
				for _, b := range f.Blocks {
					iff, ok := b.Instrs[len(b.Instrs)-1].(*ssa.If)
					if !ok || iff == implIf || !b.Dominates(implIf.Block()) {
						continue
					}
					okKind := false
					if bo, ok := iff.Cond.(*ssa.BinOp); ok && (bo.Op == token.EQL || bo.Op == token.NEQ) {
						if call, ok := bo.X.(*ssa.Call); ok && call.Common().IsInvoke() && call.Common().Method.Name() == "Kind" && sameValue(call.Common().Value, tval) {
							if k, ok := bo.Y.(*ssa.Const); ok && k.Value != nil && k.Int64() == 20 { // reflect.Interface
								okKind = true
							}
						}
					}
					if !okKind {
						good = false
						c.Violate(rule, name+"/fallback-guard", p.Pos(iff.Pos()), "a test other than 'T is an interface type' is made before asking whether T implements TypeNamer and can divert to the reflection name: some types that implement TypeNamer (e.g. pointer types) are looked up under their reflection name while their events are persisted under the custom one", nil)
					}
				}
				tb, fb := implIf.Block().Succs[0], implIf.Block().Succs[1]
				for _, r := range strRets {
					if blockReaches(tb, r.Block()) && !blockReaches(fb, r.Block()) {
						good = false
						c.Violate(rule, name+"/fallback-guard", p.Pos(r.Pos()), "the reflection name is returned although T implements TypeNamer", nil)
					}
				}
				for _, r := range evRets {
					if blockReaches(fb, r.Block()) {
						good = false
						c.Violate(rule, name+"/fallback-guard", p.Pos(r.Pos()), "EventType is applied to a zero value on the not-a-TypeNamer path", nil)
					}
				}
			}
		}
	}
	if good {
		c.Discharge(rule, name+"/agrees-with-EventType", pos, "returns EventType(zero/new value of type T) when T implements TypeNamer, else T's reflection name — the same two sources EventType uses")
	}
}

// checkNameSinks: every comparison with a stored type name and every typed upcast
// registration takes its name from a name function.
func checkNameSinks(c *Ctx, p *Prog, R *BusRoles, rule string) {
	e := NewEngine(p)
	flow := NewFlow(p, e.cells)
	nameFns := map[string]bool{"call:" + FuncDisplay(R.NameFn) + "#0": true}
	flow.Opaque = map[*ssa.Function]bool{}
	for _, h := range typedNameHelpers(p, R) {
		nameFns["call:"+FuncDisplay(h)+"#0"] = true
		flow.Opaque[h] = true
	}
	fromName := func(os []string) (bool, string) {
		for _, o := range os {
			if nameFns[o] {
				continue
			}
			return false, o
		}
		return len(os) > 0, ""
	}
	isStoredSide := func(os []string) bool {
		for _, o := range os {
			if o == "field:StoredEvent.Type" || strings.HasPrefix(o, "call:(*"+R.UpRegT.Obj().Name()+").apply#1") {
				return true
			}
		}
		return false
	}
	nCmp, nReg := 0, 0
	for _, f := range p.FuncsIn(PkgBus) {
		if f.Synthetic != "" {
			continue
		}
		for _, b := range f.Blocks {
			for _, in := range b.Instrs {
				switch x := in.(type) {
				case *ssa.BinOp:
					if (x.Op != token.EQL && x.Op != token.NEQ) || !isStringType(x.X.Type()) {
						continue
					}
					ox, oy := flow.Origins(x.X), flow.Origins(x.Y)
					var other []string
					switch {
					case isStoredSide(ox) && !isStoredSide(oy):
						other = oy
					case isStoredSide(oy) && !isStoredSide(ox):
						other = ox
					default:
						continue
					}
					// comparisons against the parameter of an API taking a name (register,
					// apply, clearType) are not typed sinks
					if ok, _ := onlyOrigins(other, "param:", "const:", "field:Upcaster."); ok {
						continue
					}
					nCmp++
					construct := FuncDisplay(f) + "/stored-type-comparison"
					if ok, bad := fromName(other); ok {
						c.Discharge(rule, construct, p.Pos(in.Pos()), "the Go type's name comes from a name function ("+strings.Join(other, ",")+")")
					} else {
						c.Violate(rule, construct, p.Pos(in.Pos()), "a stored event's type name is compared with a name that does not come from EventType / its typed helper (origin "+bad+"): events whose type provides EventTypeName() are never matched", nil)
					}
				case ssa.CallInstruction:
					sc := x.Common().StaticCallee()
					if sc == nil || (sc != R.RegisterFn && sc.Origin() != R.RegisterFn) || len(x.Common().Args) != 4 {
						continue
					}
					for i, role := range []string{"from", "to"} {
						os := flow.Origins(x.Common().Args[i+1])
						if ok, _ := onlyOrigins(os, "param:"); ok {
							continue // raw API: the caller supplies names
						}
						nReg++
						construct := FuncDisplay(f) + "/register-" + role + "-type"
						if ok, bad := fromName(os); ok {
							c.Discharge(rule, construct, p.Pos(in.Pos()), "name from "+strings.Join(os, ","))
						} else {
							c.Violate(rule, construct, p.Pos(in.Pos()), "the "+role+"-type of a typed upcast registration does not come from EventType / its typed helper (origin "+bad+")", nil)
						}
					}
				}
			}
		}
	}
	// the name a typed upcaster returns
	c.Stats["stored_type_comparisons"] = nCmp
	c.Stats["typed_register_args"] = nReg
}

func isStringType(t types.Type) bool {
	b, ok := t.Underlying().(*types.Basic)
	return ok && b.Kind() == types.String
}

// checkTypeNamerImpl: named types of pkg that declare EventTypeName implement TypeNamer
// on value receivers (so T and *T both satisfy it).
func checkTypeNamerImpl(c *Ctx, p *Prog, rule string, pkg string, typesWanted []string) {
	busPkg := p.All[PkgBus]
	sp := p.All[pkg]
	if busPkg == nil || sp == nil {
		c.Unresolved(rule, "UNRESOLVED-ANCHOR/package "+pkg, "package not loaded")
		return
	}
	tn := busPkg.Types.Scope().Lookup("TypeNamer")
	if tn == nil {
		c.Unresolved(rule, "UNRESOLVED-ANCHOR/TypeNamer", "interface not found")
		return
	}
	iface := tn.Type().Underlying().(*types.Interface)
	for _, name := range typesWanted {
		obj := sp.Types.Scope().Lookup(name)
		if obj == nil {
			c.Unresolved(rule, "UNRESOLVED-ANCHOR/"+pkg+"."+name, "type not found")
			continue
		}
		okVal := types.Implements(obj.Type(), iface)
		c.Check(okVal, rule, "state."+name+"/implements-TypeNamer-by-value", "", "value and pointer both satisfy TypeNamer", "state."+name+" does not implement TypeNamer on its value receiver: published values are stored under their reflection name while pointers use the custom one")
	}
}
