package main

// C15: one derivation of type names (E-FLOW + E-TABLE).

import (
	"go/token"
	"go/types"
	"strings"

	"golang.org/x/tools/go/ssa"
)

// blockReaches: control can flow from block a to block b (a == b counts).
func blockReaches(a, b *ssa.BasicBlock) bool {
	seen := map[*ssa.BasicBlock]bool{}
	stack := []*ssa.BasicBlock{a}
	for len(stack) > 0 {
		x := stack[len(stack)-1]
		stack = stack[:len(stack)-1]
		if seen[x] {
			continue
		}
		seen[x] = true
		if x == b {
			return true
		}
		stack = append(stack, x.Succs...)
	}
	return false
}

func returnsOf(f *ssa.Function) []*ssa.Return {
	var out []*ssa.Return
	for _, b := range f.Blocks {
		if b.Comment == "recover" {
			continue
		}
		if r, ok := b.Instrs[len(b.Instrs)-1].(*ssa.Return); ok {
			out = append(out, r)
		}
	}
	return out
}

// isTypeNamerIface: v is reflect.TypeOf((*TypeNamer)(nil)).Elem().
func isTypeNamerIfaceType(v ssa.Value) bool {
	call, ok := stripConv(v).(*ssa.Call)
	if !ok || !call.Common().IsInvoke() || call.Common().Method.Name() != "Elem" {
		return false
	}
	to, ok := stripConv(call.Common().Value).(*ssa.Call)
	if !ok || calleeName(to.Common()) != "reflect.TypeOf" || len(to.Common().Args) != 1 {
		return false
	}
	mi, ok := to.Common().Args[0].(*ssa.MakeInterface)
	if !ok {
		return false
	}
	pt, ok := mi.X.Type().(*types.Pointer)
	return ok && isNamed(pt.Elem(), PkgBus, "TypeNamer")
}

// checkEventTypeSpec: EventType returns namer.EventTypeName() exactly when the event
// implements TypeNamer and reflect.TypeOf(event).String() otherwise.
func checkEventTypeSpec(c *Ctx, p *Prog, R *BusRoles, rule string) {
	f := R.NameFn
	pos := p.Pos(f.Pos())
	var assertIf *ssa.If
	var ta *ssa.TypeAssert
	for _, b := range f.Blocks {
		for _, in := range b.Instrs {
			if x, ok := in.(*ssa.TypeAssert); ok && x.CommaOk && isNamed(x.AssertedType, PkgBus, "TypeNamer") {
				if pr, ok := stripConv(x.X).(*ssa.Parameter); ok && pr.Parent() == f {
					ta = x
				}
			}
		}
	}
	if ta == nil {
		c.Violate(rule, "EventType/consults-TypeNamer", pos, "EventType does not test whether the event implements TypeNamer", nil)
		return
	}
	for _, b := range f.Blocks {
		if iff, ok := b.Instrs[len(b.Instrs)-1].(*ssa.If); ok {
			if ex, ok := iff.Cond.(*ssa.Extract); ok && ex.Tuple == ta && ex.Index == 1 {
				assertIf = iff
			}
		}
	}
	if assertIf == nil {
		c.Unresolved(rule, "EventType/consults-TypeNamer", "the TypeNamer assertion's ok flag is not branched on directly")
		return
	}
	okBlk, failBlk := assertIf.Block().Succs[0], assertIf.Block().Succs[1]
	good := true
	for _, ret := range returnsOf(f) {
		if len(ret.Results) != 1 {
			continue
		}
		v := stripConv(ret.Results[0])
		call, isCall := v.(*ssa.Call)
		switch {
		case isCall && call.Common().IsInvoke() && call.Common().Method.Name() == "EventTypeName":
			// must be on the ok side only, on the asserted value
			ex, isEx := call.Common().Value.(*ssa.Extract)
			if !(isEx && ex.Tuple == ta) || blockReaches(failBlk, ret.Block()) {
				good = false
				c.Violate(rule, "EventType/custom-name-path", p.Pos(ret.Pos()), "the custom name is returned on a path where the event was not shown to implement TypeNamer, or is taken from another value", nil)
			}
		case isCall && call.Common().IsInvoke() && call.Common().Method.Name() == "String" && isNamed(call.Common().Value.Type(), "reflect", "Type"):
			to, isTo := stripConv(call.Common().Value).(*ssa.Call)
			okTo := isTo && calleeName(to.Common()) == "reflect.TypeOf" && len(to.Common().Args) == 1
			if okTo {
				pr, isP := stripConv(to.Common().Args[0]).(*ssa.Parameter)
				okTo = isP && pr.Parent() == f
			}
			if !okTo || blockReaches(okBlk, ret.Block()) {
				good = false
				c.Violate(rule, "EventType/reflect-name-path", p.Pos(ret.Pos()), "the reflection name is not reflect.TypeOf(event).String() on the not-a-TypeNamer path only", nil)
			}
		default:
			good = false
			c.Violate(rule, "EventType/other-name-source", p.Pos(ret.Pos()), "EventType returns a name from a source other than TypeNamer.EventTypeName() / reflect.TypeOf(event).String(): the typed APIs (SubscribeWithReplay[T], RegisterUpcast) derive names by delegating to exactly those two and would disagree", nil)
		}
	}
	if good {
		c.Discharge(rule, "EventType/two-sources", pos, "custom name iff the event implements TypeNamer, else reflect.TypeOf(event).String()")
	}
}

// typedNameHelpers: generic functions of the package, without value parameters, returning
// a string, that call EventType (the helper SubscribeWithReplay/RegisterUpcast use).
func typedNameHelpers(p *Prog, R *BusRoles) []*ssa.Function {
	var out []*ssa.Function
	for _, f := range p.FuncsIn(PkgBus) {
		if f.Parent() != nil || f == R.NameFn || len(f.Params) != 0 || f.Signature.Results().Len() != 1 || f.Signature.TypeParams().Len() == 0 {
			continue
		}
		if b, ok := f.Signature.Results().At(0).Type().Underlying().(*types.Basic); !ok || b.Kind() != types.String {
			continue
		}
		out = append(out, f)
	}
	return out
}

// checkTypedHelperSpec decides the typed name helper (eventTypeNameOf[T]) by evaluating it
// on the abstract shapes of T: {interface kind?} × {T implements TypeNamer?} × {pointer
// kind?}. For each shape the function is walked along the one path its conditions select
// (comparisons of t.Kind() with reflect.Interface / reflect.Ptr, t.Implements(TypeNamer),
// negation, short-circuit phis, hoisted locals) and the value it returns is classified:
//
//	interface kind, or not a TypeNamer   → T's reflection name  (t.String())
//	TypeNamer, pointer kind              → EventType(reflect.New(t.Elem()).Interface())
//	TypeNamer, other kind                → EventType(reflect.Zero(t).Interface()) / EventType(zero T)
//
// which are exactly the names EventType reports for events of (dynamic) type T.
func checkTypedHelperSpec(c *Ctx, p *Prog, R *BusRoles, rule string, f *ssa.Function) {
	name := FuncDisplay(f)
	pos := p.Pos(f.Pos())
	tpName := f.Signature.TypeParams().At(0).Obj().Name()
	var tval ssa.Value
	for _, b := range f.Blocks {
		for _, in := range b.Instrs {
			if call, ok := in.(*ssa.Call); ok && call.Common().IsInvoke() && call.Common().Method.Name() == "Elem" {
				if o := typeKeyOrigin(call); o == "static:"+tpName {
					tval = call
				}
			}
		}
	}
	if tval == nil {
		c.Violate(rule, name+"/type-of-T", pos, "the helper does not start from reflect.TypeOf((*T)(nil)).Elem()", nil)
		return
	}
	var isT func(v ssa.Value) bool
	// the TypeNamer interface type: the expression itself or a package variable initialised with it
	isNamerType := func(v ssa.Value) bool {
		if isTypeNamerIfaceType(v) {
			return true
		}
		if ld, ok := stripConv(v).(*ssa.UnOp); ok && ld.Op == token.MUL {
			if g, ok := ld.X.(*ssa.Global); ok && g.Pkg != nil {
				okInit, n := false, 0
				for _, fn := range p.Funcs() {
					for _, b := range fn.Blocks {
						for _, in := range b.Instrs {
							if st, ok := in.(*ssa.Store); ok && st.Addr == ssa.Value(g) {
								n++
								okInit = fn.Name() == "init" && isTypeNamerIfaceType(st.Val)
							}
						}
					}
				}
				return n == 1 && okInit
			}
		}
		return false
	}
	type shape struct{ iface, impl, ptr bool }
	type walkState struct {
		phis   map[*ssa.Phi]ssa.Value
		cells  map[*ssa.Alloc]ssa.Value
		params map[*ssa.Parameter]ssa.Value // parameters of interpreted helpers → the (resolved) argument
		calls  map[*ssa.Call]ssa.Value      // interpreted helper calls → the value returned on this shape's path
		sh     shape
		depth  int
	}
	var cur *walkState
	var evalCond func(v ssa.Value, sh shape, ws *walkState) (bool, bool)
	var interp func(fn *ssa.Function, ws *walkState) (ssa.Value, string)
	var resolve func(v ssa.Value, ws *walkState) ssa.Value
	resolve = func(v ssa.Value, ws *walkState) ssa.Value {
		for i := 0; i < 16; i++ {
			v = stripConv(v)
			switch x := v.(type) {
			case *ssa.Parameter:
				if a, ok := ws.params[x]; ok {
					v = a
					continue
				}
				return v
			case *ssa.Call:
				// a helper of the package is interpreted on the same shape: its parameters
				// stand for the arguments, its value is what the path taken returns
				sc := x.Common().StaticCallee()
				if sc == nil || sc == R.NameFn || PkgOf(sc) != PkgBus || len(sc.Blocks) == 0 || sc.Signature.Results().Len() != 1 || len(sc.Params) != len(x.Common().Args) {
					return v
				}
				if rv, ok := ws.calls[x]; ok {
					if rv == nil {
						return v
					}
					v = rv
					continue
				}
				if ws.depth > 3 {
					return v
				}
				for i, prm := range sc.Params {
					ws.params[prm] = resolve(x.Common().Args[i], ws)
				}
				ws.depth++
				rv, status := interp(sc, ws)
				ws.depth--
				if status != "" {
					ws.calls[x] = nil
					return v
				}
				rv = resolve(rv, ws)
				ws.calls[x] = rv
				v = rv
				continue
			case *ssa.Phi:
				if sel, ok := ws.phis[x]; ok {
					v = sel
					continue
				}
				return v
			case *ssa.UnOp:
				if x.Op == token.MUL {
					if al, ok := x.X.(*ssa.Alloc); ok {
						if cv, ok := ws.cells[al]; ok {
							v = cv
							continue
						}
					}
				}
				return v
			default:
				return v
			}
		}
		return v
	}
	isT = func(v ssa.Value) bool {
		if cur != nil {
			v = resolve(v, cur)
		}
		return sameValue(v, tval)
	}
	evalCond = func(v ssa.Value, sh shape, ws *walkState) (bool, bool) {
		v = resolve(v, ws)
		switch x := v.(type) {
		case *ssa.Const:
			if x.Value != nil && isBoolConst(x) {
				return x.Value.ExactString() == "true", true
			}
		case *ssa.UnOp:
			if x.Op == token.NOT {
				r, k := evalCond(x.X, sh, ws)
				return !r, k
			}
		case *ssa.Call:
			if x.Common().IsInvoke() && x.Common().Method.Name() == "Implements" && isT(x.Common().Value) && len(x.Common().Args) == 1 && isNamerType(x.Common().Args[0]) {
				return sh.impl, true
			}
		case *ssa.BinOp:
			if x.Op != token.EQL && x.Op != token.NEQ {
				return false, false
			}
			kc, other := x.Y, x.X
			if _, ok := kc.(*ssa.Const); !ok {
				kc, other = x.X, x.Y
			}
			k, ok := kc.(*ssa.Const)
			call, isCall := resolve(other, ws).(*ssa.Call)
			if !ok || k.Value == nil || !isCall || !call.Common().IsInvoke() || call.Common().Method.Name() != "Kind" || !isT(call.Common().Value) {
				return false, false
			}
			var is bool
			switch k.Int64() {
			case 20: // reflect.Interface
				is = sh.iface
			case 22: // reflect.Ptr
				is = sh.ptr
			default:
				is = false // T's kind is one of: interface, pointer, anything else
			}
			return is == (x.Op == token.EQL), true
		}
		return false, false
	}
	classify := func(rv ssa.Value, ws *walkState) string {
		v := resolve(rv, ws)
		call, ok := v.(*ssa.Call)
		if !ok {
			return "other"
		}
		if call.Common().IsInvoke() && call.Common().Method.Name() == "String" && isT(call.Common().Value) {
			return "reflect-name"
		}
		if calleeName(call.Common()) != R.NameFn.String() || len(call.Common().Args) != 1 {
			return "other"
		}
		arg := resolve(call.Common().Args[0], ws)
		if tp, ok := arg.Type().(*types.TypeParam); ok && tp.Obj().Name() == tpName {
			if k, isK := arg.(*ssa.Const); isK && k.Value == nil {
				return "EventType(zero T)"
			}
			return "EventType(zero T)"
		}
		ic, ok := arg.(*ssa.Call)
		if !ok || calleeName(ic.Common()) != "(reflect.Value).Interface" {
			return "EventType(other)"
		}
		src, ok := resolve(ic.Common().Args[0], ws).(*ssa.Call)
		if !ok {
			return "EventType(other)"
		}
		switch calleeName(src.Common()) {
		case "reflect.Zero":
			if isT(src.Common().Args[0]) {
				return "EventType(zero T)"
			}
		case "reflect.New":
			el, ok := resolve(src.Common().Args[0], ws).(*ssa.Call)
			if ok && el.Common().IsInvoke() && el.Common().Method.Name() == "Elem" && isT(el.Common().Value) {
				return "EventType(new elem)"
			}
		}
		return "EventType(other)"
	}
	interp = func(fn *ssa.Function, ws *walkState) (ssa.Value, string) {
		sh := ws.sh
		var prev *ssa.BasicBlock
		blk := fn.Blocks[0]
		for step := 0; step < 200; step++ {
			// phis of this block take the value of the edge we came in by
			for _, in := range blk.Instrs {
				ph, ok := in.(*ssa.Phi)
				if !ok {
					break
				}
				for i, pr := range blk.Preds {
					if pr == prev && i < len(ph.Edges) {
						ws.phis[ph] = ph.Edges[i]
					}
				}
			}
			for _, in := range blk.Instrs {
				if st, ok := in.(*ssa.Store); ok {
					if al, ok := st.Addr.(*ssa.Alloc); ok {
						ws.cells[al] = st.Val
					}
				}
			}
			switch t := blk.Instrs[len(blk.Instrs)-1].(type) {
			case *ssa.If:
				v, known := evalCond(t.Cond, sh, ws)
				if !known {
					return nil, "undecided:" + p.Pos(t.Cond.Pos())
				}
				prev = blk
				if v {
					blk = blk.Succs[0]
				} else {
					blk = blk.Succs[1]
				}
			case *ssa.Jump:
				prev, blk = blk, blk.Succs[0]
			case *ssa.Return:
				if len(t.Results) != 1 {
					return nil, "other"
				}
				return t.Results[0], ""
			default:
				return nil, "other"
			}
		}
		return nil, "undecided:loop"
	}
	run := func(sh shape) string {
		ws := &walkState{phis: map[*ssa.Phi]ssa.Value{}, cells: map[*ssa.Alloc]ssa.Value{}, params: map[*ssa.Parameter]ssa.Value{}, calls: map[*ssa.Call]ssa.Value{}, sh: sh}
		cur = ws
		defer func() { cur = nil }()
		rv, status := interp(f, ws)
		if status != "" {
			return status
		}
		return classify(rv, ws)
	}
	good := true
	for _, tc := range []struct {
		sh   shape
		want string
		desc string
	}{
		{shape{iface: true}, "reflect-name", "T is an interface type"},
		{shape{iface: true, impl: true}, "reflect-name", "T is an interface type embedding TypeNamer"},
		{shape{}, "reflect-name", "T does not implement TypeNamer"},
		{shape{ptr: true}, "reflect-name", "pointer T that does not implement TypeNamer"},
		{shape{impl: true}, "EventType(zero T)", "non-pointer T implementing TypeNamer"},
		{shape{impl: true, ptr: true}, "EventType(new elem)", "pointer T implementing TypeNamer"},
	} {
		got := run(tc.sh)
		switch {
		case strings.HasPrefix(got, "undecided"):
			good = false
			c.Unresolved(rule, name+"/fallback-guard", "cannot evaluate a condition of the helper ("+got+") for the case: "+tc.desc)
		case got == tc.want:
		case tc.want == "reflect-name" || got == "reflect-name":
			good = false
			c.Violate(rule, name+"/fallback-guard", pos, "for the case '"+tc.desc+"' the helper returns "+got+" where EventType reports "+tc.want+" for events of that type: the typed APIs (SubscribeWithReplay, RegisterUpcast) look the events up under a different name than the one they are persisted under", nil)
		default:
			good = false
			c.Violate(rule, name+"/delegates-to-EventType-on-a-T-value", pos, "for the case '"+tc.desc+"' the helper returns "+got+" instead of "+tc.want+": EventType is applied to a value that is not of (dynamic) type T", nil)
		}
	}
	if good {
		c.Discharge(rule, name+"/agrees-with-EventType", pos, "evaluated on the six shapes of T: EventType(zero/new value of type T) exactly when T is a non-interface TypeNamer, else T's reflection name — the same two sources EventType uses")
	}
}

// checkNameSinks: every comparison with a stored type name and every typed upcast
// registration takes its name from a name function.
func checkNameSinks(c *Ctx, p *Prog, R *BusRoles, rule string) {
	e := NewEngine(p)
	flow := NewFlow(p, e.cells)
	nameFns := map[string]bool{"call:" + FuncDisplay(R.NameFn) + "#0": true}
	flow.Opaque = map[*ssa.Function]bool{}
	for _, h := range typedNameHelpers(p, R) {
		nameFns["call:"+FuncDisplay(h)+"#0"] = true
		flow.Opaque[h] = true
	}
	fromName := func(os []string) (bool, string) {
		for _, o := range os {
			if nameFns[o] {
				continue
			}
			return false, o
		}
		return len(os) > 0, ""
	}
	isStoredSide := func(os []string) bool {
		for _, o := range os {
			if o == "field:StoredEvent.Type" || strings.HasPrefix(o, "call:(*"+R.UpRegT.Obj().Name()+").apply#1") {
				return true
			}
		}
		return false
	}
	nCmp, nReg := 0, 0
	for _, f := range p.FuncsIn(PkgBus) {
		if f.Synthetic != "" {
			continue
		}
		for _, b := range f.Blocks {
			for _, in := range b.Instrs {
				switch x := in.(type) {
				case *ssa.BinOp:
					if (x.Op != token.EQL && x.Op != token.NEQ) || !isStringType(x.X.Type()) {
						continue
					}
					ox, oy := flow.Origins(x.X), flow.Origins(x.Y)
					var other []string
					switch {
					case isStoredSide(ox) && !isStoredSide(oy):
						other = oy
					case isStoredSide(oy) && !isStoredSide(ox):
						other = ox
					default:
						continue
					}
					// comparisons against the parameter of an API taking a name (register,
					// apply, clearType) are not typed sinks
					if ok, _ := onlyOrigins(other, "param:", "const:", "field:Upcaster."); ok {
						continue
					}
					nCmp++
					construct := FuncDisplay(f) + "/stored-type-comparison"
					if ok, bad := fromName(other); ok {
						c.Discharge(rule, construct, p.Pos(in.Pos()), "the Go type's name comes from a name function ("+strings.Join(other, ",")+")")
					} else {
						c.Violate(rule, construct, p.Pos(in.Pos()), "a stored event's type name is compared with a name that does not come from EventType / its typed helper (origin "+bad+"): events whose type provides EventTypeName() are never matched", nil)
					}
				case ssa.CallInstruction:
					sc := x.Common().StaticCallee()
					if sc == nil || (sc != R.RegisterFn && sc.Origin() != R.RegisterFn) || len(x.Common().Args) != 4 {
						continue
					}
					for i, role := range []string{"from", "to"} {
						os := flow.Origins(x.Common().Args[i+1])
						if ok, _ := onlyOrigins(os, "param:"); ok {
							continue // raw API: the caller supplies names
						}
						nReg++
						construct := FuncDisplay(f) + "/register-" + role + "-type"
						if ok, bad := fromName(os); ok {
							c.Discharge(rule, construct, p.Pos(in.Pos()), "name from "+strings.Join(os, ","))
						} else {
							c.Violate(rule, construct, p.Pos(in.Pos()), "the "+role+"-type of a typed upcast registration does not come from EventType / its typed helper (origin "+bad+")", nil)
						}
					}
				}
			}
		}
	}
	// the name a typed upcaster returns
	c.Stats["stored_type_comparisons"] = nCmp
	c.Stats["typed_register_args"] = nReg
}

func isStringType(t types.Type) bool {
	b, ok := t.Underlying().(*types.Basic)
	return ok && b.Kind() == types.String
}

// checkTypeNamerImpl: named types of pkg that declare EventTypeName implement TypeNamer
// on value receivers (so T and *T both satisfy it).
func checkTypeNamerImpl(c *Ctx, p *Prog, rule string, pkg string, typesWanted []string) {
	busPkg := p.All[PkgBus]
	sp := p.All[pkg]
	if busPkg == nil || sp == nil {
		c.Unresolved(rule, "UNRESOLVED-ANCHOR/package "+pkg, "package not loaded")
		return
	}
	tn := busPkg.Types.Scope().Lookup("TypeNamer")
	if tn == nil {
		c.Unresolved(rule, "UNRESOLVED-ANCHOR/TypeNamer", "interface not found")
		return
	}
	iface := tn.Type().Underlying().(*types.Interface)
	for _, name := range typesWanted {
		obj := sp.Types.Scope().Lookup(name)
		if obj == nil {
			c.Unresolved(rule, "UNRESOLVED-ANCHOR/"+pkg+"."+name, "type not found")
			continue
		}
		okVal := types.Implements(obj.Type(), iface)
		c.Check(okVal, rule, "state."+name+"/implements-TypeNamer-by-value", "", "value and pointer both satisfy TypeNamer", "state."+name+" does not implement TypeNamer on its value receiver: published values are stored under their reflection name while pointers use the custom one")
	}
}
