package main

import (
	"crypto/sha1"
	"encoding/json"
	"fmt"
	"os"
	"path/filepath"
	"sort"
	"strings"
	"time"
)

// Status of an obligation.
type Status string

const (
	Discharged Status = "discharged"
	Violated   Status = "violated"
	Unresolved Status = "unresolved" // anchor not found / undecided: counts as violated
)

// Obligation is one unit of what a rule had to establish: rule + construct (a
// role-based name, never a line number) and the verdict.
type Obligation struct {
	Rule      string   `json:"rule"`
	Construct string   `json:"construct"`
	Status    Status   `json:"status"`
	Pos       string   `json:"pos,omitempty"`
	Detail    string   `json:"detail,omitempty"`
	Witness   []string `json:"witness,omitempty"`
}

// Ctx is the per-run context of one property check.
type Ctx struct {
	Prop   string
	Tier   string
	Repo   string
	Config LoadConfig
	progs  map[string]*Prog
	Obls   []Obligation
	okeys  map[string]int
	Stats  map[string]int
	Rules  map[string]string // rule id -> one-line meaning
	Assume []string
	Notes  []string
	t0     time.Time
}

func NewCtx(prop, tier, repo string) *Ctx {
	return &Ctx{Prop: prop, Tier: tier, Repo: repo, progs: map[string]*Prog{}, okeys: map[string]int{}, Stats: map[string]int{}, Rules: map[string]string{}, t0: time.Now()}
}

// Prog loads (once) and returns the module in the given directory.
func (c *Ctx) Prog(mod string) *Prog {
	key := mod + "|" + c.Config.GOARCH + "|" + c.Config.Tags
	if p, ok := c.progs[key]; ok {
		return p
	}
	p, err := Load(filepath.Join(c.Repo, mod), c.Config)
	if err != nil {
		c.Unresolved("LOAD", "module "+mod, err.Error())
		c.progs[key] = nil
		return nil
	}
	c.progs[key] = p
	c.Stats["packages_loaded"] += len(p.All)
	c.Stats["packages_analysed"] += len(p.Mods)
	c.Stats["functions_in_scope"] += len(p.Funcs())
	return p
}

// Rule registers the meaning of a rule id (for the evidence explanation).
func (c *Ctx) Rule(id, meaning string) { c.Rules[id] = meaning }

func (c *Ctx) add(o Obligation) {
	k := o.Rule + "|" + o.Construct
	if i, ok := c.okeys[k]; ok {
		// the same construct may be reached from several roots: a violation wins
		if c.Obls[i].Status == Discharged && o.Status != Discharged {
			c.Obls[i] = o
		}
		return
	}
	c.okeys[k] = len(c.Obls)
	c.Obls = append(c.Obls, o)
}

func (c *Ctx) Discharge(rule, construct, pos, detail string) {
	c.add(Obligation{Rule: rule, Construct: construct, Status: Discharged, Pos: pos, Detail: detail})
}

func (c *Ctx) Violate(rule, construct, pos, detail string, witness []string) {
	c.add(Obligation{Rule: rule, Construct: construct, Status: Violated, Pos: pos, Detail: detail, Witness: witness})
}

func (c *Ctx) Unresolved(rule, construct, detail string) {
	c.add(Obligation{Rule: rule, Construct: construct, Status: Unresolved, Detail: detail})
}

// Check discharges or violates depending on ok.
func (c *Ctx) Check(ok bool, rule, construct, pos, okDetail, badDetail string) bool {
	if ok {
		c.Discharge(rule, construct, pos, okDetail)
	} else {
		c.Violate(rule, construct, pos, badDetail, nil)
	}
	return ok
}

// Floor fails the rule when it matched fewer constructs than were confirmed by hand:
// a rule matching nothing would otherwise pass vacuously.
func (c *Ctx) Floor(rule, what string, got, min int) {
	if got < min {
		c.Unresolved(rule, "floor/"+what, fmt.Sprintf("rule matched %d %s, expected at least %d: anchors not found (vacuous pass refused)", got, what, min))
	} else {
		c.Discharge(rule, "floor/"+what, "", fmt.Sprintf("%d %s matched (floor %d)", got, what, min))
	}
}

// FromEngine converts engine findings into violated obligations of rule.
func (c *Ctx) FromEngine(rule string, e *Engine, p *Prog) {
	for _, f := range e.Findings {
		c.Violate(rule, f.Construct, p.Pos(f.Pos), f.Msg, f.Trace)
	}
	c.Stats["product_states"] += e.States
	if e.Exhausted {
		c.Unresolved(rule, "engine/state-budget", fmt.Sprintf("exploration exceeded the budget of %d product states: undecided", e.Budget))
	}
}

// ---------------------------------------------------------------------------
// Known findings.

type KnownFinding struct {
	Property   string `json:"property"`
	Rule       string `json:"rule"`
	Construct  string `json:"construct"`
	What       string `json:"what"`
	Reproducer string `json:"reproducer,omitempty"`
	ID         string `json:"id,omitempty"`
}

type KnownFile struct {
	Comment string         `json:"comment"`
	Known   []KnownFinding `json:"known"`
	Fixed   []string       `json:"fixed"`
}

func loadKnown(path string) (*KnownFile, error) {
	b, err := os.ReadFile(path)
	if err != nil {
		return nil, err
	}
	var k KnownFile
	if err := json.Unmarshal(b, &k); err != nil {
		return nil, err
	}
	return &k, nil
}

// ---------------------------------------------------------------------------
// Reporting.

type evidence struct {
	PropertyID  string         `json:"property_id"`
	Tier        string         `json:"tier"`
	Seed        int            `json:"seed"`
	Level       string         `json:"level"`
	Coverage    map[string]any `json:"coverage"`
	Assumptions []string       `json:"assumptions"`
	WallS       float64        `json:"wall_s"`
	Violations  int            `json:"violations"`
}

// Finish prints the verdict lines, writes the evidence file and violation reports, and
// returns the process exit code.
func (c *Ctx) Finish(verifDir string, seed int, explanation string, configs []string) int {
	known, kerr := loadKnown(filepath.Join(verifDir, "known_findings.json"))
	if kerr != nil {
		c.Unresolved("KNOWN", "known_findings.json", "cannot read known findings: "+kerr.Error())
		known = &KnownFile{}
	}
	sort.SliceStable(c.Obls, func(i, j int) bool {
		if c.Obls[i].Rule != c.Obls[j].Rule {
			return c.Obls[i].Rule < c.Obls[j].Rule
		}
		return c.Obls[i].Construct < c.Obls[j].Construct
	})
	nDis, nViol, nKnown := 0, 0, 0
	perRule := map[string][3]int{}
	var knownLines, violLines []string
	vdir := filepath.Join(verifDir, "evidence", "violations")
	matchedKnown := map[int]bool{}
	for _, o := range c.Obls {
		pr := perRule[o.Rule]
		switch o.Status {
		case Discharged:
			nDis++
			pr[0]++
		default:
			ki := -1
			if o.Status == Violated {
				for i, k := range known.Known {
					if k.Property == c.Prop && k.Rule == o.Rule && k.Construct == o.Construct {
						ki = i
					}
				}
			}
			if ki >= 0 {
				nKnown++
				pr[2]++
				matchedKnown[ki] = true
				knownLines = append(knownLines, fmt.Sprintf("KNOWN-FINDING: property=%s %s [%s %s] %s", c.Prop, known.Known[ki].What, o.Rule, o.Construct, o.Pos))
			} else {
				nViol++
				pr[1]++
				os.MkdirAll(vdir, 0o755)
				h := sha1.Sum([]byte(o.Rule + "|" + o.Construct))
				path := filepath.Join(vdir, fmt.Sprintf("%s-%s-%x.json", c.Prop, strings.ReplaceAll(o.Rule, ".", "_"), h[:4]))
				rep := map[string]any{"property": c.Prop, "rule": o.Rule, "meaning": c.Rules[o.Rule], "construct": o.Construct, "status": o.Status, "pos": o.Pos, "detail": o.Detail, "witness": o.Witness, "tier": c.Tier}
				b, _ := json.MarshalIndent(rep, "", " ")
				os.WriteFile(path, b, 0o644)
				violLines = append(violLines, fmt.Sprintf("VIOLATION property=%s replay=%s", c.Prop, path))
				fmt.Printf("  %s %s [%s] at %s: %s\n", strings.ToUpper(string(o.Status)), o.Rule, o.Construct, o.Pos, o.Detail)
				for i, w := range o.Witness {
					if i >= 40 {
						fmt.Printf("      … (%d more steps in the report)\n", len(o.Witness)-i)
						break
					}
					fmt.Printf("      %s\n", w)
				}
			}
		}
		perRule[o.Rule] = pr
	}
	var rules []string
	for r := range perRule {
		rules = append(rules, r)
	}
	sort.Strings(rules)
	for _, r := range rules {
		pr := perRule[r]
		fmt.Printf("%-10s obligations=%d discharged=%d violated=%d known=%d  -- %s\n", r, pr[0]+pr[1]+pr[2], pr[0], pr[1], pr[2], c.Rules[r])
	}
	for _, l := range knownLines {
		fmt.Println(l)
	}
	// samples: a few obligations of each rule, violated ones first
	samples := []any{}
	seenRule := map[string]int{}
	for _, o := range c.Obls {
		if o.Status != Discharged || seenRule[o.Rule] < 3 {
			if o.Status == Discharged {
				seenRule[o.Rule]++
			}
			if len(samples) < 80 {
				samples = append(samples, map[string]any{"rule": o.Rule, "construct": o.Construct, "status": o.Status, "pos": o.Pos, "detail": o.Detail})
			}
		}
	}
	ruleList := map[string]string{}
	for k, v := range c.Rules {
		ruleList[k] = v
	}
	cov := map[string]any{
		"explanation":         explanation,
		"rules":               ruleList,
		"obligations":         len(c.Obls),
		"discharged":          nDis,
		"violated_unlisted":   nViol,
		"known_findings_hit":  nKnown,
		"evaluations":         len(c.Obls),
		"distinct_nontrivial": len(c.Obls),
		"rule":                "one evaluation = one obligation (rule instance on one role-named construct of /repo's current source); all are distinct by rule+construct; an obligation is non-trivial because it is tied to a construct found in the code (floors fail the check when a rule matches fewer constructs than were confirmed by hand)",
		"samples":             samples,
		"configs":             configs,
		"checker_cmd":         fmt.Sprintf("./check %s %s", c.Prop, c.Tier),
		"per_rule":            perRule,
		"notes":               c.Notes,
		"exhaustive":          false,
		"static_only":         true,
		"trusted_base":        []string{"go/types and go/ssa of golang.org/x/tools v0.50.0 (Go 1.26.8)", "the rule tables in /verif/checker", "documented semantics of sync, sync/atomic, context, database/sql"},
	}
	for k, v := range c.Stats {
		cov[k] = v
	}
	ev := evidence{PropertyID: c.Prop, Tier: c.Tier, Seed: seed, Level: "other", Coverage: cov, Assumptions: c.Assume, WallS: time.Since(c.t0).Seconds(), Violations: nViol}
	if ev.Assumptions == nil {
		ev.Assumptions = []string{}
	}
	os.MkdirAll(filepath.Join(verifDir, "evidence"), 0o755)
	b, _ := json.MarshalIndent(ev, "", " ")
	if err := os.WriteFile(filepath.Join(verifDir, "evidence", c.Prop+".json"), b, 0o644); err != nil {
		fmt.Println("cannot write evidence:", err)
		return 2
	}
	fmt.Printf("%s %s: obligations=%d discharged=%d known-findings=%d violations=%d states=%d wall=%.1fs\n", c.Prop, c.Tier, len(c.Obls), nDis, nKnown, nViol, c.Stats["product_states"], ev.WallS)
	if nViol > 0 {
		for _, l := range violLines {
			fmt.Println(l)
		}
		return 1
	}
	return 0
}

// Borrow runs rules that were written for another property on a scratch context (sharing
// the loaded programs) and files, under this property's rule id, the obligations whose
// construct is selected by keep. Used where one structural condition is a necessary
// condition of several properties.
func (c *Ctx) Borrow(rule string, keep func(construct string) bool, run func(c2 *Ctx)) int {
	c2 := NewCtx(c.Prop, c.Tier, c.Repo)
	c2.Config = c.Config
	c2.progs = c.progs
	run(c2)
	n := 0
	for _, o := range c2.Obls {
		if o.Status == Unresolved || keep(o.Construct) {
			o.Rule = rule
			c.add(o)
			n++
		}
	}
	c.Stats["product_states"] += c2.Stats["product_states"]
	return n
}
