package main

func stateSetup(c *Ctx, rule string) (*Prog, *stateRoles) {
	p := c.Prog(ModRoot)
	if p == nil {
		return nil, nil
	}
	S := discoverState(p)
	if !S.report(c, rule) {
		return p, nil
	}
	return p, S
}

func init() {
	register("C18", &PropDef{
		Explain: "Structural conditions of 'materialized state is the fold of the message log': (R1) exhaustive operation/control tables — every constant of type Operation has a case (insert, update → Store.Set; delete → Store.Delete) and every constant of type Control has one (reset → clear; snapshot markers → no store mutation); (R2) reset ranges over the whole collections map and clears each collection unconditionally; (R3/R4) all paths of Apply (with the single collection-applier implementation inlined): every nil return is preceded by exactly one store of the event's Offset to lastOffset, no error return is, and paths that change nothing (snapshot markers, unregistered types in non-strict mode) reach `return nil` without a store operation; (R5) one key function — Set, Delete and Get address the store with CompositeKey(type, key), and CompositeKey is the unconditional concatenation type + separator + key; values are decoded into fresh zero values; (R6) nothing in Apply's call tree reads lastOffset, so a step is a function of (collections, event) only and two sessions equal one. Not decided: last-writer-wins as values. R1 is decided by evaluating the appliers for every operation/control constant and an unknown one.",
		Run: func(c *Ctx) {
			c.Rule("C18.R1", "exhaustive operation and control tables with the right store effect")
			c.Rule("C18.R2", "reset clears every collection unconditionally")
			c.Rule("C18.R4", "LastOffset: stored exactly once with the event's offset before every nil return, never before an error return")
			c.Rule("C18.R5", "one key function (CompositeKey = type + sep + key) for Set/Delete/Get; fresh decode targets")
			c.Rule("C18.R6", "applying an event does not depend on lastOffset (resumability)")
			p, S := stateSetup(c, "C18.R1")
			if S == nil {
				return
			}
			checkStateTables(c, p, S, "C18.R1")
			checkResetClearsAll(c, p, S, "C18.R2")
			runApply(c, p, S, map[string]string{"C18.R4": "C18.R4"})
			checkCompositeKey(c, p, S, "C18.R5")
			checkFreshDecodeTargets(c, p, S, "C18.R5")
			checkNoLastOffsetRead(c, p, S, "C18.R6")
			M := discoverMem(p)
			M.report(c, "C18.R2")
			res := runLocksFull(p, []guardSpec{{"Materializer", M.MatColl, M.MatMu}, {"Materializer", M.MatOffset, M.MatMu}, {"MemoryStore", M.StData, M.StMu}}, map[string]bool{PkgState: true}, false, nil)
			n := lockObligations(c, res, "C18.R2", nil)
			c.Floor("C18.R2", "guarded accesses in package state", n, 10)
			c.Assume = append(c.Assume, "encoding/json semantics", "user Store[T] implementations honour Set/Delete/Clear")
		},
	})
	register("C19", &PropDef{
		Explain: "Structural conditions of 'state messages survive the round trip; bad input is rejected without damage': (R1) decode before mutate — on every path of Apply that returns a non-nil error no Set/Delete/Clear, no store to lastOffset and no write of the collections map occurred (all paths, collection applier inlined), and every decode target is a fresh zero value of that call; (R2) wire names — the JSON tags type/key/value/old_value/headers/operation/txid/timestamp/control/offset, the string values of the Operation and Control constants, the fixed event type names, and the discriminator in Apply reading the same `headers` member the messages write; (R3) panic-free on arbitrary bytes — Apply's static call tree contains no unchecked type assertion, no index/slice of input-derived data, no integer division, no explicit panic and no dereference of a pointer decoded from the input (encoding/json, user UnmarshalJSON methods and user Store implementations are trusted); (R4) the constructors fill Value/OldValue from json.Marshal of their arguments, the key and operation from their arguments, the entity type from EntityType or the override, and reject the empty key. Not decided: JSON fidelity for all values. R1 also covers the bundled stores' read loops (fresh decode targets); R4 requires the constructor to marshal through the *T argument the materializer decodes through.",
		Run: func(c *Ctx) {
			c.Rule("C19.R1", "decode before mutate: error returns leave collections and LastOffset untouched; fresh decode targets")
			c.Rule("C19.R2", "wire names and values of the state protocol; discriminator agrees with the writer")
			c.Rule("C19.R3", "no panic-capable construct in Apply's call tree")
			c.Rule("C19.R4", "helper constructors build the message from their arguments")
			p, S := stateSetup(c, "C19.R1")
			if S == nil {
				return
			}
			runApply(c, p, S, map[string]string{"C19.R1": "C19.R1", "C19.R3": "C19.R3", "C18.R4": "C19.R1"})
			checkFreshDecodeTargets(c, p, S, "C19.R1")
			// "sent through publish, store and replay": the bundled stores hand every record
			// back as its own object
			if ps := c.Prog(ModSQLite); ps != nil {
				checkStoreDecodeTargets(c, ps, PkgSQLite, "C19.R1")
			}
			if pd := c.Prog(ModDurable); pd != nil {
				checkStoreDecodeTargets(c, pd, PkgDurable, "C19.R1")
			}
			checkWireNames(c, p, S, "C19.R2")
			checkPanicFree(c, p, S, "C19.R3")
			checkConstructors(c, p, "C19.R4")
			checkTypeNamerImpl(c, p, "C19.R2", PkgState, []string{"ChangeMessage", "ControlMessage"})
			c.Assume = append(c.Assume, "encoding/json never panics on arbitrary input and user UnmarshalJSON methods do not panic", "nil-ness of the collections' maps is not decided")
		},
	})
}
