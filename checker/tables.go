package main

import (
	"go/token"

	"golang.org/x/tools/go/ssa"
)

// Table-driven dispatch: a package-level slice of structs or map of functions that only
// its initialiser writes is read as a table of rows, so that rules which decide "what
// runs for this constant / this version" can look the answer up instead of losing the
// call behind a function value.

type tableRow struct {
	key    *ssa.Const        // map tables: the key
	index  int               // slice tables: the element index
	val    ssa.Value         // map tables / slices of scalars: the element
	fields map[int]ssa.Value // slices of structs: field number -> value
}

// globalTableRows parses the initialiser of g. ok is false when g is written or its
// elements are modified anywhere outside the package initialiser (not a constant table).
func globalTableRows(p *Prog, g *ssa.Global) (rows []tableRow, ok bool) {
	if g == nil || g.Pkg == nil {
		return nil, false
	}
	initFn := g.Pkg.Func("init")
	if initFn == nil {
		return nil, false
	}
	var initStore *ssa.Store
	for _, f := range p.Funcs() {
		for _, b := range f.Blocks {
			for _, in := range b.Instrs {
				switch x := in.(type) {
				case *ssa.Store:
					if x.Addr == ssa.Value(g) {
						if f != initFn || initStore != nil {
							return nil, false
						}
						initStore = x
					}
				case *ssa.UnOp:
					if x.Op != token.MUL || x.X != ssa.Value(g) {
						continue
					}
					// a load of the table: only read-only uses
					for _, ref := range *x.Referrers() {
						switch y := ref.(type) {
						case *ssa.Lookup, *ssa.Range, *ssa.DebugRef:
						case *ssa.MapUpdate:
							if y.Map == ssa.Value(x) {
								return nil, false
							}
						case *ssa.IndexAddr:
							for _, r2 := range *y.Referrers() {
								switch z := r2.(type) {
								case *ssa.Store:
									if z.Addr == ssa.Value(y) {
										return nil, false
									}
								case *ssa.FieldAddr:
									for _, r3 := range *z.Referrers() {
										if st, isSt := r3.(*ssa.Store); isSt && st.Addr == ssa.Value(z) {
											return nil, false
										}
									}
								}
							}
						case *ssa.Call:
							if b, isB := y.Common().Value.(*ssa.Builtin); !isB || (b.Name() != "len" && b.Name() != "cap") {
								return nil, false
							}
						default:
							return nil, false
						}
					}
				}
			}
		}
	}
	if initStore == nil {
		return nil, false
	}
	switch v := stripConv(initStore.Val).(type) {
	case *ssa.MakeMap:
		for _, b := range initFn.Blocks {
			for _, in := range b.Instrs {
				if mu, isMu := in.(*ssa.MapUpdate); isMu && mu.Map == ssa.Value(v) {
					k, isK := stripConv(mu.Key).(*ssa.Const)
					if !isK {
						return nil, false
					}
					rows = append(rows, tableRow{key: k, val: mu.Value})
				}
			}
		}
		return rows, true
	case *ssa.Slice:
		arr, isAl := stripConv(v.X).(*ssa.Alloc)
		if !isAl {
			return nil, false
		}
		byIdx := map[int]*tableRow{}
		max := -1
		for _, ref := range *arr.Referrers() {
			ia, isIA := ref.(*ssa.IndexAddr)
			if !isIA {
				continue
			}
			k, isK := ia.Index.(*ssa.Const)
			if !isK || k.Value == nil {
				return nil, false
			}
			i := int(k.Int64())
			row := byIdx[i]
			if row == nil {
				row = &tableRow{index: i, fields: map[int]ssa.Value{}}
				byIdx[i] = row
				if i > max {
					max = i
				}
			}
			for _, r2 := range *ia.Referrers() {
				switch z := r2.(type) {
				case *ssa.Store:
					if z.Addr == ssa.Value(ia) {
						row.val = z.Val
						// the element built as a composite literal of its own and copied in
						if ld, isLd := stripConv(z.Val).(*ssa.UnOp); isLd && ld.Op == token.MUL {
							if lit, isAl := ld.X.(*ssa.Alloc); isAl {
								for _, r3 := range *lit.Referrers() {
									if fa, isFA := r3.(*ssa.FieldAddr); isFA {
										if sv := structLitField(lit, fa.Field); sv != nil {
											row.fields[fa.Field] = sv
										}
									}
								}
							}
						}
					}
				case *ssa.FieldAddr:
					for _, r3 := range *z.Referrers() {
						if st, isSt := r3.(*ssa.Store); isSt && st.Addr == ssa.Value(z) {
							row.fields[z.Field] = st.Val
						}
					}
				}
			}
		}
		for i := 0; i <= max; i++ {
			if r := byIdx[i]; r != nil {
				rows = append(rows, *r)
			}
		}
		return rows, true
	}
	return nil, false
}

// tableElemField: v reads field number field of an element of the package-level slice g
// (`for _, m := range table { … m.f … }`); elem identifies the element access, so that two
// reads can be told to concern the same row.
func tableElemField(v ssa.Value) (g *ssa.Global, field int, elem ssa.Value, ok bool) {
	v = stripConv(v)
	var base ssa.Value
	switch x := v.(type) {
	case *ssa.Field:
		base, field = x.X, x.Field
	case *ssa.UnOp:
		fa, isFA := x.X.(*ssa.FieldAddr)
		if x.Op != token.MUL || !isFA {
			return nil, 0, nil, false
		}
		base, field = fa.X, fa.Field
		if al, isAl := base.(*ssa.Alloc); isAl { // a per-iteration copy of the element
			w := wholeStore(al)
			if w == nil {
				return nil, 0, nil, false
			}
			base = w
		} else {
			// &table[i].f : the base is the element address itself
			if ia, isIA := base.(*ssa.IndexAddr); isIA {
				if gl := globalOfLoad(ia.X); gl != nil {
					return gl, field, ia, true
				}
			}
			return nil, 0, nil, false
		}
	default:
		return nil, 0, nil, false
	}
	ld, isLd := stripConv(base).(*ssa.UnOp)
	if !isLd || ld.Op != token.MUL {
		return nil, 0, nil, false
	}
	ia, isIA := ld.X.(*ssa.IndexAddr)
	if !isIA {
		return nil, 0, nil, false
	}
	if gl := globalOfLoad(ia.X); gl != nil {
		return gl, field, ia, true
	}
	return nil, 0, nil, false
}

func globalOfLoad(v ssa.Value) *ssa.Global {
	if ld, ok := stripConv(v).(*ssa.UnOp); ok && ld.Op == token.MUL {
		if g, ok := ld.X.(*ssa.Global); ok {
			return g
		}
	}
	return nil
}

// tableFuncs: the functions held by the cells of every constant table that fn looks up.
func tableFuncs(p *Prog, fn *ssa.Function) []*ssa.Function {
	var out []*ssa.Function
	for _, b := range fn.Blocks {
		for _, in := range b.Instrs {
			var g *ssa.Global
			switch x := in.(type) {
			case *ssa.Lookup:
				g = globalOfLoad(x.X)
			case *ssa.IndexAddr:
				g = globalOfLoad(x.X)
			}
			if g == nil {
				continue
			}
			rows, ok := globalTableRows(p, g)
			if !ok {
				continue
			}
			for _, r := range rows {
				if f := funcOfValue(r.val); f != nil {
					out = append(out, f)
				}
				for _, fv := range r.fields {
					if f := funcOfValue(fv); f != nil {
						out = append(out, f)
					}
				}
			}
		}
	}
	return out
}
