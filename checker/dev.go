package main

import (
	"fmt"
	"os"
	"strings"
)

// devDump prints the SSA form of the functions whose display name contains pat
// (development aid; not used by any check).
func devDump(repo, mod, pat string) {
	repoRoot = repo
	p, err := Load(repo+"/"+mod, LoadConfig{})
	if err != nil {
		fmt.Println(err)
		os.Exit(2)
	}
	for _, f := range p.Funcs() {
		if strings.Contains(FuncDisplay(f), pat) {
			fmt.Printf("=== %s (%s)\n", FuncDisplay(f), p.Pos(f.Pos()))
			f.WriteTo(os.Stdout)
		}
	}
}
