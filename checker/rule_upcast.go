package main

// C16 (registration guards, atomic check-and-insert, other writers, guarded search,
// termination certificate) and C17 (all-or-nothing application) on upcast.go.

import (
	"fmt"
	"go/token"
	"go/types"
	"strings"

	"golang.org/x/tools/go/ssa"
)

// resolveResult: the value a Return hands back for result i, looking through the
// result-local cells the compiler introduces for functions with defers.
func resolveResult(ret *ssa.Return, i int) ssa.Value {
	v := ret.Results[i]
	ld, ok := v.(*ssa.UnOp)
	if !ok || ld.Op != token.MUL {
		return v
	}
	al, ok := ld.X.(*ssa.Alloc)
	if !ok {
		return v
	}
	// latest store to al in the same block before the load; `return x, nil` with named
	// results stores the cell's own value back (*cell = *cell), which is looked through
	blk := ret.Block()
	var last ssa.Value
	var limit ssa.Instruction = ld
	for round := 0; round < 4; round++ {
		last = nil
		for _, in := range blk.Instrs {
			if in == limit {
				break
			}
			if st, ok := in.(*ssa.Store); ok && st.Addr == al {
				last = st.Val
			}
		}
		if l2, ok := last.(*ssa.UnOp); ok && l2.Op == token.MUL && l2.X == ssa.Value(al) && l2.Block() == blk {
			limit = l2
			continue
		}
		break
	}
	if last != nil {
		return last
	}
	// no store in the return's block: the store that dominates the return with no other
	// store to the cell possible in between (named results set in an earlier block)
	var stores []*ssa.Store
	for _, ref := range *al.Referrers() {
		if st, ok := ref.(*ssa.Store); ok && st.Addr == al {
			stores = append(stores, st)
		}
	}
	var best *ssa.Store
	for _, s := range stores {
		if !(s.Block().Dominates(blk) && s.Block() != blk) {
			continue
		}
		clean := true
		for _, o := range stores {
			if o != s && reaches(s, o) && reaches(o, ret) {
				clean = false
			}
		}
		if clean {
			best = s
		}
	}
	if best != nil {
		return best.Val
	}
	if len(stores) == 0 {
		// a named result that is never assigned: its zero value
		if pt, ok := al.Type().Underlying().(*types.Pointer); ok {
			if !isBasic(pt.Elem()) {
				return ssa.NewConst(nil, pt.Elem())
			}
		}
	}
	return v
}

func (R *BusRoles) isUpMapLoad(v ssa.Value) (ssa.Value, bool) {
	tn, fld, base, ok := fieldLoad(v)
	if !ok || R.UpRegT == nil || tn != R.UpRegT.Obj().Name() || fld != R.UpMap {
		return nil, false
	}
	return base, true
}

// ---------------------------------------------------------------------------
// C16.R1 + R2: register.

type registerRule struct {
	BaseRule
	R        *BusRoles
	cycleFn  *ssa.Function
	sawCycle bool
	pc       []string // canonical names of register's parameters
}

// sigma: 5 guard states (u unknown, a accepted, r rejected) + lock (n/r/w) + cycle check
// done in the current write-locked region (n/y) + inserted (n/y) + last result class
// In-package helpers (argument validation moved out of register) are inlined; the cycle
// query stays an opaque event.
func (r *registerRule) Inline(fn *ssa.Function) bool {
	return PkgOf(fn) == PkgBus && fn != r.cycleFn && fn.Parent() == nil
}
func (r *registerRule) PredOK(k string) bool {
	return strings.HasPrefix(k, "v:") || strings.HasPrefix(k, "(nil==v:")
}

func (r *registerRule) OnEnter(e *Engine, st *State, fc *FrameCtx) {
	if fc.parent == nil && r.pc == nil {
		for _, p := range fc.fn.Params {
			r.pc = append(r.pc, e.CanonS(fc, p))
		}
	}
}

const (
	gFromEmpty = iota
	gToEmpty
	gSame
	gNilFn
	gCycle
	gLock
	gRegion
	gInserted
	gResult
)

func (r *registerRule) guardOf(e *Engine, fc *FrameCtx, cond ssa.Value) (int, bool, bool) {
	c, pol := condStrip(cond)
	isParam := func(v ssa.Value, i int) bool {
		// a parameter of register, possibly seen through the parameters of an inlined helper
		return i < len(r.pc) && e.CanonS(fc, stripConv(v)) == r.pc[i]
	}
	isEmpty := func(v ssa.Value) bool {
		k, ok := v.(*ssa.Const)
		return ok && k.Value != nil && k.Value.ExactString() == `""`
	}
	if bo, ok := c.(*ssa.BinOp); ok && (bo.Op == token.EQL || bo.Op == token.NEQ) {
		rejectOnTrue := (bo.Op == token.EQL) == pol
		switch {
		case (isParam(bo.X, 1) && isEmpty(bo.Y)) || (isParam(bo.Y, 1) && isEmpty(bo.X)):
			return gFromEmpty, rejectOnTrue, true
		case (isParam(bo.X, 2) && isEmpty(bo.Y)) || (isParam(bo.Y, 2) && isEmpty(bo.X)):
			return gToEmpty, rejectOnTrue, true
		case (isParam(bo.X, 1) && isParam(bo.Y, 2)) || (isParam(bo.X, 2) && isParam(bo.Y, 1)):
			return gSame, rejectOnTrue, true
		}
		if x, nonNilOnTrue, ok := nilTest(cond); ok && isParam(x, 3) {
			return gNilFn, !nonNilOnTrue, true
		}
	}
	// len(fromType) == 0 style is not recognised on purpose (unresolved → fail)
	if call, ok := c.(*ssa.Call); ok {
		if sc := call.Common().StaticCallee(); sc != nil && sc == r.cycleFn {
			return gCycle, pol, true
		}
	}
	return 0, false, false
}

func (r *registerRule) OnBranch(e *Engine, st *State, fc *FrameCtx, in *ssa.If, taken bool) {
	g, rejectOnTrue, ok := r.guardOf(e, fc, in.Cond)
	if !ok {
		return
	}
	b := []byte(st.Sigma)
	if taken == rejectOnTrue {
		b[g] = 'r'
	} else {
		b[g] = 'a'
	}
	st.Sigma = string(b)
}

func (r *registerRule) OnInstr(e *Engine, st *State, fc *FrameCtx, in ssa.Instruction) bool {
	if _, isDefer := in.(*ssa.Defer); isDefer && !st.ExecDefer {
		return false
	}
	b := []byte(st.Sigma)
	defer func() { st.Sigma = string(b) }()
	switch x := in.(type) {
	case *ssa.MapUpdate:
		if _, ok := r.R.isUpMapLoad(x.Map); ok {
			for g, name := range []string{"source name empty", "target name empty", "source equals target", "nil function", "cycle query"} {
				if b[g] != 'a' {
					e.Report(st, in.Pos(), "register/insertion-guarded-by/"+strings.ReplaceAll(name, " ", "-"), "the upcaster graph is extended on a path on which the '%s' test was not evaluated with its accepting outcome (state %c)", name, b[g])
				}
			}
			if b[gLock] != 'w' {
				e.Report(st, in.Pos(), "register/insert-under-write-lock", "the graph insertion happens without the registry write lock")
			} else if b[gRegion] != 'y' {
				e.Report(st, in.Pos(), "register/check-and-insert-atomic", "the reachability query and the insertion are not in one write-locked region: two racing registrations that are each legal alone can both be accepted and close a cycle")
			}
			if b[gInserted] == 'y' {
				e.Report(st, in.Pos(), "register/one-insertion", "a registration inserts more than once")
			}
			b[gInserted] = 'y'
		}
	case *ssa.Store:
		if al, ok := x.Addr.(*ssa.Alloc); ok && typeName(al.Type()) == "error" && fc.parent == nil {
			b[gResult] = classifyErrAt(e, st, fc, x.Val)
		}
	case *ssa.Return:
		if len(x.Results) == 1 && fc.parent == nil {
			v := x.Results[0]
			if ld, ok := v.(*ssa.UnOp); ok && ld.Op == token.MUL {
				if _, ok := ld.X.(*ssa.Alloc); !ok {
					b[gResult] = '?'
				}
			} else {
				b[gResult] = classifyErrAt(e, st, fc, v)
			}
		}
	case ssa.CallInstruction:
		c := x.Common()
		if kind, mu, ok := mutexOp(c); ok {
			if tn, fld, _, ok := fieldOfAddr(mu); ok && tn == r.R.UpRegT.Obj().Name() && fld == r.R.UpMu {
				switch kind {
				case "Lock":
					b[gLock], b[gRegion] = 'w', 'n'
				case "RLock":
					b[gLock], b[gRegion] = 'r', 'n'
				default:
					b[gLock], b[gRegion] = 'n', 'n'
				}
			}
			return false
		}
		if sc := c.StaticCallee(); sc != nil && sc == r.cycleFn {
			r.sawCycle = true
			if b[gLock] == 'n' {
				e.Report(st, in.Pos(), "register/cycle-query-under-lock", "the reachability query reads the graph without the registry lock")
			}
			if b[gLock] == 'w' {
				b[gRegion] = 'y'
			}
			// arguments: (from, to) of this registration
			if len(r.pc) > 2 {
				sawFrom, sawTo := false, false
				opaque := false // a name handed over in a form that cannot be traced (a struct field)
				for _, a := range c.Args {
					if !isBasicKind(a.Type(), types.String) {
						continue
					}
					switch cv := e.CanonS(fc, stripConv(a)); {
					case cv == r.pc[1]:
						sawFrom = true
					case cv == r.pc[2]:
						sawTo = true
					case !strings.HasPrefix(cv, "param:") && !strings.HasPrefix(cv, "const:"):
						opaque = true
					}
				}
				if (!sawFrom || !sawTo) && !opaque {
					e.Report(st, in.Pos(), "register/cycle-query-args", "the reachability query is not asked about (source, target) of this registration")
				}
			}
		}
	}
	return false
}

func (r *registerRule) OnExit(e *Engine, st *State, kind ExitKind) {
	if kind != ExitReturn {
		return
	}
	b := []byte(st.Sigma)
	rejected := false
	for g := 0; g < 5; g++ {
		if b[g] == 'r' {
			rejected = true
		}
	}
	switch {
	case rejected && b[gInserted] == 'y':
		e.Report(st, token.NoPos, "register/rejecting-arm-touches-graph", "a rejected registration still modifies the graph")
	case rejected && b[gResult] != 'e':
		e.Report(st, token.NoPos, "register/rejecting-arm-returns-error", "a rejected registration does not return a non-nil error (result class %c)", b[gResult])
	case !rejected && b[gInserted] != 'y':
		e.Report(st, token.NoPos, "register/accepted-inserts", "a registration that passes every test is not inserted")
	case !rejected && b[gResult] != 'n':
		e.Report(st, token.NoPos, "register/accepted-returns-nil", "an accepted registration does not return nil (result class %c)", b[gResult])
	}
	if b[gLock] != 'n' {
		e.Report(st, token.NoPos, "register/lock-released", "register returns with the registry lock held")
	}
}

func checkRegister(c *Ctx, p *Prog, R *BusRoles, r1, r2 string) {
	f := R.RegisterFn
	// the cycle query: a static callee in the package returning bool that receives both names
	var cycleFn *ssa.Function
	scanFns := []*ssa.Function{f}
	for _, g := range reachFuncs(p, f, PkgBus) { // then the helpers it calls under its lock
		if g != f {
			scanFns = append(scanFns, g)
		}
	}
	for _, g := range scanFns {
		if cycleFn != nil {
			break // the query called by register itself (or by the nearest helper) wins
		}
		for _, b := range g.Blocks {
			for _, in := range b.Instrs {
				if call, ok := in.(*ssa.Call); ok {
					if sc := call.Common().StaticCallee(); sc != nil && PkgOf(sc) == PkgBus && sc.Signature.Results().Len() == 1 {
						if bt, ok := sc.Signature.Results().At(0).Type().Underlying().(*types.Basic); ok && bt.Kind() == types.Bool {
							takesGraph := false
							for _, a := range call.Common().Args {
								if _, ok := R.isUpMapLoad(a); ok {
									takesGraph = true
								}
							}
							if readsUpMap(sc, R, 0) || takesGraph {
								cycleFn = sc
							}
						}
					}
				}
			}
		}
	}
	if cycleFn == nil {
		c.Unresolved(r1, "UNRESOLVED-ANCHOR/register/cycle-query", "register does not call a boolean reachability query over the upcaster graph")
		return
	}
	e := NewEngine(p)
	rr := &registerRule{R: R, cycleFn: cycleFn}
	e.Run(rr, f, "uuuuunnn?")
	c.Stats["product_states"] += e.States
	bad1, bad2 := false, false
	for _, fd := range e.Findings {
		rule := r1
		if strings.Contains(fd.Construct, "atomic") || strings.Contains(fd.Construct, "under-write-lock") || strings.Contains(fd.Construct, "under-lock") || strings.Contains(fd.Construct, "lock-released") {
			rule = r2
			bad2 = true
		} else {
			bad1 = true
		}
		c.Violate(rule, fd.Construct, p.Pos(fd.Pos), fd.Msg, fd.Trace)
	}
	if !bad1 {
		c.Discharge(r1, "register/guards-dominate-insertion", p.Pos(f.Pos()), "insertion only after all five rejecting tests took their accepting arm; rejecting arms return a non-nil error without touching the graph; accepted registrations insert once and return nil")
	}
	if !bad2 {
		c.Discharge(r2, "register/check-and-insert-atomic", p.Pos(f.Pos()), "reachability query and insertion inside one write-locked region")
	}
	// R2: the query's helpers read the graph only in callers' locked contexts (no locking of their own, no other callers)
	for _, g := range p.FuncsIn(PkgBus) {
		if g == f || g.Parent() != nil {
			continue
		}
		if readsUpMapDirect(g, R) && !locksUpMu(g, R) {
			// a lock-free reader: all its static callers must be lock-free readers
			// themselves or hold the lock — checked by C03.R1's lock-set analysis; here
			// we only make sure it is not exported
			if g.Object() != nil && g.Object().Exported() {
				c.Violate(r2, "upcast-graph/lock-free-reader-exported/"+FuncDisplay(g), p.Pos(g.Pos()), "an exported function reads the upcaster graph without taking the registry lock", nil)
			}
		}
	}
}

func readsUpMap(f *ssa.Function, R *BusRoles, d int) bool {
	if f == nil || d > 4 {
		return false
	}
	if readsUpMapDirect(f, R) {
		return true
	}
	for _, b := range f.Blocks {
		for _, in := range b.Instrs {
			if ci, ok := in.(ssa.CallInstruction); ok {
				if sc := ci.Common().StaticCallee(); sc != nil && PkgOf(sc) == PkgBus && sc != f && readsUpMap(sc, R, d+1) {
					return true
				}
			}
		}
	}
	return false
}

func readsUpMapDirect(f *ssa.Function, R *BusRoles) bool {
	for _, b := range f.Blocks {
		for _, in := range b.Instrs {
			if fa, ok := in.(*ssa.FieldAddr); ok {
				if tn, fld, _, ok := fieldOfAddr(fa); ok && tn == R.UpRegT.Obj().Name() && fld == R.UpMap {
					return true
				}
			}
		}
	}
	return false
}

func locksUpMu(f *ssa.Function, R *BusRoles) bool {
	for _, b := range f.Blocks {
		for _, in := range b.Instrs {
			if ci, ok := in.(ssa.CallInstruction); ok {
				if _, mu, ok := mutexOp(ci.Common()); ok {
					if tn, fld, _, ok := fieldOfAddr(mu); ok && tn == R.UpRegT.Obj().Name() && fld == R.UpMu {
						return true
					}
				}
			}
		}
	}
	return false
}

// ---------------------------------------------------------------------------
// C16.R3: other writers only remove.

func checkUpMapWriters(c *Ctx, p *Prog, R *BusRoles, rule string) {
	n := 0
	for _, f := range p.FuncsIn(PkgBus) {
		for _, b := range f.Blocks {
			for _, in := range b.Instrs {
				construct := "upcast-graph/writer/" + FuncDisplay(f)
				switch x := in.(type) {
				case *ssa.MapUpdate:
					if _, ok := R.isUpMapLoad(x.Map); ok {
						n++
						onlyFromRegister := false
						if f != R.RegisterFn && f.Parent() == nil {
							sites := newIPIndex(p).callers[f]
							onlyFromRegister = len(sites) > 0
							for _, cs := range sites {
								if cs.Parent() != R.RegisterFn {
									onlyFromRegister = false
								}
							}
						}
						if f == R.RegisterFn || onlyFromRegister {
							c.Discharge(rule, construct+"/insert", p.Pos(in.Pos()), "the guarded insertion in register")
						} else {
							c.Violate(rule, construct+"/insert", p.Pos(in.Pos()), "an edge is added to the upcaster graph outside register: it bypasses validation and the cycle check", nil)
						}
					}
				case *ssa.Store:
					if tn, fld, base, ok := fieldOfAddr(x.Addr); ok && tn == R.UpRegT.Obj().Name() && fld == R.UpMap {
						n++
						_, isMM := stripConv(x.Val).(*ssa.MakeMap)
						switch {
						case isFreshObject(base):
							c.Discharge(rule, construct+"/init", p.Pos(in.Pos()), "graph of a registry under construction")
						case isMM:
							c.Discharge(rule, construct+"/reset", p.Pos(in.Pos()), "replaced by an empty map (removal only)")
						default:
							c.Violate(rule, construct+"/replace", p.Pos(in.Pos()), "the upcaster graph is replaced by something other than an empty map", nil)
						}
					}
				case *ssa.Call:
					if bi, ok := x.Common().Value.(*ssa.Builtin); ok && (bi.Name() == "delete" || bi.Name() == "clear") {
						if _, ok := R.isUpMapLoad(x.Common().Args[0]); ok {
							n++
							c.Discharge(rule, construct+"/"+bi.Name(), p.Pos(in.Pos()), "removal only")
						}
					}
				}
			}
		}
	}
	c.Floor(rule, "upcaster graph writers", n, 4)
}

// ---------------------------------------------------------------------------
// C16.R4: the reachability search is a guarded recursion over all successors.

func checkCycleSearch(c *Ctx, p *Prog, R *BusRoles, rule string) {
	// the recursive searcher: a function in the package that calls itself and reads the graph
	var dfs *ssa.Function
	// the graph's type (map from a type name to its upcasters)
	var graphT types.Type
	if st := structOf(R.UpRegT); st != nil {
		for i := 0; i < st.NumFields(); i++ {
			if st.Field(i).Name() == R.UpMap {
				graphT = st.Field(i).Type()
			}
		}
	}
	takesGraph := func(f *ssa.Function) bool {
		for _, prm := range f.Params {
			if graphT != nil && types.Identical(prm.Type(), graphT) {
				return true
			}
		}
		return false
	}
	for _, f := range p.FuncsIn(PkgBus) {
		// reads the graph from the registry, or is handed the graph as an argument
		if f.Parent() != nil || !(readsUpMapDirect(f, R) || takesGraph(f)) {
			continue
		}
		for _, g := range append([]*ssa.Function{f}, f.AnonFuncs...) {
			for _, b := range g.Blocks {
				for _, in := range b.Instrs {
					if call, ok := in.(*ssa.Call); ok && call.Common().StaticCallee() == f {
						dfs = f
					}
				}
			}
		}
	}
	if dfs == nil {
		c.Unresolved(rule, "UNRESOLVED-ANCHOR/cycle-search", "no recursive search over the upcaster graph found")
		return
	}
	name := FuncDisplay(dfs)
	pos := p.Pos(dfs.Pos())
	if len(dfs.Params) != 4 {
		c.Unresolved(rule, name+"/signature", "search does not have the (registry, current, target, visited) shape")
		return
	}
	cur, target, visited := dfs.Params[1], dfs.Params[2], dfs.Params[3]
	// a parameter captured by a closure lives in a cell: reads of the cell are the parameter
	cells := indexCells(p)
	pv := func(v ssa.Value) ssa.Value {
		v = stripConv(v)
		var al *ssa.Alloc
		switch x := cellOf(v).(type) {
		case *ssa.FreeVar:
			al = cells.freeAlloc[x]
		case *ssa.Alloc:
			al = x
		}
		if al != nil {
			if ss := cells.stores[al]; len(ss) == 1 {
				if pr, ok := stripConv(ss[0]).(*ssa.Parameter); ok {
					return pr
				}
			}
		}
		return v
	}
	// the loop over the successors of current
	var lookup *ssa.Lookup
	for _, b := range dfs.Blocks {
		for _, in := range b.Instrs {
			if lk, ok := in.(*ssa.Lookup); ok {
				_, isField := R.isUpMapLoad(lk.X)
				isParamGraph := false
				if pr, ok := pv(lk.X).(*ssa.Parameter); ok && pr.Parent() == dfs && graphT != nil && types.Identical(pr.Type(), graphT) {
					isParamGraph = true
				}
				if (isField || isParamGraph) && pv(lk.Index) == ssa.Value(cur) {
					lookup = lk
				}
			}
		}
	}
	if lookup == nil {
		c.Violate(rule, name+"/successors-of-current", pos, "the search does not enumerate the upcasters registered for the current type", nil)
		return
	}
	entryTests := func(before *ssa.BasicBlock, inLoop map[*ssa.BasicBlock]bool) bool {
		good := true
		sawTarget, sawVisitedTest, sawMark := false, false, false
		for _, b := range dfs.Blocks {
			if inLoop[b] {
				continue
			}
			for _, in := range b.Instrs {
				switch x := in.(type) {
				case *ssa.BinOp:
					if x.Op == token.EQL && ((pv(x.X) == ssa.Value(cur) && pv(x.Y) == ssa.Value(target)) || (pv(x.X) == ssa.Value(target) && pv(x.Y) == ssa.Value(cur))) {
						sawTarget = true
					}
				case *ssa.Lookup:
					if pv(x.X) == ssa.Value(visited) && pv(x.Index) == ssa.Value(cur) {
						sawVisitedTest = true
					}
				case *ssa.MapUpdate:
					if pv(x.Map) == ssa.Value(visited) && pv(x.Key) == ssa.Value(cur) {
						sawMark = true
						if !(b == before || b.Dominates(before)) {
							good = false
							c.Violate(rule, name+"/mark-before-recursing", p.Pos(in.Pos()), "the current type is not marked visited before its successors are explored", nil)
						}
					}
				}
			}
		}
		if !sawTarget || !sawVisitedTest || !sawMark {
			good = false
			c.Violate(rule, name+"/target-and-visited-tests", pos, fmt.Sprintf("the search lacks its entry tests (current==target: %v, visited[current] test: %v, mark: %v)", sawTarget, sawVisitedTest, sawMark), nil)
		}
		return good
	}
	recArgsOK := func(recCall *ssa.Call) bool {
		good := true
		if len(recCall.Common().Args) == 4 {
			a := recCall.Common().Args
			if tn, fld, _, ok := fieldLoad(a[1]); !(ok && tn == "Upcaster" && fld == "ToType") {
				good = false
				c.Violate(rule, name+"/recurse-on-successor-target", p.Pos(recCall.Pos()), "the search does not recurse on the successor's target type", nil)
			}
			if pv(a[2]) != ssa.Value(target) || pv(a[3]) != ssa.Value(visited) {
				good = false
				c.Violate(rule, name+"/recurse-same-target-and-visited", p.Pos(recCall.Pos()), "the recursion changes the target or uses a different visited set", nil)
			}
		}
		return good
	}
	// idiom: `return slices.ContainsFunc(successors, func(u) bool { return search(u.ToType, target, visited) })`
	for _, b := range dfs.Blocks {
		for _, in := range b.Instrs {
			call, ok := in.(*ssa.Call)
			if !ok || !strings.HasPrefix(calleeName(call.Common()), "slices.ContainsFunc") || len(call.Common().Args) != 2 {
				continue
			}
			mc, isMC := stripConv(call.Common().Args[1]).(*ssa.MakeClosure)
			if stripConv(call.Common().Args[0]) != ssa.Value(lookup) || !isMC {
				continue
			}
			cl := mc.Fn.(*ssa.Function)
			good := true
			// the closure's only result is the recursive answer for its element
			var rec *ssa.Call
			for _, ret := range returnsOf(cl) {
				rc, ok := stripConv(ret.Results[0]).(*ssa.Call)
				if !ok || rc.Common().StaticCallee() != dfs {
					good = false
					c.Violate(rule, name+"/all-successors-explored", p.Pos(ret.Pos()), "the predicate given to ContainsFunc does not return the recursive answer for every successor", nil)
					continue
				}
				rec = rc
				if _, _, base, ok := fieldLoad(rc.Common().Args[1]); !ok || pv(base) != ssa.Value(cl.Params[0]) {
					if al, isAl := stripConv(base).(*ssa.Alloc); !isAl || len(cells.stores[al]) != 1 || stripConv(cells.stores[al][0]) != ssa.Value(cl.Params[0]) {
						good = false
						c.Violate(rule, name+"/recurse-on-successor-target", p.Pos(rc.Pos()), "the predicate does not recurse on its own element's target type", nil)
					}
				}
			}
			if rec == nil {
				continue
			}
			good = recArgsOK(rec) && good
			// the answer is ContainsFunc's answer
			for _, ref := range *call.Referrers() {
				if _, isRet := ref.(*ssa.Return); !isRet {
					good = false
					c.Violate(rule, name+"/all-successors-explored", p.Pos(call.Pos()), "the result of ContainsFunc is not returned as the search's answer", nil)
				}
			}
			good = entryTests(b, nil) && good
			if good {
				c.Discharge(rule, name+"/guarded-recursion-over-all-successors", pos, "current==target ⇒ true; visited test-and-mark before recursing; slices.ContainsFunc over all successors with the recursive answer as predicate")
			}
			return
		}
	}
	// loop header: the block that indexes the lookup
	li := loopsOf(dfs)
	var header *ssa.BasicBlock
	var recCall *ssa.Call
	for _, b := range dfs.Blocks {
		for _, in := range b.Instrs {
			if call, ok := in.(*ssa.Call); ok && call.Common().StaticCallee() == dfs {
				recCall = call
				header = li.headerOf[b]
			}
		}
	}
	if recCall == nil || header == nil {
		c.Violate(rule, name+"/recursion-in-loop", pos, "the recursive call is not inside a loop over the successors", nil)
		return
	}
	good := true
	body := li.body[header]
	// (a) recursion argument: successor's target type, same target, same visited set
	good = recArgsOK(recCall) && good
	// (b) inside the loop the only way out is `return true` after a positive recursive answer
	for b := range body {
		last := b.Instrs[len(b.Instrs)-1]
		if ret, ok := last.(*ssa.Return); ok {
			k, isK := ret.Results[0].(*ssa.Const)
			okTrue := isK && k.Value != nil && k.Value.ExactString() == "true"
			cond, onTrue := guardingCond(b)
			if !(okTrue && onTrue && cond == ssa.Value(recCall)) {
				good = false
				c.Violate(rule, name+"/all-successors-explored", p.Pos(ret.Pos()), "the loop over a type's upcasters can be left early without a positive answer (e.g. `return false` on an already visited successor): the remaining edges are never explored and a registration that closes a cycle through them is accepted", nil)
			}
		}
		if iff, ok := last.(*ssa.If); ok && b != header {
			// a branch that jumps out of the loop other than via return true
			for _, s := range b.Succs {
				if !body[s] {
					if _, isRet := s.Instrs[len(s.Instrs)-1].(*ssa.Return); !isRet || iff.Cond != ssa.Value(recCall) {
						good = false
						c.Violate(rule, name+"/all-successors-explored", p.Pos(iff.Pos()), "the successor loop has an exit other than the positive answer", nil)
					}
				}
			}
		}
	}
	// the loop ranges over the whole lookup
	if iff, ok := header.Instrs[len(header.Instrs)-1].(*ssa.If); ok {
		full := false
		if bo, ok := iff.Cond.(*ssa.BinOp); ok && bo.Op == token.LSS {
			if call, ok := bo.Y.(*ssa.Call); ok {
				if bi, ok := call.Common().Value.(*ssa.Builtin); ok && bi.Name() == "len" && stripConv(call.Common().Args[0]) == ssa.Value(lookup) {
					full = true
				}
			}
		}
		if !full {
			good = false
			c.Violate(rule, name+"/all-successors-explored", p.Pos(iff.Pos()), "the successor loop does not range over the whole list of upcasters", nil)
		}
	}
	// (c) target test and visited test-and-mark before the loop
	good = entryTests(header, body) && good
	if good {
		c.Discharge(rule, name+"/guarded-recursion-over-all-successors", pos, "current==target ⇒ true; visited test-and-mark before recursing; every successor explored; true propagates")
	}
}

// ---------------------------------------------------------------------------
// C16.R5 + C17.R1/R3/R4: apply.

func checkApply(c *Ctx, p *Prog, R *BusRoles, r5, r17 string, want map[string]bool) {
	f := R.ApplyFn
	name := "apply"
	pos := p.Pos(f.Pos())
	if len(f.Params) != 3 {
		c.Unresolved(r5, name+"/signature", "apply does not have the (registry, data, type) shape")
		return
	}
	dataP, typeP := f.Params[1], f.Params[2]
	li := loopsOf(f)
	// the chain loop: the loop containing the dynamic call of an Upcaster's function
	var upCall *ssa.Call
	for _, b := range f.Blocks {
		for _, in := range b.Instrs {
			if call, ok := in.(*ssa.Call); ok && isDynamicCall(call.Common()) {
				if tn, fld, _, ok := fieldLoad(call.Common().Value); ok && tn == "Upcaster" && fld == "Upcast" {
					upCall = call
				}
			}
		}
	}
	if upCall == nil {
		c.Unresolved(r5, "UNRESOLVED-ANCHOR/apply/upcast-call", "apply does not call an upcaster's function")
		return
	}
	header := li.headerOf[upCall.Block()]
	if header == nil {
		c.Violate(r17, name+"/chain-loop", pos, "the upcaster call is not in a loop: chains longer than one step are not followed", nil)
		return
	}
	body := li.body[header]
	// loop-carried current type / data: phis in the header fed by the call's results
	var curType, curData *ssa.Phi
	for _, in := range header.Instrs {
		ph, ok := in.(*ssa.Phi)
		if !ok {
			continue
		}
		for _, ed := range ph.Edges {
			if ex, ok := ed.(*ssa.Extract); ok && ex.Tuple == ssa.Value(upCall) {
				switch ex.Index {
				case 0:
					curData = ph
				case 1:
					curType = ph
				}
			}
		}
	}
	if want["R5"] {
		if curType == nil {
			c.Violate(r5, name+"/termination/next-type", pos, "cannot find the loop-carried current type fed by the upcaster's returned type", nil)
		} else {
			// visited set: a map[string]bool made in apply
			var vis *ssa.MakeMap
			for _, b := range f.Blocks {
				for _, in := range b.Instrs {
					if mm, ok := in.(*ssa.MakeMap); ok {
						if mt, ok := mm.Type().Underlying().(*types.Map); ok && isStringType(mt.Key()) {
							vis = mm
						}
					}
				}
			}
			if vis == nil {
				c.Violate(r5, name+"/termination/visited-set", pos, "apply keeps no visited set: nothing bounds the number of iterations", nil)
			} else {
				// (i) every type that becomes current is in the visited set before the next
				// upcaster is called. Two equivalent formulations are recognised:
				//   top:    visited[current] = true at the head of every iteration;
				//   bottom: visited starts as {start type} and visited[next] = true is
				//           executed on every path to the back edge.
				var nextEx *ssa.Extract
				for _, ed := range curType.Edges {
					if ex, ok := ed.(*ssa.Extract); ok && ex.Tuple == ssa.Value(upCall) && ex.Index == 1 {
						nextEx = ex
					}
				}
				markedTop, markedBottom, seeded := false, false, false
				for _, b := range f.Blocks {
					for _, in := range b.Instrs {
						mu, ok := in.(*ssa.MapUpdate)
						if !ok || mu.Map != ssa.Value(vis) {
							continue
						}
						key := stripConv(mu.Key)
						switch {
						case !body[b] && key == ssa.Value(typeP) && b.Dominates(header):
							seeded = true
						case body[b] && key == ssa.Value(curType) && b.Dominates(upCall.Block()):
							markedTop = true
						case body[b] && nextEx != nil && key == ssa.Value(nextEx):
							// on every path to the back edge
							all := true
							for _, pr := range header.Preds {
								if body[pr] && !(b == pr || b.Dominates(pr)) {
									all = false
								}
							}
							if all {
								markedBottom = true
							} else {
								c.Violate(r5, name+"/termination/marks-current-type", p.Pos(in.Pos()), "the type that becomes current is marked visited only on some paths to the next iteration", nil)
							}
						default:
							c.Violate(r5, name+"/termination/marks-current-type", p.Pos(in.Pos()), "the visited set is not extended with the loop's current type each iteration (it marks "+describeValue(mu.Key)+"): the set does not grow, so a chain that revisits a type is not detected", nil)
						}
					}
				}
				switch {
				case markedTop:
					c.Discharge(r5, name+"/termination/marks-current-type", pos, "visited[currentType] = true at the top of every iteration")
				case markedBottom && seeded:
					c.Discharge(r5, name+"/termination/marks-current-type", pos, "visited starts as {start type}; visited[next type] = true on every path to the next iteration")
				default:
					c.Violate(r5, name+"/termination/marks-current-type", pos, "the loop does not mark its current type as visited before calling the upcaster (neither at the top of the iteration, nor start-seeded with the next type marked before the next iteration)", nil)
				}
				// (ii) the value that becomes the next current type is tested against the
				// visited set on every path to the back edge, with the hit leaving the loop
				var next *ssa.Extract
				for _, ed := range curType.Edges {
					if ex, ok := ed.(*ssa.Extract); ok && ex.Tuple == ssa.Value(upCall) && ex.Index == 1 {
						next = ex
					}
				}
				tested := false
				for b := range body {
					iff, ok := b.Instrs[len(b.Instrs)-1].(*ssa.If)
					if !ok {
						continue
					}
					lk, ok := iff.Cond.(*ssa.Lookup)
					if !ok || lk.X != ssa.Value(vis) || next == nil || stripConv(lk.Index) != ssa.Value(next) {
						continue
					}
					// hit arm leaves the loop, miss arm continues; and the test dominates the back edge
					if !body[b.Succs[0]] || !reachesBlockWithin(b.Succs[0], header, body) {
						backEdgeDominated := true
						for _, pr := range header.Preds {
							if body[pr] && !b.Dominates(pr) {
								backEdgeDominated = false
							}
						}
						if backEdgeDominated {
							tested = true
						}
					}
				}
				if tested {
					c.Discharge(r5, name+"/termination/returned-type-checked", pos, "the type the upcaster returned is looked up in the visited set before it becomes the current type; a hit leaves the loop: at most |types|+1 iterations whatever upcasters return")
				} else {
					c.Violate(r5, name+"/termination/returned-type-checked", pos, "the type that becomes the next current type (the upcaster's returned type) is not tested against the visited set on every path to the next iteration: a raw upcaster returning an already visited type makes the loop spin forever", nil)
				}
			}
		}
	}
	if want["R1"] {
		// C17.R1: error returns carry the parameters; success returns the accumulators
		n := 0
		for _, ret := range returnsOf(f) {
			if len(ret.Results) != 3 {
				continue
			}
			n++
			d, t, er := resolveResult(ret, 0), resolveResult(ret, 1), resolveResult(ret, 2)
			construct := fmt.Sprintf("%s/return#%d", name, n)
			isErr := false
			if k, ok := er.(*ssa.Const); !(ok && k.Value == nil) {
				isErr = true
			}
			if isErr {
				okOrig := stripConv(d) == ssa.Value(dataP) && stripConv(t) == ssa.Value(typeP)
				c.Check(okOrig, r17, construct+"/error-returns-original", p.Pos(ret.Pos()), "error return hands back the original (data, type)", "an error return of apply hands back partly upcast data/type instead of the original input: callers that fall back to apply's results deliver a half-migrated event")
			} else {
				okAcc := (stripConv(d) == ssa.Value(dataP) && stripConv(t) == ssa.Value(typeP)) || (curData != nil && curType != nil && stripConv(d) == ssa.Value(curData) && stripConv(t) == ssa.Value(curType))
				c.Check(okAcc, r17, construct+"/success-returns-accumulators", p.Pos(ret.Pos()), "success return hands back the loop-carried (data, type) pair", "a success return of apply does not hand back the chain's accumulated (data, type) pair")
			}
		}
		c.Floor(r17, "apply returns", n, 4)
		// the upcaster is fed the accumulated data
		if curData != nil {
			c.Check(len(upCall.Common().Args) == 1 && stripConv(upCall.Common().Args[0]) == ssa.Value(curData), r17, name+"/step-input-is-accumulated-data", p.Pos(upCall.Pos()), "each step transforms the previous step's output", "an upcaster is not applied to the accumulated data of the previous step")
		}
	}
	if want["R4"] {
		// selection: element 0 of the list looked up for the current type
		okSel := false
		if tn, _, base, ok := fieldLoad(upCall.Common().Value); ok && tn == "Upcaster" {
			// base is a local copy of &list[0] or the element itself
			src := base
			if al, ok := stripConv(base).(*ssa.Alloc); ok {
				for _, ref := range *al.Referrers() {
					if st, ok := ref.(*ssa.Store); ok && st.Addr == al {
						src = st.Val
					}
				}
			}
			if ld, ok := stripConv(src).(*ssa.UnOp); ok && ld.Op == token.MUL {
				if ia, ok := ld.X.(*ssa.IndexAddr); ok && isConstInt(ia.Index, 0) {
					// the list: the lookup for the current type, or a loop-carried variable
					// whose every value is such a lookup (for cands := m[t]; …; cands = m[t])
					var isCurLookup func(v ssa.Value, d int) bool
					isCurLookup = func(v ssa.Value, d int) bool {
						v = stripConv(v)
						if ex, ok := v.(*ssa.Extract); ok {
							v = ex.Tuple
						}
						switch x := v.(type) {
						case *ssa.Lookup:
							if _, ok := R.isUpMapLoad(x.X); !ok || curType == nil {
								return false
							}
							idx := stripConv(x.Index)
							if idx == ssa.Value(curType) {
								return true
							}
							for _, ed := range curType.Edges { // the value current has at that point
								if stripConv(ed) == idx {
									return true
								}
							}
							return false
						case *ssa.Phi:
							if d > 2 {
								return false
							}
							for _, ed := range x.Edges {
								if !isCurLookup(ed, d+1) {
									return false
								}
							}
							return len(x.Edges) > 0
						}
						return false
					}
					if isCurLookup(ia.X, 0) {
						okSel = true
					}
				}
			}
		}
		c.Check(okSel, r17, name+"/first-registered-upcaster", p.Pos(upCall.Pos()), "element 0 of the list registered for the current type", "apply does not select the first-registered upcaster of the current type")
	}
	if want["R3"] {
		// error handler exactly once on the failing-step path with (current type, current data, err)
		// (the call may sit in an in-package helper called from apply: its parameters are
		// then read through the helper's call site)
		type hsite struct {
			h    *ssa.Call // the dynamic call of the handler
			site *ssa.Call // apply's call of the helper containing it (nil: in apply itself)
		}
		var hcalls []hsite
		isHandlerCall := func(in ssa.Instruction) (*ssa.Call, bool) {
			call, ok := in.(*ssa.Call)
			if !ok || !isDynamicCall(call.Common()) {
				return nil, false
			}
			tn, fld, _, ok := fieldLoad(call.Common().Value)
			return call, ok && tn == R.UpRegT.Obj().Name() && fld == R.UpErrH
		}
		for _, b := range f.Blocks {
			for _, in := range b.Instrs {
				if call, ok := isHandlerCall(in); ok {
					hcalls = append(hcalls, hsite{call, nil})
					continue
				}
				if site, ok := in.(*ssa.Call); ok {
					if sc := site.Common().StaticCallee(); sc != nil && PkgOf(sc) == PkgBus && sc != f {
						for _, hb := range sc.Blocks {
							for _, hin := range hb.Instrs {
								if call, ok := isHandlerCall(hin); ok {
									hcalls = append(hcalls, hsite{call, site})
								}
							}
						}
					}
				}
			}
		}
		if len(hcalls) != 1 {
			c.Violate(r17, name+"/error-handler/once", pos, fmt.Sprintf("apply has %d call sites of the upcast error handler (want one, on the failing-step path)", len(hcalls)), nil)
		} else {
			h, site := hcalls[0].h, hcalls[0].site
			inApply := func(v ssa.Value) ssa.Value {
				v = stripConv(v)
				if pr, ok := v.(*ssa.Parameter); ok && site != nil {
					for i, q := range pr.Parent().Params {
						if q == pr && i < len(site.Common().Args) {
							return stripConv(site.Common().Args[i])
						}
					}
				}
				return v
			}
			a := h.Common().Args
			var errEx ssa.Value
			for _, ref := range *upCall.Referrers() {
				if ex, ok := ref.(*ssa.Extract); ok && ex.Index == 2 {
					errEx = ex
				}
			}
			okArgs := len(a) == 3 && curType != nil && curData != nil && inApply(a[0]) == ssa.Value(curType) && inApply(a[1]) == ssa.Value(curData) && errEx != nil && inApply(a[2]) == errEx
			c.Check(okArgs, r17, name+"/error-handler/args", p.Pos(h.Pos()), "called with (current type, current data, the step's error)", "the upcast error handler is not given (current type, current data, the failing step's error)")
			// on the err != nil side only, not in a nested loop, followed by an error return
			cond, onTrue := guardingCond(h.Block())
			okSide := false
			if x, _, ok := nilTest(cond); ok && onTrue {
				if tn, fld, _, ok := fieldLoad(x); ok && tn == R.UpRegT.Obj().Name() && fld == R.UpErrH {
					var c2 ssa.Value
					var onTrue2 bool
					if site != nil {
						c2, onTrue2 = guardingCond(site.Block())
					} else {
						c2, onTrue2 = guardingCond(h.Block().Preds[0])
					}
					if y, nonNil2, ok := nilTest(c2); ok && stripConv(y) == errEx && onTrue2 == nonNil2 {
						okSide = true
					}
				}
			}
			c.Check(okSide, r17, name+"/error-handler/on-failing-step-only", p.Pos(h.Pos()), "reached only when the step's error is non-nil and the handler is set; the path then returns", "the upcast error handler is not called exactly on the failing-step path")
		}
	}
}

func reachesBlockWithin(from, to *ssa.BasicBlock, within map[*ssa.BasicBlock]bool) bool {
	seen := map[*ssa.BasicBlock]bool{}
	stack := []*ssa.BasicBlock{from}
	for len(stack) > 0 {
		b := stack[len(stack)-1]
		stack = stack[:len(stack)-1]
		if seen[b] || !within[b] {
			continue
		}
		seen[b] = true
		if b == to {
			return true
		}
		stack = append(stack, b.Succs...)
	}
	return false
}
