#!/bin/bash
# Builds the checker offline from files on disk only.
set -e
cd "$(dirname "$0")"
export PATH=/opt/veriftools/go1.26.8/bin:$PATH GOTOOLCHAIN=local GOFLAGS=-mod=mod GOPROXY=off GOSUMDB=off GOWORK=off
mkdir -p bin evidence
if [ -d checker ]; then (cd checker && go build -o ../bin/ebucheck .); fi
echo "setup ok"
