#!/usr/bin/env python3
# Regenerates /verif/MANIFEST.json from the table below (kept valid at all times).
import json,subprocess
props=[json.loads(l) for l in open('/verif/properties.jsonl')]
claimed = {
 "C01": ("E-FLOW/E-TABLE key-agreement (registry accesses lifted through helpers) + effect check of the shard function + snapshot-isolation dataflow + delivery automaton (E-PATH over inlined SSA: filter evaluated, context polled, claim won before dispatch) + registry edit shapes + no user callback under a bus lock ahead of dispatch", "5.C01"),
 "C02": ("lock-set analysis (guarded-by over inlined SSA supergraph) + read-modify-write region atomicity + write-back provenance", "5.C02"),
 "C03": ("lock-set analysis: guarded-by, callbacks under locks, lock-order graph; who-may-write tables; atomic-only; WaitGroup protocol", "5.C03"),
 "C04": ("typestate automaton (claim/filter/context/dispatch/retire) explored over all paths of the inlined SSA supergraph incl. goroutine fork", "5.C04"),
 "C05": ("path exploration with panic edges, deferred calls and recover modelling; argument provenance of the panic handler", "5.C05"),
 "C06": ("wait-group typestate over publisher and goroutine paths (count before spawn, Done on every exit); Shutdown select-arm typestate", "5.C06"),
 "C07": ("lock-held-at-invocation typestate over all paths incl. panic edges; necessary-condition check for publisher-side sequencing", "5.C07"),
 "C09": ("must-pass-through typestate on PublishContext (persist call ahead of snapshot) + exhaustive path enumeration of the persist function with predicates + provenance of the record fields + lock-region check + no request-scoped state cached in store fields", "5.C09"),
 "C13": ("exhaustive path enumeration of the loop-free persist function (predicate-classified path classes) + argument provenance + containment checks", "5.C13"),
 "C15": ("value provenance (E-FLOW) from every name sink to the name functions + two-path specification of EventType + abstract evaluation of the typed name helper on the shapes of T (interface / TypeNamer / pointer) + types.Implements table + no in-place rewrite of stored events", "5.C15"),
 "C16": ("path enumeration of register (guards dominate insertion) + lock-region atomicity + who-may-write of the graph + structural recursion check + loop termination certificate", "5.C16"),
 "C17": ("return-value provenance of apply + dominance of err==nil over uses of upcast results + shape check of the typed wrapper", "5.C17"),
 "C10": ("E-TABLE conformance (types.Implements) + provenance and path rule for Read's next offset (it is the last returned event's) + format analysis of offsets + DSN provenance + SQL token tables + append-only ownership + sibling agreement by abstract evaluation of the read predicate + fresh decode targets in read loops + error-propagation path rule over the store functions", "5.C10"),
 "C11": ("typestate on row loops (Err after Next), path exploration of the range-over-func yield body, loop-exit classification of the paged replay, iterator-protocol typestate with inlining, error-propagation path rule (a found error is never returned as nil), next-offset path rule, who-may-call reachability", "5.C11"),
 "C12": ("dominance / reachability checks on SubscribeWithReplay, provenance of saved offsets (E-FLOW), handle-before-save ordering, hand-off mechanism check, field-sensitive source tracing of the SQLite read start position", "5.C12"),
 "C14": ("acknowledge-after-Exec typestate, SQL/pragma token tables, transaction pairing over all paths, who-may-call for file operations", "5.C14"),
 "C18": ("operation/control tables decided by evaluating the appliers for every enum constant (and an unknown one), all-path exploration of Apply with the collection applier inlined, string-expression normal form of the key function, fresh decode targets, lock sets", "5.C18"),
 "C19": ("all-path exploration of Apply (decode before mutate), struct-tag and constant tables, instruction-class scan of Apply's call tree, provenance of constructor fields", "5.C19"),
 "C20": ("callback pairing typestate over all paths incl. panic edges, context provenance (E-FLOW), per-path span/counter counting in the otel implementation", "5.C20"),
 "C08": ("context-gate and hook typestate automata over all paths of PublishContext; context provenance (E-FLOW)", "5.C08"),
}
names = subprocess.run(['bash','-c','cd /verif && bin/ebucheck list'],capture_output=True,text=True).stdout.split()
checks=[]
na=[]
for p in props:
    i=p['id']
    if i in claimed and i in names:
        tech,ref=claimed[i]
        checks.append({
          "property_id":i,
          "quick_cmd":f"./check {i} quick",
          "thorough_cmd":f"./check {i} thorough",
          "evidence_file":f"/verif/evidence/{i}.json",
          "replay_cmd_template":"./check replay {path}",
          "engine":"ebucheck",
          "level_claimed":{"category":"other","text":"Static analysis: structural necessary conditions of the property, decided for every path / writer / call site of /repo's current source (type-checked packages, SSA, inlined supergraph). It decides that the mechanism the behaviour depends on is intact on all paths; it does not decide the behavioural statement itself (runtime values, real-time order). Breaking a checked clause breaks the behaviour for some input or schedule; see DESIGN.md for what is not decided.","design_ref":ref},
          "level_note":"Trusted: go/types + go/ssa (x/tools v0.50.0, Go 1.26.8), documented semantics of sync, sync/atomic, context, database/sql, and the rule tables in /verif/checker. Nothing of /repo is executed. Known findings are listed in /verif/known_findings.json.",
          "technique":"static analysis: "+tech})
    else:
        na.append({"property_id":i,"reason":"no static check registered"})
m={
 "version":1,
 "setup_cmd":"./setup.sh",
 "hooks":{"guard":"verif","enable":"none needed: the checks are static and never build or execute /repo (no hook code exists; fix: commits in /repo are unguarded repairs)","baseline_off_cmd":"/verif/tools/baseline.sh /repo","source_commits":[],"add_only":True},
 "engines":[{"name":"ebucheck","path":"/verif/checker","serves_properties":[c["property_id"] for c in checks],"kind_free_text":"repository-specific static analyser in Go (go/packages + go/types + go/ssa): E-PATH state-machine exploration over an inlined SSA supergraph with defers/panic/recover/goroutine forks, E-LOCK lock sets, E-FLOW provenance, E-TABLE declarative facts"}],
 "checks":checks,
 "notes":"Static analysis only (see DESIGN.md). ./check <ID> quick|thorough analyses /repo's working tree in place; evidence is written to /verif/evidence/<ID>.json; violations not listed in known_findings.json print VIOLATION lines and exit 1.",
 "not_applicable":na
}
json.dump(m,open('/verif/MANIFEST.json','w'),indent=1)
print("checks:",[c["property_id"] for c in checks])
