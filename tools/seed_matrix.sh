#!/bin/bash
# Runs every registered check against one kept seeded change (scratch worktree) and
# records which checks report it in its meta.json. usage: tools/seed_matrix.sh <prop> <name>
set -u
PROP=$1; NAME=$2
D=/verif/seeded/$PROP/$NAME
WT=/tmp/wt/matrix-$PROP-$NAME-$$
SV=/tmp/verifscratch-$$-$PROP-$NAME
trap 'git -C /repo worktree remove --force $WT 2>/dev/null; rm -rf $SV' EXIT
git -C /repo worktree add -q --detach $WT HEAD || exit 2
git -C $WT apply $D/patch.diff || { echo "$PROP/$NAME: PATCH DOES NOT APPLY"; exit 1; }
mkdir -p $SV && cp /verif/known_findings.json $SV/
all=""
for id in $(cd /verif && bin/ebucheck list); do
  (cd /verif && bin/ebucheck -repo $WT -verif $SV $id quick > $SV/out-$id.txt 2>&1); rc=$?
  if [ $rc -ne 0 ]; then all="$all $id"; fi
done
own=MISSED; echo " $all " | grep -q " $PROP " && own=caught
echo "$PROP/$NAME own-check=$own reported_by=[$all ]"
python3 - "$D/meta.json" "$all" <<'PY'
import json,sys
m=json.load(open(sys.argv[1])); m["reported_by_checks"]=sys.argv[2].split(); json.dump(m,open(sys.argv[1],'w'),indent=1)
PY
