#!/bin/bash
# Runs every check against one behaviour-preserving refactoring (scratch worktree): any
# report is a false alarm. usage: tools/refactor_check.sh <patch.diff> <label>
set -u
PATCH=$(readlink -f "$1"); LABEL=${2:-$(basename $(dirname "$PATCH"))}
WT=/tmp/wt/refac-$$; SV=/tmp/verifscratch-refac-$$
trap 'git -C /repo worktree remove --force $WT 2>/dev/null; rm -rf $SV' EXIT
git -C /repo worktree add -q --detach $WT HEAD || exit 2
git -C $WT apply "$PATCH" || { echo "$LABEL: PATCH DOES NOT APPLY"; exit 1; }
mkdir -p $SV; cp /verif/known_findings.json $SV/
bad=""
for id in $(cd /verif && bin/ebucheck list); do
  out=$(cd /verif && bin/ebucheck -repo $WT -verif $SV $id quick 2>&1); rc=$?
  if [ $rc -ne 0 ]; then bad="$bad $id"; echo "$out" | grep -E "^  (VIOLATED|UNRESOLVED)" | sed "s#^#  [$LABEL/$id]#" | head -4; fi
done
echo "$LABEL false-alarms=[$bad ]"
