#!/bin/bash
# Runs the repository's pinned test suite (guard off; there are no hooks) and
# prints pass/fail counts. Usage: tools/baseline.sh [repo-dir]
REPO=${1:-/repo}
. /w/out/goenv.sh 2>/dev/null || gomodflag() { echo "-mod=mod"; }
fail=0
out=$(mktemp)
for m in . ./otel ./stores/durablestream ./stores/sqlite; do
  MF=$(cd $REPO/$m && gomodflag)
  (cd $REPO/$m && go test $MF -json -vet=off -count=1 -timeout 25m ./...) >> $out 2>&1
done
python3 - "$out" <<'PY'
import json,sys
p=f=0
failed=[]
for l in open(sys.argv[1]):
    try: e=json.loads(l)
    except Exception: continue
    if e.get('Test') and e.get('Action') in('pass','fail'):
        if e['Action']=='pass': p+=1
        else:
            f+=1; failed.append(e['Package']+'::'+e['Test'])
    elif not e.get('Test') and e.get('Action')=='fail':
        failed.append('PKG '+e.get('Package',''))
print(f"baseline: pass={p} fail={f}")
for x in failed: print("  FAIL",x)
sys.exit(1 if (f or failed or p<396) else 0)
PY
rc=$?
rm -f $out
exit $rc
