#!/bin/bash
# Records, for one kept seeded change, which rule instances of its own property's check
# report it (meta.json: own_check_reports). usage: tools/seed_rules.sh <prop> <name>
set -u
PROP=$1; NAME=$2
D=/verif/seeded/$PROP/$NAME
WT=/tmp/wt/rules-$PROP-$NAME-$$
SV=/tmp/verifscratch-rules-$$-$PROP-$NAME
trap 'git -C /repo worktree remove --force $WT 2>/dev/null; rm -rf $SV' EXIT
git -C /repo worktree add -q --detach $WT HEAD || exit 2
git -C $WT apply $D/patch.diff || { echo "$PROP/$NAME: PATCH DOES NOT APPLY"; exit 1; }
mkdir -p $SV && cp /verif/known_findings.json $SV/
(cd /verif && bin/ebucheck -repo $WT -verif $SV $PROP quick > $SV/out.txt 2>&1)
python3 - "$D/meta.json" "$SV/out.txt" "$PROP/$NAME" <<'PY'
import json,sys,re
m=json.load(open(sys.argv[1]))
reps=[]
for line in open(sys.argv[2]):
    mm=re.match(r'\s+(VIOLATED|UNRESOLVED) (\S+) \[(.*?)\] at',line)
    if mm: reps.append(mm.group(2)+" "+mm.group(3))
m["own_check_reports"]=sorted(set(reps))
json.dump(m,open(sys.argv[1],'w'),indent=1)
print(sys.argv[3], len(reps), "; ".join(sorted(set(r.split()[0] for r in reps))))
PY
