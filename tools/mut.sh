#!/bin/bash
# Dev aid: run checks against a scratch worktree with one patch applied.
# usage: tools/mut.sh <patch.diff> <ID> [<ID>...]   (IDs default to all registered)
set -u
PATCH=$(readlink -f "$1"); shift
WT=/tmp/wt/scratch-$$
git -C /repo worktree add -q --detach $WT HEAD || exit 2
trap 'git -C /repo worktree remove --force $WT' EXIT
git -C $WT apply "$PATCH" || { echo "PATCH DOES NOT APPLY"; exit 2; }
IDS="$@"; [ -z "$IDS" ] && IDS=$(cd /verif && bin/ebucheck list)
for id in $IDS; do
  out=$(cd /verif && VERIF_REPO=$WT ./check $id quick 2>&1); rc=$?
  echo "== $id rc=$rc"
  echo "$out" | grep -E "^  (VIOLATED|UNRESOLVED)" | head -${MUT_LINES:-6}
done
