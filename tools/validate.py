#!/opt/veriftools/pyvenv/bin/python
# Validates MANIFEST.json and evidence/*.json against the harness schemas.
import json,sys,glob,jsonschema
ok=True
def v(path,schema):
    global ok
    try:
        jsonschema.validate(json.load(open(path)),json.load(open(schema)))
    except Exception as e:
        ok=False; print("INVALID",path,str(e)[:300])
v('/verif/MANIFEST.json','/root/.vp/MANIFEST.schema.json')
for f in sorted(glob.glob('/verif/evidence/*.json')): v(f,'/root/.vp/EVIDENCE.schema.json')
m=json.load(open('/verif/MANIFEST.json'))
props=[json.loads(l)['id'] for l in open('/verif/properties.jsonl')]
claimed=[c['property_id'] for c in m['checks']]; na=[n['property_id'] for n in m.get('not_applicable',[])]
for p in props:
    if (p in claimed)==(p in na): ok=False; print("property",p,"must be in exactly one of checks/not_applicable")
print("valid" if ok else "FAILED"); sys.exit(0 if ok else 1)
