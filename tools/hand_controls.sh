#!/bin/bash
# Hand-made positive controls for rules that no seeded change exercises: each entry edits a
# scratch worktree of /repo (must still compile) and expects the named rule of the named
# check to report. usage: tools/hand_controls.sh [name-filter]
set -u
export PATH=/opt/veriftools/go1.26.8/bin:$PATH GOTOOLCHAIN=local GOFLAGS=-mod=mod GOPROXY=off GOSUMDB=off
FILTER=${1:-}
fail=0
run() { # name check rule moddir file perl-expr
  local name=$1 id=$2 rule=$3 mod=$4 file=$5 expr=$6
  [ -n "$FILTER" ] && [[ "$name" != *$FILTER* ]] && return
  local WT=/tmp/wt/hc-$$-$name
  git -C /repo worktree add -q --detach $WT HEAD || return
  perl -0pi -e "$expr" $WT/$file
  if git -C $WT diff --quiet; then echo "$name: EDIT DID NOT APPLY"; fail=1; git -C /repo worktree remove --force $WT; return; fi
  if ! (cd $WT/$mod && go build ./... 2>/tmp/hc-build.log); then echo "$name: DOES NOT COMPILE: $(head -3 /tmp/hc-build.log)"; fail=1; git -C /repo worktree remove --force $WT; return; fi
  git -C $WT diff > /verif/controls/$id-$name.diff
  local SV=/tmp/verifscratch-hc-$$; mkdir -p $SV; cp /verif/known_findings.json $SV/
  out=$(cd /verif && bin/ebucheck -repo $WT -verif $SV $id quick 2>&1)
  if echo "$out" | grep -qE "^  (VIOLATED|UNRESOLVED) $rule "; then echo "$name: reported by $rule"; else echo "$name: NOT REPORTED by $rule"; echo "$out" | grep -E "^  (VIOLATED|UNRESOLVED)" | head -3; fail=1; fi
  rm -rf $SV; git -C /repo worktree remove --force $WT
}
run shard-index-range   C01 C01.R2 . event_bus.go 's/h\.Sum32\(\) & \(numShards - 1\)/h.Sum32() % (numShards - 1)/'
run hashandlers-nolock  C02 C02.R1 . event_bus.go 's/(func HasHandlers\[T any\]\(bus \*EventBus\) bool \{\n\teventType := [^\n]*\n\n\tshard := bus\.getShard\(eventType\)\n)\tshard\.mu\.RLock\(\)\n\tdefer shard\.mu\.RUnlock\(\)\n/$1/'
run config-write-runtime C03 C03.R2 . event_bus.go 's/(func \(bus \*EventBus\) Wait\(\) \{\n)/$1\tbus.panicHandler = nil\n/'
run claim-plain-read    C03 C03.R3 . event_bus.go 's/(\t\tif h\.once \{\n)/\t\tif h.once \&\& h.executed == 1 {\n\t\t\tcontinue\n\t\t}\n$1/'
run claim-load-store    C04 C04.R1 . event_bus.go 's/if !atomic\.CompareAndSwapUint32\(&h\.executed, 0, 1\) \{\n\t\t\t\tcontinue \/\/ Already executed\n\t\t\t\}/if atomic.LoadUint32(\&h.executed) != 0 {\n\t\t\t\tcontinue \/\/ Already executed\n\t\t\t}\n\t\t\tatomic.StoreUint32(\&h.executed, 1)/'
run wait-other-group    C06 C06.R3 . event_bus.go 's/(func \(bus \*EventBus\) Wait\(\) \{\n)\tbus\.wg\.Wait\(\)/$1\tvar wg sync.WaitGroup\n\twg.Wait()/'
run persist-panics      C13 C13.R4 . persist.go 's/(data, err := json\.Marshal\(event\)\n\tif err != nil \{\n)/$1\t\tpanic(err)\n/'
run migration-not-idempotent C14 C14.R3 stores/sqlite stores/sqlite/schema.go 's/if version < 1 \{/if version < 2 {/'
run typenamer-pointer-recv C15 C15.R2 . state/message.go 's/func \(m ChangeMessage\) EventTypeName\(\)/func (m *ChangeMessage) EventTypeName()/'
run reset-skips         C18 C18.R2 . state/materializer.go 's/for _, c := range m\.collections \{\n\t\t\tc\.clear\(\)/for k, c := range m.collections {\n\t\t\tif k == "" {\n\t\t\t\tcontinue\n\t\t\t}\n\t\t\tc.clear()/'
run wire-name           C19 C19.R2 . state/message.go 's/json:"old_value,omitempty"/json:"oldValue,omitempty"/'
run replay-appends      C11 C11.R4 . persist.go 's/(func \(bus \*EventBus\) Replay\(ctx context\.Context, from Offset, handler func\(\*StoredEvent\) error\) error \{\n)/$1\tif bus.store != nil {\n\t\t_, _ = bus.store.Append(ctx, \&Event{Type: "replay.marker"})\n\t}\n/'
exit $fail
