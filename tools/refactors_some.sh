#!/bin/bash
# Runs the named checks against every stored behaviour-preserving refactoring (one scratch
# worktree, patches applied in turn). usage: [BIN=path] tools/refactors_some.sh <ID>...
set -u
BIN=${BIN:-/verif/bin/ebucheck}
WT=/tmp/wt/some-$$; SV=/tmp/verifscratch-some-$$
trap 'git -C /repo worktree remove --force $WT 2>/dev/null; rm -rf $SV' EXIT
git -C /repo worktree add -q --detach $WT HEAD || exit 2
mkdir -p $SV; cp /verif/known_findings.json $SV/
for d in /verif/refactors/*/; do
  n=$(basename $d)
  git -C $WT checkout -q -- . && git -C $WT clean -fdq
  git -C $WT apply $d/patch.diff || { echo "$n: PATCH DOES NOT APPLY"; continue; }
  bad=""
  for id in "$@"; do
    out=$(cd /verif && $BIN -repo $WT -verif $SV $id quick 2>&1); rc=$?
    if [ $rc -ne 0 ]; then bad="$bad $id"; echo "$out" | grep -E "^  (VIOLATED|UNRESOLVED)" | sed "s#^#  [$n/$id]#" | head -4; fi
  done
  echo "$n false-alarms=[$bad ]"
done
