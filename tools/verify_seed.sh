#!/bin/bash
# Confirms one seeded change and records it under /verif/seeded/<prop>/<name>/.
# usage: tools/verify_seed.sh <prop> <name> <srcdir>     (srcdir has patch.diff, demo_test.go, PKGDIR, notes.md)
set -u
PROP=$1; NAME=$2; SRC=$3
OUT=/verif/seeded/$PROP/${4:-$NAME}
LOG=$(mktemp)
WT=/tmp/wt/verify-$PROP-$NAME-$$
cleanup() { git -C /repo worktree remove --force $WT 2>/dev/null; rm -f $LOG; }
trap cleanup EXIT
git -C /repo worktree add -q --detach $WT HEAD || exit 2
PKGDIR=$(cat $SRC/PKGDIR | tr -d '[:space:]')
demo() { # run the demonstration in worktree $1; prints PASS/FAIL
  cp $SRC/demo_test.go $1/$PKGDIR/zz_demo_test.go
  (cd $1/$PKGDIR && timeout 300 go test -mod=mod -vet=off -count=1 -run 'TestDemo' . > $LOG 2>&1); rc=$?
  rm -f $1/$PKGDIR/zz_demo_test.go
  return $rc
}
# 1. demo passes on the clean tree
demo $WT; clean_rc=$?
# 2. apply, suite passes
git -C $WT apply $SRC/patch.diff || { echo "$PROP/$NAME: PATCH DOES NOT APPLY"; exit 1; }
suite=$(/verif/tools/baseline.sh $WT 2>&1 | head -1)
# 3. demo fails on the mutant
demo $WT; mut_rc=$?
demo_tail=$(tail -5 $LOG | tr '\n' ' ' | cut -c1-400)
# 4. which checks report it
caught=""; all=""
SV=/tmp/verifscratch-$$-$PROP-$NAME; mkdir -p $SV; cp /verif/known_findings.json $SV/
for id in $(cd /verif && bin/ebucheck list); do
  out=$(cd /verif && bin/ebucheck -repo $WT -verif $SV $id quick 2>&1); rc=$?
  if [ $rc -ne 0 ]; then all="$all $id"; fi
done
rm -rf $SV
ok=no
if [ "$clean_rc" = 0 ] && [ "$mut_rc" != 0 ] && echo "$suite" | grep -q "pass=396 fail=0"; then ok=yes; fi
echo "$PROP/$NAME confirmed=$ok clean_demo_rc=$clean_rc mutant_demo_rc=$mut_rc suite='$suite' caught_by=[$all ]"
if [ $ok = yes ]; then
  mkdir -p $OUT
  cp $SRC/patch.diff $SRC/demo_test.go $SRC/PKGDIR $OUT/
  [ -f $SRC/notes.md ] && cp $SRC/notes.md $OUT/notes.md
  python3 - "$PROP" "$NAME" "$suite" "$clean_rc" "$mut_rc" "$all" "$demo_tail" "${4:-$NAME}" <<'PY'
import json,sys
prop,name,suite,crc,mrc,caught,tail,outname=sys.argv[1:9]
notes=open(f'/verif/seeded/{prop}/{outname}/notes.md').read() if __import__('os').path.exists(f'/verif/seeded/{prop}/{outname}/notes.md') else ''
meta={"property":prop,"name":outname,"source":"independent sub-agent given only the property text and a scratch worktree",
 "needs_to_manifest":notes.strip()[:1500],
 "confirmed":{"suite_with_change":suite,"demo_on_clean_tree_exit":int(crc),"demo_with_change_exit":int(mrc),"demo_output_tail":tail,
   "commands":["git worktree add --detach <wt> HEAD","cp demo_test.go <wt>/<PKGDIR>/ && go test -run TestDemo . (clean: pass)","git apply patch.diff","tools/baseline.sh <wt> (396 pass)","go test -run TestDemo . (with change: fail)","VERIF_REPO=<wt> ./check <ID> quick for every ID"]},
 "reported_by_checks":caught.split()}
json.dump(meta,open(f'/verif/seeded/{prop}/{outname}/meta.json','w'),indent=1)
PY
fi
