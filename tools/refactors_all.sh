#!/bin/bash
# Runs every check against every stored behaviour-preserving refactoring; prints the false alarms.
cd /verif
(for d in refactors/*/; do n=$(basename $d); echo "$d/patch.diff $n"; done | xargs -P ${P:-8} -L 1 tools/refactor_check.sh) 2>&1 | tee /tmp/refac-all.log | grep "false-alarms" | sort
